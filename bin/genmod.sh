#!/bin/bash
# Regenerates /verif/engine/go.mod and go.sum from /repo's current go.mod (offline-safe).
set -e
REPO=${REPO:-/repo}
ENG=$(cd "$(dirname "$0")/../engine" && pwd)
{
  echo "module verif"
  echo
  sed -n '/^go /,$p' "$REPO/go.mod"
  echo
  echo "require github.com/attestantio/dirk v0.0.0"
  echo
  echo "replace github.com/attestantio/dirk => $REPO"
} > "$ENG/go.mod.new"
if ! cmp -s "$ENG/go.mod.new" "$ENG/go.mod"; then mv "$ENG/go.mod.new" "$ENG/go.mod"; else rm "$ENG/go.mod.new"; fi
if ! cmp -s "$REPO/go.sum" "$ENG/go.sum"; then cp "$REPO/go.sum" "$ENG/go.sum"; fi
