#!/bin/bash
# Prints the path of a freshly generated overlay file (see engine/cmd/genoverlay).
set -e
ROOT=$(cd "$(dirname "$0")/.." && pwd)
export GOFLAGS=-mod=mod GOPROXY=off GOSUMDB=off GOTOOLCHAIN=local
OUT=${1:-$ROOT/.build/overlay.$$}
mkdir -p "$ROOT/.build"
cd "$ROOT/engine"
go run ./cmd/genoverlay "${REPO:-/repo}" "$ROOT/engine/shim/sync.go.src" "$OUT"
