#!/usr/bin/env python3
"""keepseed.py <PROP> <slug> <needs> <caught_by> <strengthening>  -- stores /tmp/seed/out-<PROP> under /verif/seeded/<PROP>-<slug>/"""
import sys, os, json, shutil, glob
prop, slug, needs, caught, strength = sys.argv[1:6]
src = f"/tmp/seed/out-{prop}"
dst = f"/verif/seeded/{prop}-{slug}"
os.makedirs(dst, exist_ok=True)
for f in glob.glob(src + "/*"):
    b = os.path.basename(f)
    if b in ("dirk",) or os.path.getsize(f) > 300000 or b.endswith(".log") and b != "confirm.log":
        continue
    shutil.copy(f, dst)
confirm = open(src + "/confirm.log").read() if os.path.exists(src + "/confirm.log") else ""
summary = [l for l in confirm.splitlines() if l.startswith(("BUILD", "DEMO-", "SUITE"))]
meta = {
    "property": prop,
    "origin": "sub-agent that was given only the property text and a scratch worktree of /repo",
    "needs_to_manifest": needs,
    "confirmed": {"how": "in the agent's worktree: go build ./...; demonstration run with the change (must fail); full suite with the change and the demonstration moved aside (only the known TestRules/PathDisallowed failure); demonstration run with the change stashed (must pass)", "result": summary},
    "checks_run": f"git -C /repo apply patch.diff; bin/check <id> quick; git -C /repo checkout -- .",
    "caught_by": caught,
    "strengthening_needed": strength,
}
json.dump(meta, open(dst + "/meta.json", "w"), indent=1)
print(dst, summary)
