chk("C01", "E3-bfs", "model_checking",
    "Every attestation history over a boundary-value alphabet (single/batch, by name/by key, same key twice in a batch, two fork domains, restart) is explored breadth-first on the real signer stack down to badger; the slashing invariant is evaluated over the released signatures of every reachable state. Exhaustive within the stated alphabet and depth; this is the right level because the property quantifies over histories and the per-key state space is small and finite.",
    "Trusted: badger single-key linearizability; epochs outside the alphabet behave like neighbours; symbolic account keys (signature bytes = H(pubkey, message)) stand in for BLS, which is not Dirk code.",
    "explicit-state BFS of the implementation with invariant on every state", "5/C01")
chk("C02", "E3-bfs", "model_checking",
    "Every proposal history over boundary slots x roots x proposer indices x fork domains x addressing (+ restart, + interleaved attestations on the same keys) explored breadth-first on the real stack; per key the released slots must strictly increase.",
    "Same trusted base as C01.",
    "explicit-state BFS of the implementation with invariant on every state", "5/C02")
