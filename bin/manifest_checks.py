chk("C01", "E3-bfs", "model_checking",
    "Every attestation history over a boundary-value alphabet (single/batch, by name/by key, same key twice in a batch, two fork domains, restart) is explored breadth-first on the real signer stack down to badger; the slashing invariant is evaluated over the released signatures of every reachable state. Exhaustive within the stated alphabet and depth; this is the right level because the property quantifies over histories and the per-key state space is small and finite.",
    "Trusted: badger single-key linearizability; epochs outside the alphabet behave like neighbours; symbolic account keys (signature bytes = H(pubkey, message)) stand in for BLS, which is not Dirk code.",
    "explicit-state BFS of the implementation with invariant on every state", "5/C01")
chk("C02", "E3-bfs", "model_checking",
    "Every proposal history over boundary slots x roots x proposer indices x fork domains x addressing (+ restart, + interleaved attestations on the same keys) explored breadth-first on the real stack; per key the released slots must strictly increase.",
    "Same trusted base as C01.",
    "explicit-state BFS of the implementation with invariant on every state", "5/C02")
chk("C04", "E1-sched", "exploration",
    "All interleavings (at the stated preemption bound) of 2-3 concurrent single/batch attestation, proposal and generic requests on colliding keys are executed on the real ruler, locker (every sync operation under scheduler control), rules and badger; every complete execution must be linearizable against the sequential watermark specification, including decoded final records. The alphabet includes callers that give up (context cancelled before the request arrives, or by a cancel step the scheduler places anywhere). Work that the code detaches from a request (a goroutine that outlives or runs beside its request) is detected and the scenario is then explored with every goroutine as a thread and steps delimited by process-wide quiescence. Bounded-exhaustive: the CHESS result that real concurrency bugs need very few preemptions is why a preemption bound is the right cut.",
    "Trusted: each badger call is atomic; no unsynchronised shared data between scheduling points (only the sync operations of locker/syncmap and the store calls are points); GOMAXPROCS=1 in explorer processes.",
    "stateless preemption-bounded schedule enumeration of the implementation + brute-force linearizability check", "5/C04, Appendix A")
chk("C15", "E1-sched", "exploration",
    "All interleavings (preemption-bounded) of 2-4 concurrent batches whose key lists are ordered selections from a shared key set, in lock-only mode (approve-all rules) and with the real rules and store; plus requests refused early and callers that give up before or during their request; a state with unfinished threads and no enabled thread is a deadlock, detected exactly because the shim is the mutex.",
    "Trusted: as C04. The sustained-random-load clause of the property is not decided (sampling).",
    "stateless preemption-bounded schedule enumeration with exact deadlock detection", "5/C15, Appendix A")
chk("C09", "E3-bfs", "model_checking",
    "BFS over well-formed histories (attestations, proposals, distinct-key batches, restart) on the real stack; on every transition the sequential specification, computed from the signatures actually released, is compared in the completeness direction (specification approves => Dirk signed); every batch is re-run one entry at a time in every order on a replay of the same state (differential oracle); util.Scatter's partition and the batch signer are enumerated over (n, GOMAXPROCS) grids.",
    "Trusted: as C01; batch sizes beyond the grid and GOMAXPROCS beyond 16/32 are not covered.",
    "explicit-state BFS with lock-step reference model + differential batch/serial oracle + exhaustive (n, procs) grids", "5/C09")
chk("C11", "E3-bfs", "model_checking",
    "Every distinct state reached by a bounded BFS of well-formed histories is exported with the real CLI binary (exactness against the released maxima), re-imported by the real CLI into an empty directory, and compared on an ascending probe sequence with the restarted original and a never-restarted replay; old-format gob records of boundary values are planted and compared with current-format records.",
    "Trusted: the ascending probe sequence identifies a watermark state inside the probe alphabet; values outside the alphabets behave like neighbours.",
    "explicit-state BFS + differential oracle through the real CLI binary", "5/C11")
chk("C10", "E3-bfs", "model_checking",
    "Each transition is one run of the real `dirk --import-slashing-protection` binary built from the tree; prior per-key histories are made by real signing; all (prior state x file) cells and sequences of two imports over an alphabet of files (one-field-newer, duplicate keys, wrong metadata, malformed numbers/keys) are enumerated; after each cell the reopened store is probed for refusal at and below every own/file maximum and decoded records are compared.",
    "Trusted: values outside the alphabet behave like neighbours; only two keys; probes are a finite set around the maxima.",
    "exhaustive (state x input) enumeration through the real CLI binary with probe oracle", "5/C10")
chk("C06", "E2-dfs", "fault_enumeration",
    "For every request shape (kind x addressing x lock state x planted record x malformed length x closed store) every execution with at most d departures from the default environment answer is run through the real gRPC signer handlers on the real stack; every call of fetcher, checker, unlocker, rules.On*, the store operations (error; store closed between read and write) and Account.Sign/IsUnlocked is a choice point. Oracle: signature present iff SUCCEEDED at the wire and at the service, position by position, and no signature at a position served by a failed or indeterminate step.",
    "Trusted: fault menu excludes results no in-tree rules implementation can produce; GOMAXPROCS=1 in explorer processes; a request that never answers (badger blocks on a closed database) counts as 'no signature'.",
    "deviation-bounded exhaustive fault injection at every dependency call site of the implementation", "5/C06")
chk("C07", "E5-grid", "exploration",
    "Exhaustive grid of permission tables (literal, alternation, class, own-anchor, escaped-dollar, mixed-case patterns x ordered operation lists incl. None/~op) x requests at checker.Check against a reference evaluator written from the property text (one-directional: allowed by Dirk implies allowed by the text), plus a service-level grid in which every operation of signer, lister, account manager, wallet manager and generate is driven under reduced tables and must be carried out only if the evaluator allows it on the resolved name, refused requests leaving decoded records and lock state unchanged.",
    "Trusted: names/patterns outside the alphabets behave like their representatives; YAML entry order (main.go ranges over a map) is out of scope.",
    "exhaustive configuration x request grid against an independent reference evaluator", "5/C07")
chk("C05", "E5-grid", "exploration",
    "Full grid of domains (every first byte x following-byte and suffix classes) x every generic/attestation/proposal endpoint position (single, multisign positions, batch positions) x administrator lists x source addresses on the real signer stack, against the truth table of the property text; every produced signature is also bound to the submitted data and domain.",
    "Trusted: domain bytes beyond the enumerated classes do not matter; symbolic account keys stand in for BLS.",
    "exhaustive input x configuration grid with truth-table oracle", "5/C05")
chk("C08", "E5-grid", "exploration",
    "Single requests over boundary field values with real BLS keys verified by the BLS library against a signing root computed by an independent sha256 merkleisation; attestation batches and multisign of every listed size under every listed GOMAXPROCS with distinct per-entry data (exactly n results and signatures, signature i bound to account i and data i, not to i+1), partly through the gRPC handlers; a reduced (n, procs) grid repeated with real BLS.",
    "Trusted: the BLS library; symbolic keys (signature bytes = H(pubkey, message)) for the large grid.",
    "exhaustive (size x parallelism x field value) grid with an independent signing-root oracle", "5/C08")
chk("C18", "E5-grid", "exploration",
    "Wallet/account populations (plain and distributed, regex-significant names) x permission tables x every list of requested paths up to length 2 (3 in thorough) x clients, before and after dynamic account creation, through the real gRPC lister handler; the returned set must lie between the must-contain and may-contain sets of a reference lister, with names and keys equal to the store's.",
    "Trusted: names and patterns outside the alphabets behave like their representatives.",
    "exhaustive configuration x request grid against a reference lister (set inclusion both ways)", "5/C18")
chk("C12", "E6-dkg", "exploration",
    "Clusters of n real instances wired through their real receiver handlers; full grid over n, every t in 0..n+1, identifier sets (small, large, near 2^64, mixed), every initiator, every participant order and commit completion order for small n, tampered commit replies; on success the algebraic consistency oracle and real threshold-signature recovery over every t-subset and (t-1)-subset are evaluated, plus immediate signing/listing on every participant.",
    "Trusted: BLS library; the gRPC sender/TLS between peers is replaced by direct delivery of marshalled messages to the real handlers; n <= 4 (quick) / 7 (thorough).",
    "exhaustive configuration x order grid with algebraic and threshold-signature oracle", "5/C12")
chk("C13", "E6-dkg", "fault_enumeration",
    "Every execution of a full generation with at most d faults over all prepare/execute/contribute messages and contribution replies (lost, error reply, random share, other identifier, altered commitment, short vector, long vector with consistent share, duplicate) for (n,t) in {(2,2),(3,2),(3,3),(4,3)}, in worker processes so that a crash is observed and attributed to the announced case.",
    "Trusted: commit/abort messages are not faulted; site-keyed deviations (robust against map-iteration order inside OnExecute).",
    "deviation-bounded exhaustive fault injection on every protocol message of the implementation", "5/C13")
chk("C16", "E6-dkg", "model_checking",
    "BFS over protocol events of a real three-instance cluster; in every reachable session state every non-peer identity sends every protocol message to an instance through its real receiver handler and must be refused with the state unchanged; share ownership is checked on the reply to every authenticated contributor; a generation must still complete when a non-peer message arrives before each phase.",
    "Trusted: the identity is what ClientInfoInterceptor puts in the context (C19).",
    "explicit-state BFS of the implementation with identity x message grid in every state", "5/C16")
chk("C17", "E6-dkg", "model_checking",
    "BFS over event sequences (prepare/execute/contribute from participants and from a configured non-participant peer/commit/abort for two account names, clock advance) delivered to one real instance through its receiver handler, with lifecycle monitors from the property text on every transition and the harness's own record of who contributed (clock advances far past, just past and well short of the timeout). In addition commit/abort/prepare messages for one name are delivered to the instance at the same time under the cooperative scheduler (the service's generations-table lock goes through the sync shim): every interleaving is executed and the results, the session table and the account must be explained by some order of the messages under the sequential lifecycle.",
    "Trusted: threshold 2 of 3 only; session fate after a failed commit is unspecified and follows the implementation.",
    "explicit-state BFS of the implementation with lifecycle monitors on every transition", "5/C17")
chk("C14", "E6-dkg", "exploration",
    "For every accepted (n,t) up to the stated n and every conflicting pair, every assignment of request sequences over the two duties to the real instances is run on a freshly DKG-generated account; no instance may release partial signatures for both duties and real threshold recovery over every t-subset must not succeed for both; both duties are also delivered concurrently to one instance under the cooperative scheduler.",
    "Trusted: BLS library; instances share no state on the signing path (checked); representative sequences above n=2 (quick) / n=3 (thorough).",
    "exhaustive assignment enumeration with real threshold-signature recovery + preemption-bounded schedule enumeration", "5/C14")
chk("C20", "E2-dfs", "exploration",
    "For every RPC of the client-facing services (authorised client) and the key-generation service (non-peer): the default message and every message with one field off default (two in thorough) over per-type boundary menus, each marshalled, decoded by the real protobuf library and handed to the real handler inside a worker process under a 16 GiB address-space limit, followed by a canary request; a worker death or hang is attributed to the announced case.",
    "Trusted: the gRPC transport layer is not exercised; explicitly encoded zero-length bytes decode to nil in the pinned protobuf library (verified) so they equal 'absent'.",
    "deviation-bounded exhaustive message enumeration against the real handlers with crash/hang detection in a worker process", "5/C20")
chk("C19", "E5-grid", "exploration",
    "A real API server (services/api/grpc with the repository's CA) on loopback; the full grid of all 16 RPC methods x credential kinds (plaintext, no client certificate, self-signed, other authority with and without its CA in the chain, each valid client, a valid peer) x wallets; unauthenticated callers must obtain nothing and change nothing (state digest over all records, locks, accounts, sessions); valid callers are served according to the permissions of the certificate's subject name.",
    "Trusted: Go crypto/tls and x509; loopback TCP.",
    "exhaustive method x credential grid over real TLS with state-digest oracle", "5/C19")
chk("C03", "E4-crash", "fault_enumeration",
    "Short histories are run by a child process on the real signer stack. (1) The child is killed with SIGKILL at every hook point of the run. (2) The child runs under strace; every system-call boundary on the storage directory is a power-loss point and every directory image allowed by the stated persistence model (in-order metadata, O_DSYNC writes durable at return and torn while in flight, other writes volatile until fsync) is materialised. Every killed directory and every image is reopened by the real code and probed with every request that conflicts with a request that had reached signing; the simulator is validated against the directory the child actually left behind.",
    "Trusted: persistence model M-ord; badger's recovery; strace's record of the system calls; media corruption and reordered metadata are out of scope.",
    "exhaustive crash-point x lost-write-pattern enumeration with real recovery", "5/C03, Appendix C")
