#!/usr/bin/env python3
"""Regenerates MANIFEST.json from the table below (kept in one place so it stays valid)."""
import json, subprocess, os
ROOT = os.path.dirname(os.path.dirname(os.path.abspath(__file__)))
props = [json.loads(l)["id"] for l in open(os.path.join(ROOT, "properties.jsonl"))]

CHECKS = {}
def chk(pid, engine, cat, text, note, technique, ref):
    CHECKS[pid] = dict(property_id=pid, quick_cmd=f"bin/check {pid} quick", thorough_cmd=f"bin/check {pid} thorough",
        evidence_file=f"/verif/evidence/{pid}.json", replay_cmd_template=f"bin/check {pid} quick --replay {{path}}",
        engine=engine, level_claimed=dict(category=cat, text=text, design_ref=ref), level_note=note, technique=technique)

exec(open(os.path.join(ROOT, "bin", "manifest_checks.py")).read())

hook_commits = subprocess.run(["git", "-C", "/repo", "log", "--format=%H %s"], capture_output=True, text=True).stdout.splitlines()
hooks = [l.split()[0] for l in hook_commits if "verification hook" in l.lower() or l.split(" ",1)[1].startswith("verif:")]
NA = json.load(open(os.path.join(ROOT, "bin", "not_applicable.json")))
m = dict(version=1,
    setup_cmd="bin/setup.sh",
    hooks=dict(guard="verif", enable="go build -tags verif (bin/check does this for every check)",
        baseline_off_cmd="cd /repo && GOFLAGS=-mod=mod GOPROXY=off GOSUMDB=off GOTOOLCHAIN=local go test -json -vet=off -count=1 -timeout 25m ./...",
        source_commits=hooks, add_only=True),
    engines=[
        dict(name="E3-bfs", path="engine/bfs", serves_properties=["C01","C02","C09","C10","C11","C16","C17"], kind_free_text="explicit-state BFS over the real transition functions; successors by path replay on fresh instances; lock-step reference models"),
        dict(name="E1-sched", path="engine/sched", serves_properties=["C04","C15","C14","C17"], kind_free_text="cooperative scheduler (goroutine-aware; token mode with detection of detached work, goroutine mode with quiescence-delimited steps) + stateless DFS: all interleavings for small scenarios, preemption-bounded otherwise; sync shim injected by overlay into services/locker/syncmap and services/process/standard"),
        dict(name="E2-dfs", path="engine/dfs", serves_properties=["C06","C13","C20"], kind_free_text="deviation-bounded DFS over environment answers (fault injection at every dependency call site)"),
        dict(name="E4-crash", path="engine/crash", serves_properties=["C03"], kind_free_text="crash-image explorer: every syscall boundary x persistence variants, real recovery; real SIGKILL at hook points; storage-full enumeration (RLIMIT_FSIZE at every request and offset)"),
        dict(name="E5-grid", path="engine/checks", serves_properties=["C05","C07","C08","C12","C14","C18","C19","C20"], kind_free_text="exhaustive finite grids against independent oracles"),
        dict(name="E6-dkg", path="engine/rig", serves_properties=["C12","C13","C14","C16","C17"], kind_free_text="in-memory DKG cluster through the real receiver handlers"),
    ],
    checks=[CHECKS[p] for p in props if p in CHECKS],
    not_applicable=[dict(property_id=p, reason=NA.get(p, "check not built yet in this session (see DESIGN.md section 5 for the plan)")) for p in props if p not in CHECKS],
    notes="Driver: bin/check <ID> <tier>; exit 0 held / 1 VIOLATION / 2 harness error. known_findings.json lists recorded and fixed defects.")
json.dump(m, open(os.path.join(ROOT, "MANIFEST.json"), "w"), indent=1)
print("checks:", len(m["checks"]), "not_applicable:", len(m["not_applicable"]))
