#!/bin/bash
# Runs every check at the given tier (default quick) and prints one line per check.
TIER=${1:-quick}
cd "$(dirname "$0")/.."
for id in $(python3 -c "import json;print(' '.join(c['property_id'] for c in json.load(open('MANIFEST.json'))['checks']))"); do
  s=$(date +%s)
  out=$(bin/check $id $TIER 2>&1); rc=$?
  e=$(date +%s)
  echo "$id rc=$rc $((e-s))s $(echo "$out" | grep -c VIOLATION) violations; $(echo "$out" | tail -1 | cut -c1-120)"
done
