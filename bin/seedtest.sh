#!/bin/bash
# Usage: bin/seedtest.sh <ID> <dir with patch.diff> [check ids...]
# Applies a seeded change to /repo, runs the given checks (default: the property's own), and reverts.
ID=$1; DIR=$2; shift; shift
CHECKS=${@:-$ID}
cd /verif
if [ -n "$(git -C /repo status --porcelain)" ]; then echo "/repo not clean"; exit 2; fi
git -C /repo apply "$DIR/patch.diff" || { echo "patch does not apply"; exit 2; }
trap 'git -C /repo checkout -- . ; git -C /repo clean -fdq' EXIT
for c in $CHECKS; do
  out=$(bin/check $c quick 2>&1); rc=$?
  echo "== $c rc=$rc violations=$(echo "$out" | grep -c '^VIOLATION')"
  echo "$out" | grep -A1 '^VIOLATION' | head -6 | cut -c1-420
  echo "$out" | grep 'HARNESS-ERROR\|^NOTE' | head -3 | cut -c1-300
done
