#!/bin/bash
# Usage: bin/seedtest2.sh <dir with patch.diff> <check id>...
# Like seedtest.sh, but leaves /repo and /verif/evidence alone: the change is applied to a scratch worktree of /repo and
# the checks run from a scratch copy of /verif with REPO pointing at it. Several of these can run side by side.
DIR=$1; shift
N=$$; V=/tmp/vs-$N; R=/tmp/rs-$N
trap 'git -C /repo worktree remove --force $R >/dev/null 2>&1; rm -rf $V $R' EXIT
rsync -a --exclude .git --exclude .build --exclude replays --exclude seeded /verif/ $V/ || exit 2
git -C /repo worktree add -q --detach $R HEAD || exit 2
git -C $R apply "$DIR/patch.diff" || { echo "patch does not apply"; exit 2; }
for c in "$@"; do
  out=$(cd $V && REPO=$R bin/check $c quick 2>&1); rc=$?
  echo "== $(basename $DIR) / $c rc=$rc violations=$(echo "$out" | grep -c '^VIOLATION')"
  echo "$out" | grep -A1 '^VIOLATION' | grep -v '^--' | head -6 | cut -c1-420
  echo "$out" | grep 'HARNESS-ERROR\|^NOTE' | head -3 | cut -c1-300
done
