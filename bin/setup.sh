#!/bin/bash
# Offline setup after a fresh restore: generate the harness go.mod and warm the build cache.
set -e
cd "$(dirname "$0")/.."
export GOFLAGS=-mod=mod GOPROXY=off GOSUMDB=off GOTOOLCHAIN=local
bin/genmod.sh
mkdir -p .build evidence replays
(cd engine && go build -tags verif -o ../.build/vcheck.setup ./cmd/vcheck)
rm -f .build/vcheck.setup
if [ -x bin/genoverlay.sh ]; then
  OV=$(bin/genoverlay.sh "$PWD/.build/overlay.setup")
  (cd engine && go build -tags "verif verifsched" -overlay "$OV" -o ../.build/vcheck.setup ./cmd/vcheck)
  rm -rf .build/vcheck.setup .build/overlay.setup
fi
echo setup ok
