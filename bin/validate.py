#!/usr/bin/env python3-vt
import json, jsonschema, sys, glob, os
R = os.path.dirname(os.path.dirname(os.path.abspath(__file__)))
jsonschema.validate(json.load(open(R+'/MANIFEST.json')), json.load(open('/root/.vp/MANIFEST.schema.json')))
print("MANIFEST ok")
sch = json.load(open('/root/.vp/EVIDENCE.schema.json'))
for f in sorted(glob.glob(R+'/evidence/*.json') + glob.glob(R+'/evidence-thorough/*.json')):
    try:
        jsonschema.validate(json.load(open(f)), sch); print(os.path.relpath(f, R), 'ok')
    except Exception as e:
        print(os.path.basename(f), 'INVALID', str(e)[:300])
