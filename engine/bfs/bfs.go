// Package bfs is an explicit-state breadth-first explorer over a real transition function.
// Live objects are never cloned: a successor is computed by replaying the shortest operation path that
// reached a state on a fresh instance and then applying one more operation.
package bfs

import (
	"fmt"
	"runtime"
	"runtime/debug"
	"strings"
	"sync"
	"time"
)

// Outcome is what a worker reports for one executed path.
type Outcome struct {
	Obs   []string // one observation per operation of the path
	Canon string   // canonical state after the path
	// Viol lists invariant/monitor failures detected on the final state or final transition.
	Viol []Viol
}

// Viol is a monitor failure.
type Viol struct {
	Key  string
	What string
}

// Worker executes paths on fresh instances of the real system.
type Worker[O any] interface {
	Run(path []O) (Outcome, error)
	Close()
}

// Config describes one search.
type Config[O any] struct {
	NewWorker func() (Worker[O], error)
	// Ops returns the operations enabled after path (the alphabet may depend on the path, not on hidden state).
	Ops      func(path []O) []O
	MaxDepth int
	// Budget bounds wall time (0 = none); hitting it makes the result non-exhaustive, never a violation.
	Budget  time.Duration
	Workers int
	// OnViolation is called (serially) for each violation with the full path.
	OnViolation func(path []O, v Viol)
	// OnTransition is called serially for each executed transition (path incl. last op, outcome, whether new state).
	OnTransition func(path []O, out Outcome, isNew bool)
	MaxStates    int
}

// Result summarises a search.
type Result struct {
	States        int
	Transitions   int
	DepthDone     int // every state at depth < DepthDone has been fully expanded
	FrontierEmpty bool
	Capped        string
	BudgetHit     bool // a time or state cap (not the stated depth bound) stopped the search
	StatesByDepth []int
}

type node[O any] struct {
	path []O
	obs  []string
}

type job[O any] struct {
	idx  int
	path []O
	want []string
}

type jres struct {
	out Outcome
	err error
	// crash: the code under test panicked while it served the last operation of the path (a real daemon has no recovery
	// interceptor: it is gone). The path is reported and not expanded.
	crash *Viol
}

// dirkFrame returns the innermost function of the code under test on a panic's stack ("" if the panic is the
// harness's own).
func dirkFrame(stack string) string {
	lines := strings.Split(stack, "\n")
	seenPanic := false
	for _, l := range lines {
		if strings.HasPrefix(l, "panic(") {
			seenPanic = true
			continue
		}
		if seenPanic && strings.HasPrefix(l, "github.com/attestantio/dirk/") && !strings.Contains(l, "/util/verifhook.") && !strings.Contains(l, "/util/verifsync.") {
			if i := strings.LastIndex(l, "("); i > 0 {
				l = l[:i]
			}
			return strings.TrimPrefix(l, "github.com/attestantio/dirk/")
		}
		if seenPanic && (strings.HasPrefix(l, "verif/") || strings.HasPrefix(l, "main.")) {
			return ""
		}
	}
	return ""
}

// Explore runs the search.
func Explore[O any](cfg Config[O]) (Result, error) {
	nw := cfg.Workers
	if nw <= 0 {
		nw = runtime.NumCPU()
	}
	start := time.Now()
	workers := make([]Worker[O], nw)
	for i := range workers {
		w, err := cfg.NewWorker()
		if err != nil {
			return Result{}, err
		}
		workers[i] = w
	}
	defer func() {
		for _, w := range workers {
			w.Close()
		}
	}()

	res := Result{}
	seen := map[string]bool{}
	out0, err := workers[0].Run(nil)
	if err != nil {
		return res, err
	}
	seen[out0.Canon] = true
	res.States = 1
	res.StatesByDepth = []int{1}
	for _, v := range out0.Viol {
		if cfg.OnViolation != nil {
			cfg.OnViolation(nil, v)
		}
	}
	frontier := []node[O]{{}}
	for depth := 0; depth < cfg.MaxDepth && len(frontier) > 0; depth++ {
		var jobs []job[O]
		for _, n := range frontier {
			for _, op := range cfg.Ops(n.path) {
				p := make([]O, len(n.path)+1)
				copy(p, n.path)
				p[len(n.path)] = op
				jobs = append(jobs, job[O]{idx: len(jobs), path: p, want: n.obs})
			}
		}
		results := make([]jres, len(jobs))
		var next int
		var mu sync.Mutex
		var wg sync.WaitGroup
		timedOut := false
		for wi := range workers {
			wg.Add(1)
			go func(wi int) {
				w := workers[wi]
				defer wg.Done()
				for {
					mu.Lock()
					if cfg.Budget > 0 && time.Since(start) > cfg.Budget {
						timedOut = true
						mu.Unlock()
						return
					}
					i := next
					next++
					mu.Unlock()
					if i >= len(jobs) {
						return
					}
					func() {
						// A panic of the code under test inside a worker must not take the violations already found
						// with it: it becomes the error of this path.
						defer func() {
							if r := recover(); r != nil {
								if fn := dirkFrame(string(debug.Stack())); fn != "" {
									results[i] = jres{crash: &Viol{Key: "request-crashes-the-instance:" + fn, What: fmt.Sprintf("the last request of the path is not answered: the instance panics in %s (%v); a daemon that panics is gone, for every client", fn, r)}}
									// The instance may hold locks it will never release: this worker gets a fresh one.
									if nwk, err := cfg.NewWorker(); err == nil {
										w = nwk
										workers[wi] = nwk
									}
									return
								}
								results[i] = jres{err: fmt.Errorf("panic: %v", r)}
							}
						}()
						o, err := w.Run(jobs[i].path)
						results[i] = jres{out: o, err: err}
					}()
				}
			}(wi)
		}
		wg.Wait()
		if timedOut {
			res.BudgetHit = true
			res.Capped = fmt.Sprintf("time budget %s hit while expanding depth %d (%d of %d transitions of that level done)", cfg.Budget, depth, next-nw, len(jobs))
			if next-nw < 0 {
				res.Capped = fmt.Sprintf("time budget %s hit while expanding depth %d", cfg.Budget, depth)
			}
			return res, nil
		}
		var nextFrontier []node[O]
		// Violations on the paths that did run are reported before an error on another path of the level ends the search.
		for i, r := range results {
			if r.err != nil {
				for j, q := range results {
					if q.err == nil && cfg.OnViolation != nil {
						for _, v := range q.out.Viol {
							cfg.OnViolation(jobs[j].path, v)
						}
					}
				}
				return res, fmt.Errorf("path %v: %w", jobs[i].path, r.err)
			}
		}
		for i, r := range results {
			if r.crash != nil {
				res.Transitions++
				if cfg.OnViolation != nil {
					cfg.OnViolation(jobs[i].path, *r.crash)
				}
				continue
			}
			// Determinism: the replayed prefix must give the observations recorded when it was first explored.
			for k := range jobs[i].want {
				if r.out.Obs[k] != jobs[i].want[k] {
					return res, fmt.Errorf("nondeterministic replay of %v at step %d: %q vs %q", jobs[i].path, k, r.out.Obs[k], jobs[i].want[k])
				}
			}
			res.Transitions++
			for _, v := range r.out.Viol {
				if cfg.OnViolation != nil {
					cfg.OnViolation(jobs[i].path, v)
				}
			}
			isNew := !seen[r.out.Canon]
			if isNew {
				seen[r.out.Canon] = true
				res.States++
				nextFrontier = append(nextFrontier, node[O]{path: jobs[i].path, obs: r.out.Obs})
			}
			if cfg.OnTransition != nil {
				cfg.OnTransition(jobs[i].path, r.out, isNew)
			}
		}
		res.DepthDone = depth + 1
		res.StatesByDepth = append(res.StatesByDepth, len(nextFrontier))
		frontier = nextFrontier
		if cfg.MaxStates > 0 && res.States > cfg.MaxStates {
			res.Capped = fmt.Sprintf("state cap %d exceeded after depth %d", cfg.MaxStates, depth+1)
			res.BudgetHit = true
			return res, nil
		}
	}
	res.FrontierEmpty = len(frontier) == 0
	if !res.FrontierEmpty {
		res.Capped = fmt.Sprintf("depth bound %d reached with %d unexpanded states", cfg.MaxDepth, len(frontier))
	}
	return res, nil
}
