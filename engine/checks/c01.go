package checks

import (
	"fmt"
	"runtime"
	"time"

	"verif/bfs"
	"verif/ev"
	"verif/model"
)

// Epoch/slot boundary alphabet.
var (
	eQuick    = []uint64{0, 1, 2, 1<<63 - 1, 1 << 63, 1<<64 - 1}
	eThorough = []uint64{0, 1, 2, 3, 1<<63 - 1, 1 << 63, 1<<63 + 1, 1<<64 - 1}
	// pairs used inside batches
	batchPairs = [][2]uint64{{0, 0}, {0, 1}, {1, 2}, {0, 1 << 63}, {1<<63 - 1, 1 << 63}, {1 << 63, 1<<64 - 1}}
)

func attSingles(key int, E []uint64, withDomains bool) []SOp {
	var ops []SOp
	for _, s := range E {
		for _, t := range E {
			for root := 1; root <= 2; root++ {
				for _, byKey := range []bool{false, true} {
					ops = append(ops, SOp{Kind: "att", Ents: []Ent{{Key: key, ByKey: byKey, S: s, T: t, Root: root}}})
				}
			}
		}
	}
	// A public key spelt with a trailing byte resolves to the same account (the lookup uses the first 48 bytes).
	for _, p := range batchPairs {
		ops = append(ops, SOp{Kind: "att", Ents: []Ent{{Key: key, ByKey: true, Pad: true, S: p[0], T: p[1], Root: 1}}})
		ops = append(ops, SOp{Kind: "att", Ents: []Ent{{Key: key, ByKey: true, Pad: true, S: p[0], T: p[1], Root: 2}}})
	}
	if withDomains {
		for _, p := range batchPairs {
			ops = append(ops, SOp{Kind: "att", Ents: []Ent{{Key: key, S: p[0], T: p[1], Root: 1, Dom: 1}}})
			ops = append(ops, SOp{Kind: "att", Ents: []Ent{{Key: key, S: p[0], T: p[1], Root: 2, Dom: 1}}})
		}
	}
	return ops
}

// attBatches: batches in which key occurs once (with a benign entry on `other`) in both positions, and twice.
func attBatches(key, other int, triple bool) []SOp {
	var ops []SOp
	benign := Ent{Key: other, S: 0, T: 1, Root: 1}
	for _, p := range batchPairs {
		for root := 1; root <= 2; root++ {
			e := Ent{Key: key, S: p[0], T: p[1], Root: root}
			ek := e
			ek.ByKey = true
			ops = append(ops,
				SOp{Kind: "atts", Ents: []Ent{e, benign}},
				SOp{Kind: "atts", Ents: []Ent{benign, ek}},
			)
			if triple {
				b2 := benign
				b2.Key = other + 1
				ops = append(ops, SOp{Kind: "atts", Ents: []Ent{benign, e, b2}})
			}
		}
	}
	for _, p := range batchPairs[:3] {
		ops = append(ops, SOp{Kind: "atts", Ents: []Ent{{Key: key, ByKey: true, Pad: true, S: p[0], T: p[1], Root: 2}, benign}})
	}
	// The same key twice in one batch: by name and by key, by name twice; different data.
	for i, p := range batchPairs {
		q := batchPairs[(i+1)%len(batchPairs)]
		ops = append(ops,
			SOp{Kind: "atts", Ents: []Ent{{Key: key, S: p[0], T: p[1], Root: 1}, {Key: key, ByKey: true, S: p[0], T: p[1], Root: 2}}},
			SOp{Kind: "atts", Ents: []Ent{{Key: key, S: p[0], T: p[1], Root: 1}, {Key: key, S: q[0], T: q[1], Root: 2}}},
			SOp{Kind: "atts", Ents: []Ent{{Key: key, ByKey: true, S: q[0], T: q[1], Root: 1}, benign, {Key: key, S: p[0], T: p[1], Root: 2}}},
		)
	}
	return ops
}

func hasRestart(path []SOp) bool {
	for _, o := range path {
		if o.Kind == "restart" {
			return true
		}
	}
	return false
}

// attInvariant checks the slashing conditions over all released attestations.
func attInvariant(rel []Released) []bfs.Viol {
	var vs []bfs.Viol
	for i := range rel {
		for j := i + 1; j < len(rel); j++ {
			a, b := rel[i], rel[j]
			if a.Prop || b.Prop || a.Key != b.Key {
				continue
			}
			if bad, why := model.SlashableAtt(model.Att{S: b.S, T: b.T, Root: b.Root}, model.Att{S: a.S, T: a.T, Root: a.Root}); bad {
				vs = append(vs, bfs.Viol{
					Key:  fmt.Sprintf("att-slashable:%s:first=(%d,%d):second=(%d,%d)", why, a.S, a.T, b.S, b.T),
					What: fmt.Sprintf("%s: released (%d->%d) at step %d and a different (%d->%d) at step %d for the same key", why, a.S, a.T, a.Step, b.S, b.T, b.Step),
				})
			}
		}
	}
	return vs
}

type c01Worker struct {
	w    *SigWorker
	keys []int // keys whose records/releases make up the canonical state
}

func (c *c01Worker) Close() { c.w.Close() }
func (c *c01Worker) Run(path []SOp) (bfs.Outcome, error) {
	tr, err := c.w.Exec(path)
	if err != nil {
		return bfs.Outcome{}, err
	}
	out := bfs.Outcome{Obs: tr.Obs, Canon: CanonRecs(tr.Recs, c.keys...) + "|" + CanonReleased(tr.Released, c.keys...) + "|" + CanonRoutes(path, tr.Released, c.keys...)}
	// Only this property's invariant decides. (Whether a released signature is over exactly the requested data is
	// C08's statement and is not alarmed here.)
	out.Viol = attInvariant(tr.Released)
	return out, nil
}

type searchStats struct {
	approvals, refusals int
	samples             *ev.Samples
	outcomes            map[string]int
}

func newStats() *searchStats {
	return &searchStats{samples: ev.NewSamples(6), outcomes: map[string]int{}}
}

func pathStrings(path []SOp) []string {
	l := make([]string, len(path))
	for i, o := range path {
		l[i] = o.String()
	}
	return l
}

func (s *searchStats) onTransition(path []SOp, out bfs.Outcome, isNew bool) {
	o := out.Obs[len(out.Obs)-1]
	s.outcomes[path[len(path)-1].Kind+":"+o]++
	approved := false
	for _, ch := range o {
		if ch == 'S' {
			approved = true
		}
	}
	if approved {
		s.approvals++
	} else {
		s.refusals++
	}
	if isNew && len(path) >= 2 {
		s.samples.Add(map[string]any{"path": pathStrings(path), "observations": out.Obs, "state": out.Canon})
	}
}

// C01 explores attestation histories.
func C01(tier string) int {
	run := ev.NewRun("C01", tier, "model_checking")
	E := eQuick
	depthClosure, depthTwo := 4, 2
	budget := 150 * time.Second
	if tier == "thorough" {
		E = eThorough
		depthClosure, depthTwo = 12, 3
		budget = 15 * time.Minute
	}
	onViol := func(path []SOp, v bfs.Viol) {
		run.Violate(v.Key, v.What, map[string]any{"check": "C01", "path": path, "path_text": pathStrings(path)})
	}
	// Phase (i): closure on key A alone.
	InstallSigFaults()
	// withWriteFaults adds, for every batch, the same batch served while the store refuses writes.
	withWriteFaults := func(ops []SOp) []SOp {
		out := append([]SOp{}, ops...)
		for _, o := range ops {
			if o.Kind == "atts" {
				o.Fault = "write"
				out = append(out, o)
			}
		}
		return out
	}
	ops1 := withWriteFaults(append(attSingles(0, E, true), attBatches(0, 1, tier == "thorough")...))
	var legacy1 []SOp
	for _, st := range [][2]uint64{{0, 0}, {0, 1}, {1, 2}} {
		legacy1 = append(legacy1, SOp{Kind: "legacy-att", Ents: []Ent{{Key: 0, S: st[0], T: st[1]}}})
	}
	st1 := newStats()
	r1, err := bfs.Explore(bfs.Config[SOp]{
		NewWorker: func() (bfs.Worker[SOp], error) {
			w, err := NewSigWorker(3)
			if err != nil {
				return nil, err
			}
			return &c01Worker{w: w, keys: []int{0}}, nil
		},
		Ops: func(path []SOp) []SOp {
			if len(path) == 0 {
				// A history may begin with a record left by an older release (old record format).
				return append(append([]SOp{}, ops1...), legacy1...)
			}
			if hasRestart(path) {
				return ops1
			}
			return append(append([]SOp{}, ops1...), SOp{Kind: "restart"})
		},
		MaxDepth:     depthClosure,
		Budget:       budget,
		OnViolation:  onViol,
		OnTransition: st1.onTransition,
	})
	if err != nil {
		run.HarnessErr = err
		return run.Finish()
	}
	// Phase (ii): two keys, bounded depth, reduced epoch set but all batch shapes.
	E2 := []uint64{0, 1, 2, 1 << 63}
	ops2 := append(attSingles(0, E2, false), attSingles(1, E2, false)...)
	ops2 = append(ops2, attBatches(0, 1, false)...)
	ops2 = append(ops2, attBatches(1, 0, false)...)
	ops2 = withWriteFaults(ops2)
	for k := 0; k < 2; k++ {
		// Asked of a second instance started on the same storage directory while the first is running.
		ops2 = append(ops2, SOp{Kind: "twin-att", Ents: []Ent{{Key: k, S: 0, T: 1, Root: 2}}}, SOp{Kind: "twin-att", Ents: []Ent{{Key: k, S: 0, T: 2, Root: 2}}})
	}
	for _, o := range attSingles(0, []uint64{0, 1, 2}, false) {
		o.Fault = "write"
		ops2 = append(ops2, o)
	}
	// An entry directly behind another key's entry with the same target and a lower source (what is recorded for one
	// entry must not borrow from its neighbour), and the vote that would surround it.
	ops2 = append(ops2,
		SOp{Kind: "atts", Ents: []Ent{{Key: 1, S: 0, T: 2, Root: 1}, {Key: 0, S: 1, T: 2, Root: 1}}},
		SOp{Kind: "atts", Ents: []Ent{{Key: 0, ByKey: true, S: 0, T: 2, Root: 1}, {Key: 1, ByKey: true, S: 1, T: 2, Root: 1}}},
		SOp{Kind: "att", Ents: []Ent{{Key: 0, S: 0, T: 3, Root: 2}}},
		SOp{Kind: "att", Ents: []Ent{{Key: 1, S: 0, T: 3, Root: 2}}},
	)
	// Served while reads of the store fail (all of them; for batches also: those of the first or the last entry's key only).
	for _, o := range attSingles(0, []uint64{0, 1, 2}, false) {
		if !o.Ents[0].ByKey {
			o.Fault = "read"
			ops2 = append(ops2, o)
		}
	}
	for _, p := range [][2]uint64{{0, 1}, {1, 2}} {
		for _, f := range []string{"read", "read-first", "read-last"} {
			ops2 = append(ops2, SOp{Kind: "atts", Fault: f, Ents: []Ent{{Key: 0, S: p[0], T: p[1], Root: 2}, {Key: 1, S: p[0], T: p[1], Root: 2}}})
		}
	}
	for k := 0; k < 2; k++ {
		// Attestation data submitted to the generic batch endpoint under the attester domain type, beside an ordinary
		// generic entry for the other key (in both orders): if that is ever signed it is an attestation like any other.
		for _, st := range [][2]uint64{{0, 1}, {0, 2}} {
			ops2 = append(ops2, SOp{Kind: "msign-att-first", Ents: []Ent{{Key: k, S: st[0], T: st[1], Root: 2}, {Key: 1 - k}}},
				SOp{Kind: "msign-att-last", Ents: []Ent{{Key: k, S: st[0], T: st[1], Root: 2}, {Key: 1 - k}}})
			if k == 0 && st[1] == 1 {
				// ... and with the 64 bytes of (data root, domain) cut after byte 36 and after byte 28.
				ops2 = append(ops2, SOp{Kind: "msign-att-split36", Ents: []Ent{{Key: k, S: st[0], T: st[1], Root: 2}, {Key: 1 - k}}},
					SOp{Kind: "msign-att-split28", Ents: []Ent{{Key: k, S: st[0], T: st[1], Root: 2}, {Key: 1 - k}}})
			}
		}
	}
	st2 := newStats()
	r2, err := bfs.Explore(bfs.Config[SOp]{
		NewWorker: func() (bfs.Worker[SOp], error) {
			w, err := NewSigWorker(3)
			if err != nil {
				return nil, err
			}
			return &c01Worker{w: w, keys: []int{0, 1}}, nil
		},
		Ops: func(path []SOp) []SOp {
			if hasRestart(path) || len(path) == 0 {
				return ops2
			}
			return append(append([]SOp{}, ops2...), SOp{Kind: "restart"})
		},
		MaxDepth:     depthTwo,
		Budget:       budget,
		OnViolation:  onViol,
		OnTransition: st2.onTransition,
	})
	if err != nil {
		run.HarnessErr = err
		return run.Finish()
	}
	// Phase (iii): the batches of phase (ii) once more with a single processor: util.Scatter then hands a whole batch to
	// one worker, whereas with more processors than entries every entry has a worker of its own.
	var ops3 []SOp
	for _, o := range ops2 {
		if o.Kind == "atts" || o.Fault == "" && len(o.Ents) == 1 && o.Ents[0].S <= 2 && o.Ents[0].T <= 2 {
			ops3 = append(ops3, o)
		}
	}
	oldProcs := runtime.GOMAXPROCS(1)
	st3 := newStats()
	r3, err := bfs.Explore(bfs.Config[SOp]{
		NewWorker: func() (bfs.Worker[SOp], error) {
			w, err := NewSigWorker(3)
			if err != nil {
				return nil, err
			}
			return &c01Worker{w: w, keys: []int{0, 1}}, nil
		},
		Ops:      func(path []SOp) []SOp { return ops3 },
		Workers:  2,
		MaxDepth: 2,
		Budget:   budget,
		OnViolation: func(path []SOp, v bfs.Viol) {
			run.Violate(v.Key+":GOMAXPROCS=1", "with GOMAXPROCS=1: "+v.What, map[string]any{"check": "C01", "path": path, "path_text": pathStrings(path), "gomaxprocs": 1})
		},
		OnTransition: st3.onTransition,
	})
	runtime.GOMAXPROCS(oldProcs)
	if err != nil {
		run.HarnessErr = err
		return run.Finish()
	}
	// Histories with a storage fault below the store API: the first attestation is served while the storage is full.
	fullRuns, fullBad, err := sigStorageFull(tier, [][]HReq{
		{{Kind: "att", Keys: []int{0}, S: 1, T: 4, Root: 1}, {Kind: "att", Keys: []int{0}, S: 1, T: 4, Root: 2}},
		{{Kind: "att", Keys: []int{0}, S: 0, T: 0, Root: 1}, {Kind: "att", Keys: []int{0}, S: 0, T: 0, Root: 2}},
		{{Kind: "atts", Keys: []int{0, 1}, S: 2, T: 5, Root: 1}, {Kind: "att", Keys: []int{0}, S: 1, T: 6, Root: 2}},
	})
	if err != nil {
		run.HarnessErr = err
		return run.Finish()
	}
	for _, b := range fullBad {
		run.Violate("storage-full-slashable:"+firstWords(b, 1), b, map[string]any{"check": "C01", "storage_full": true})
	}
	racePassInfo, err := raceFindings(run, "six clients (four on keys of their own, two sharing a key) sign side by side through the real signer stack, single requests and batches, free-running in a child built with -race")
	if err != nil {
		run.HarnessErr = err
		return run.Finish()
	}
	run.Coverage = map[string]any{
		"race_detector_pass":         racePassInfo,
		"storage_full_histories_run": fullRuns,
		"two_key_single_processor": map[string]any{"ops_per_state": len(ops3), "states": r3.States, "transitions": r3.Transitions, "depth_completed": r3.DepthDone,
			"approving_transitions": st3.approvals, "refusing_transitions": st3.refusals, "outcomes": st3.outcomes},
		"states":                        r1.States + r2.States + r3.States,
		"transitions":                   r1.Transitions + r2.Transitions + r3.Transitions,
		"traces_validated_against_impl": r1.Transitions + r2.Transitions + r3.Transitions,
		"evaluations":                   r1.Transitions + r2.Transitions + r3.Transitions,
		"distinct_nontrivial":           r1.States + r2.States,
		"rule":                          "BFS over the real signer stack (signer.Service -> ruler -> locker -> rules -> badger); the alphabet contains, besides single and batch requests in every addressing mode, every batch (and, on two keys, low-epoch singles) served while the store refuses writes, and a history may begin with a record in the old (gob) format standing for a signature released by an older release; a state is (raw records of the keys, set of released attestations); every distinct state is non-trivial; the invariant (no double vote, no surround, unsigned comparison) is evaluated over the released set of every state and every released signature of every new transition is BLS-verified against an independent SSZ signing root",
		"samples":                       append(st1.samples.List(), st2.samples.List()...),
		"exhaustive":                    !r1.BudgetHit && !r2.BudgetHit && !r3.BudgetHit,
		"single_key_closure": map[string]any{"ops_per_state": len(ops1) + 1, "epochs": fmtU(E), "states": r1.States, "transitions": r1.Transitions,
			"depth_completed": r1.DepthDone, "frontier_empty": r1.FrontierEmpty, "cap": r1.Capped, "states_by_depth": r1.StatesByDepth,
			"approving_transitions": st1.approvals, "refusing_transitions": st1.refusals, "outcomes": st1.outcomes},
		"two_key_bounded": map[string]any{"ops_per_state": len(ops2) + 1, "epochs": fmtU(E2), "states": r2.States, "transitions": r2.Transitions,
			"depth_completed": r2.DepthDone, "frontier_empty": r2.FrontierEmpty, "cap": r2.Capped, "states_by_depth": r2.StatesByDepth,
			"approving_transitions": st2.approvals, "refusing_transitions": st2.refusals, "outcomes": st2.outcomes},
	}
	run.Assumptions = []string{
		"epoch values outside the boundary alphabet behave like their neighbours in it",
		"slashing-protection records are per public key (checked by the two-key search up to its depth)",
		"badger single-key operations are linearizable",
	}
	return run.Finish()
}

func fmtU(l []uint64) []string {
	r := make([]string, len(l))
	for i, v := range l {
		r[i] = fmt.Sprintf("%d", v)
	}
	return r
}
