package checks

import (
	"encoding/json"
	"fmt"
	"runtime"
	"time"

	"verif/bfs"
	"verif/ev"
)

func propSingles(key int, E []uint64) []SOp {
	var ops []SOp
	for _, slot := range E {
		for root := 1; root <= 2; root++ {
			for _, byKey := range []bool{false, true} {
				for _, pidx := range []uint64{0, 1<<64 - 1} {
					for dom := 0; dom <= 1; dom++ {
						ops = append(ops, SOp{Kind: "prop", Ents: []Ent{{Key: key, ByKey: byKey, Slot: slot, Root: root, PIdx: pidx, Dom: dom}}})
					}
				}
			}
		}
	}
	for _, slot := range E {
		for root := 1; root <= 2; root++ {
			ops = append(ops, SOp{Kind: "prop", Ents: []Ent{{Key: key, ByKey: true, Pad: true, Slot: slot, Root: root}}})
		}
	}
	return ops
}

// propInvariant: per key, released slots strictly increase in issue order (implies no two different headers per slot).
func propInvariant(rel []Released) []bfs.Viol {
	var vs []bfs.Viol
	for i := range rel {
		for j := i + 1; j < len(rel); j++ {
			a, b := rel[i], rel[j]
			if !a.Prop || !b.Prop || a.Key != b.Key {
				continue
			}
			if b.Slot <= a.Slot {
				kind := "not-increasing"
				if b.Slot == a.Slot && a.Root != b.Root {
					kind = "double-proposal"
				}
				vs = append(vs, bfs.Viol{
					Key:  fmt.Sprintf("prop-%s:first=%d:second=%d", kind, a.Slot, b.Slot),
					What: fmt.Sprintf("%s: proposal at slot %d released at step %d, then slot %d at step %d for the same key", kind, a.Slot, a.Step, b.Slot, b.Step),
				})
			}
		}
	}
	return vs
}

type c02Worker struct {
	w    *SigWorker
	keys []int
}

func (c *c02Worker) Close() { c.w.Close() }
func (c *c02Worker) Run(path []SOp) (bfs.Outcome, error) {
	tr, err := c.w.Exec(path)
	if err != nil {
		return bfs.Outcome{}, err
	}
	out := bfs.Outcome{Obs: tr.Obs, Canon: CanonRecs(tr.Recs, c.keys...) + "|" + CanonPropMax(tr.Released, c.keys...) + "|" + CanonRoutes(path, tr.Released, c.keys...)}
	out.Viol = propInvariant(tr.Released)
	return out, nil
}

// C02 explores proposal histories.
func C02(tier string) int {
	run := ev.NewRun("C02", tier, "model_checking")
	E := eQuick
	depth1, depth2 := 4, 2
	budget := 120 * time.Second
	if tier == "thorough" {
		E = eThorough
		depth1, depth2 = 12, 3
		budget = 10 * time.Minute
	}
	onViol := func(path []SOp, v bfs.Viol) {
		run.Violate(v.Key, v.What, map[string]any{"check": "C02", "path": path, "path_text": pathStrings(path)})
	}
	mk := func(keys []int) func() (bfs.Worker[SOp], error) {
		return func() (bfs.Worker[SOp], error) {
			w, err := NewSigWorker(2)
			if err != nil {
				return nil, err
			}
			return &c02Worker{w: w, keys: keys}, nil
		}
	}
	withRestart := func(ops []SOp) func(path []SOp) []SOp {
		return func(path []SOp) []SOp {
			if len(path) == 0 {
				// A history may begin with a record left by an older release (old record format).
				all := append([]SOp{}, ops...)
				for _, slot := range []uint64{0, 1, 5} {
					all = append(all, SOp{Kind: "legacy-prop", Ents: []Ent{{Key: 0, Slot: slot}}})
				}
				return all
			}
			if hasRestart(path) {
				return ops
			}
			return append(append([]SOp{}, ops...), SOp{Kind: "restart"})
		}
	}
	ops1 := propSingles(0, E)
	st1 := newStats()
	r1, err := bfs.Explore(bfs.Config[SOp]{NewWorker: mk([]int{0}), Ops: withRestart(ops1), MaxDepth: depth1, Budget: budget, OnViolation: onViol, OnTransition: st1.onTransition})
	if err != nil {
		run.HarnessErr = err
		return run.Finish()
	}
	// Two keys, interleaved with attestations on the same keys (records of the two kinds must not interfere).
	E2 := []uint64{0, 1, 1 << 63}
	var ops2 []SOp
	for k := 0; k < 2; k++ {
		for _, slot := range E2 {
			for root := 1; root <= 2; root++ {
				ops2 = append(ops2, SOp{Kind: "prop", Ents: []Ent{{Key: k, ByKey: root == 2, Slot: slot, Root: root}}})
			}
		}
		ops2 = append(ops2, SOp{Kind: "att", Ents: []Ent{{Key: k, S: 0, T: 1, Root: 1}}}, SOp{Kind: "att", Ents: []Ent{{Key: k, S: 1, T: 2, Root: 2}}})
		// A block header submitted to the generic batch endpoint under the proposer domain type, beside an ordinary
		// generic entry for the other key (in both orders): if that is ever signed it is a proposal like any other.
		for _, slot := range []uint64{0, 1} {
			ops2 = append(ops2, SOp{Kind: "msign-prop-first", Ents: []Ent{{Key: k, Slot: slot, Root: 2}, {Key: 1 - k}}},
				SOp{Kind: "msign-prop-last", Ents: []Ent{{Key: k, Slot: slot, Root: 2}, {Key: 1 - k}}})
			if k == 0 {
				// ... and with the 64 bytes of (header root, domain) cut after byte 36 and after byte 28.
				ops2 = append(ops2, SOp{Kind: "msign-prop-split36", Ents: []Ent{{Key: k, Slot: slot, Root: 2}, {Key: 1 - k}}},
					SOp{Kind: "msign-prop-split28", Ents: []Ent{{Key: k, Slot: slot, Root: 2}, {Key: 1 - k}}})
			}
		}
		// The same proposals asked of a second instance started on the same storage directory.
		for _, slot := range []uint64{0, 1} {
			ops2 = append(ops2, SOp{Kind: "twin-prop", Ents: []Ent{{Key: k, Slot: slot, Root: 2}}})
		}
		// The same proposals served while the store refuses writes, and while its reads fail.
		for _, slot := range []uint64{0, 1} {
			ops2 = append(ops2, SOp{Kind: "prop", Fault: "write", Ents: []Ent{{Key: k, Slot: slot, Root: 1}}})
			ops2 = append(ops2, SOp{Kind: "prop", Fault: "read", Ents: []Ent{{Key: k, Slot: slot, Root: 2}}})
		}
	}
	InstallSigFaults()
	st2 := newStats()
	r2, err := bfs.Explore(bfs.Config[SOp]{NewWorker: mk([]int{0, 1}), Ops: withRestart(ops2), MaxDepth: depth2 + 1, Budget: budget, OnViolation: onViol, OnTransition: st2.onTransition})
	if err != nil {
		run.HarnessErr = err
		return run.Finish()
	}
	// Histories with a storage fault below the store API: the first proposal is served while the storage is full.
	fullRuns, fullBad, err := sigStorageFull(tier, [][]HReq{
		{{Kind: "prop", Keys: []int{0}, Slot: 5, Root: 1}, {Kind: "prop", Keys: []int{0}, Slot: 5, Root: 2}},
		{{Kind: "prop", Keys: []int{0}, Slot: 0, Root: 1}, {Kind: "prop", Keys: []int{0}, Slot: 0, Root: 2}},
		{{Kind: "prop", Keys: []int{1}, Slot: 7, Root: 1}, {Kind: "prop", Keys: []int{1}, Slot: 6, Root: 2}},
	})
	if err != nil {
		run.HarnessErr = err
		return run.Finish()
	}
	for _, b := range fullBad {
		run.Violate("storage-full-double-proposal:"+firstWords(b, 1), b, map[string]any{"check": "C02", "storage_full": true})
	}
	racePassInfo, err := raceFindings(run, "six clients (four on keys of their own, two sharing a key) sign side by side through the real signer stack, single requests and batches, free-running in a child built with -race")
	if err != nil {
		run.HarnessErr = err
		return run.Finish()
	}
	run.Coverage = map[string]any{
		"race_detector_pass":            racePassInfo,
		"storage_full_histories_run":    fullRuns,
		"states":                        r1.States + r2.States,
		"transitions":                   r1.Transitions + r2.Transitions,
		"traces_validated_against_impl": r1.Transitions + r2.Transitions,
		"evaluations":                   r1.Transitions + r2.Transitions,
		"distinct_nontrivial":           r1.States + r2.States,
		"rule":                          "BFS over the real signer stack (a history may begin with an old-format record for slot 0, 1 or 5; on two keys proposals at slots 0 and 1 are also served while the store refuses writes, and asked of a second instance started on the same storage directory while the first is running); a state is (raw records of the keys, highest released proposal slot per key, set of released attestations); every distinct state is non-trivial; invariant: per key the slots of released proposals strictly increase in issue order; every released signature of a new transition must be the addressed account's signature over the independently computed signing root",
		"samples":                       append(st1.samples.List(), st2.samples.List()...),
		"exhaustive":                    !r1.BudgetHit && !r2.BudgetHit,
		"single_key_closure": map[string]any{"ops_per_state": len(ops1) + 1, "slots": fmtU(E), "states": r1.States, "transitions": r1.Transitions,
			"depth_completed": r1.DepthDone, "frontier_empty": r1.FrontierEmpty, "cap": r1.Capped, "states_by_depth": r1.StatesByDepth,
			"approving_transitions": st1.approvals, "refusing_transitions": st1.refusals, "outcomes": st1.outcomes},
		"two_key_mixed": map[string]any{"ops_per_state": len(ops2) + 1, "slots": fmtU(E2), "states": r2.States, "transitions": r2.Transitions,
			"depth_completed": r2.DepthDone, "frontier_empty": r2.FrontierEmpty, "cap": r2.Capped, "states_by_depth": r2.StatesByDepth,
			"approving_transitions": st2.approvals, "refusing_transitions": st2.refusals, "outcomes": st2.outcomes},
	}
	run.Assumptions = []string{
		"slot values outside the boundary alphabet behave like their neighbours in it",
		"badger single-key operations are linearizable",
	}
	return run.Finish()
}

// replaySOps re-executes a recorded SOp path linearly and re-evaluates the invariants.
func replaySOps(raw json.RawMessage) int {
	var rp struct {
		Path  []SOp `json:"path"`
		Procs int   `json:"gomaxprocs"`
	}
	if err := json.Unmarshal(raw, &rp); err != nil {
		fmt.Println(err)
		return 2
	}
	var rr struct {
		Check string `json:"check"`
		Race  string `json:"race"`
	}
	if json.Unmarshal(raw, &rr) == nil && rr.Race != "" {
		return replayRace(rr.Check, rr.Race)
	}
	if rp.Procs > 0 {
		runtime.GOMAXPROCS(rp.Procs)
	}
	InstallSigFaults()
	w, err := NewSigWorker(3)
	if err != nil {
		fmt.Println(err)
		return 2
	}
	defer w.Close()
	tr, err := w.Exec(rp.Path)
	if err != nil {
		fmt.Println(err)
		return 2
	}
	for i, o := range rp.Path {
		fmt.Printf("  step %d: %-60s -> %s\n", i, o.String(), tr.Obs[i])
	}
	fmt.Printf("  records: %s\n", CanonRecs(tr.Recs, 0, 1))
	vs := append(attInvariant(tr.Released), propInvariant(tr.Released)...)
	for _, p := range tr.SigProblems {
		vs = append(vs, bfs.Viol{Key: "sig", What: p})
	}
	for _, v := range vs {
		fmt.Printf("  VIOLATED: %s\n", v.What)
	}
	if len(vs) > 0 {
		return 1
	}
	fmt.Println("  no violation on replay")
	return 0
}

func init() {
	Registry["C02"] = C02
	Replayers["C01"] = replaySOps
	Replayers["C02"] = replaySOps
}
