package checks

import (
	"bufio"
	"bytes"
	"context"
	"encoding/json"
	"errors"
	"fmt"
	"os"
	"os/exec"
	"os/signal"
	"path/filepath"
	"runtime"
	"sort"
	"strings"
	"sync"
	"sync/atomic"
	"syscall"
	"time"

	"verif/crash"
	"verif/ev"
	"verif/rig"

	"github.com/attestantio/dirk/core"
	"github.com/attestantio/dirk/rules"
	"github.com/attestantio/dirk/services/checker"
	"github.com/attestantio/dirk/services/ruler"
	"github.com/attestantio/dirk/util/verifhook"
)

// HReq is one request of a crash history (sequential client).
type HReq struct {
	Kind string `json:"kind"` // att, atts, prop
	Keys []int  `json:"keys"`
	S    uint64 `json:"s,omitempty"`
	T    uint64 `json:"t,omitempty"`
	Slot uint64 `json:"slot,omitempty"`
	Root int    `json:"root"`
	// FailRead (if > 0): the n-th read of a record fails while this request is served (a transient fault; writes work).
	FailRead int `json:"fail_read,omitempty"`
}

func (r HReq) String() string {
	switch r.Kind {
	case "legacy":
		return fmt.Sprintf("old-format-records(k%v,%d->%d,slot %d)", r.Keys, r.S, r.T, r.Slot)
	case "prop":
		return fmt.Sprintf("prop(k%d,slot %d,r%d)", r.Keys[0], r.Slot, r.Root)
	default:
		if r.FailRead > 0 {
			c := r
			c.FailRead = 0
			return fmt.Sprintf("%s{read %d of a record fails}", c.String(), r.FailRead)
		}
		if len(r.Keys) > 8 {
			return fmt.Sprintf("%s(%d keys k%d..k%d,%d->%d,r%d)", r.Kind, len(r.Keys), r.Keys[0], r.Keys[len(r.Keys)-1], r.S, r.T, r.Root)
		}
		return fmt.Sprintf("%s(k%v,%d->%d,r%d)", r.Kind, r.Keys, r.S, r.T, r.Root)
	}
}

func c03Acct(k int) *rig.Acct {
	return rig.SymAcctFromSeed(fmt.Sprintf("crash-%d", k), fmt.Sprintf("c03-key-%d", k), "pass", true)
}

// c03Stack is the real signing stack on a given storage directory with the two well-known accounts.
type c03Stack struct {
	rig   *rig.SignerRig
	accts []*rig.Acct
}

func newC03Stack(dir string, wrapRuler func(ruler.Service) ruler.Service) (*c03Stack, error) {
	r, err := rig.NewSignerRig(rig.SignerOpts{Dir: dir, Wrap: rig.Wrap{Ruler: wrapRuler}})
	if err != nil {
		return nil, err
	}
	s := &c03Stack{rig: r}
	for k := 0; k < c03NKeys(); k++ {
		a := c03Acct(k)
		r.Adopt("Wallet 1", a)
		s.accts = append(s.accts, a)
	}
	return s, nil
}

// c03NKeys is the number of accounts of the stack (VERIF_C03_NKEYS; 2 unless a large batch is under study).
func c03NKeys() int {
	n := 2
	if v := os.Getenv("VERIF_C03_NKEYS"); v != "" {
		fmt.Sscanf(v, "%d", &n)
	}
	return n
}

var c03Creds = &checker.Credentials{Client: rig.DefaultClient, RequestID: "r", IP: "10.0.0.1"}

// do executes one request; returns which entries got a signature.
func (s *c03Stack) do(r HReq) []bool {
	switch r.Kind {
	case "legacy":
		// Not a request: the directory was used by an older release, which left records in the old (gob) format for
		// these keys (attestation S->T, proposal Slot). Nothing is signed here.
		for _, k := range r.Keys {
			pub := s.accts[k].PubBytes()
			_ = s.rig.Rules.VerifRawPut(s.rig.Ctx, append(append([]byte{}, pub...), 0x02), gobBytes(legacyAtt{int64(r.S), int64(r.T)}))
			_ = s.rig.Rules.VerifRawPut(s.rig.Ctx, append(append([]byte{}, pub...), 0x03), gobBytes(legacyProp{int64(r.Slot)}))
		}
		return nil
	case "att":
		e := Ent{Key: r.Keys[0], S: r.S, T: r.T, Root: r.Root}
		_, sig := s.rig.Signer.SignBeaconAttestation(s.rig.Ctx, c03Creds, "Wallet 1/"+s.accts[r.Keys[0]].Name(), nil, AttData(e))
		return []bool{len(sig) > 0}
	case "atts-longkey":
		// Every entry is addressed by its public key followed by one more byte (the account lookup uses the first 48).
		keys := make([][]byte, len(r.Keys))
		data := make([]*rules.SignBeaconAttestationData, len(r.Keys))
		for i, k := range r.Keys {
			keys[i] = append(append([]byte{}, s.accts[k].PubBytes()...), 0x00)
			data[i] = AttData(Ent{Key: k, S: r.S, T: r.T, Root: r.Root})
		}
		_, sigs := s.rig.Signer.SignBeaconAttestations(s.rig.Ctx, c03Creds, make([]string, len(r.Keys)), keys, data)
		out := make([]bool, len(r.Keys))
		for i := range out {
			out[i] = i < len(sigs) && len(sigs[i]) > 0
		}
		return out
	case "atts", "atts-badfirst":
		names := make([]string, len(r.Keys))
		data := make([]*rules.SignBeaconAttestationData, len(r.Keys))
		for i, k := range r.Keys {
			names[i] = "Wallet 1/" + s.accts[k].Name()
			data[i] = AttData(Ent{Key: k, S: r.S, T: r.T, Root: r.Root})
			if i == 0 && r.Kind == "atts-badfirst" {
				// The first entry is not a valid attestation (its source lies beyond its target) and is refused; the
				// entries after it are ordinary.
				data[i] = AttData(Ent{Key: k, S: r.T + 2, T: r.T, Root: r.Root})
			}
		}
		_, sigs := s.rig.Signer.SignBeaconAttestations(s.rig.Ctx, c03Creds, names, nil, data)
		out := make([]bool, len(r.Keys))
		for i := range out {
			out[i] = i < len(sigs) && len(sigs[i]) > 0
		}
		return out
	case "prop":
		e := Ent{Key: r.Keys[0], Slot: r.Slot, Root: r.Root}
		_, sig := s.rig.Signer.SignBeaconProposal(s.rig.Ctx, c03Creds, "Wallet 1/"+s.accts[r.Keys[0]].Name(), nil, PropData(e))
		return []bool{len(sig) > 0}
	}
	return nil
}

type pointRuler struct {
	ruler.Service
	point func(string)
}

func (p *pointRuler) RunRules(ctx context.Context, c *checker.Credentials, action string, data []*ruler.RulesData) []rules.Result {
	p.point("rules.enter")
	res := p.Service.RunRules(ctx, c, action, data)
	p.point("rules.exit")
	return res
}

// c03Child runs a history in a child process and (optionally) kills itself at the k-th point.
// Markers are written to stdout with one write system call each.
func c03Child() int {
	var hist []HReq
	if err := json.Unmarshal([]byte(os.Getenv("VERIF_C03_HISTORY")), &hist); err != nil {
		fmt.Fprintln(os.Stderr, err)
		return 2
	}
	dir := os.Getenv("VERIF_C03_DIR")
	var killAt int64
	fmt.Sscanf(os.Getenv("VERIF_C03_KILLAT"), "%d", &killAt)
	var counter atomic.Int64
	mark := func(s string) { _, _ = syscall.Write(1, []byte(s+"\n")) }
	point := func(site string) {
		n := counter.Add(1)
		if killAt > 0 && n == killAt {
			mark(fmt.Sprintf("KILL %d %s", n, site))
			_ = syscall.Kill(os.Getpid(), syscall.SIGKILL)
			select {}
		}
	}
	var failRead, reads atomic.Int64
	verifhook.SetHandler(func(_ context.Context, site string, _ ...any) error {
		point(site)
		if site == "store.fetch" {
			if n := reads.Add(1); failRead.Load() > 0 && n == failRead.Load() {
				return errors.New("injected read failure")
			}
		}
		return nil
	})
	runtime.GOMAXPROCS(2)
	st, err := newC03Stack(dir, func(r ruler.Service) ruler.Service { return &pointRuler{Service: r, point: point} })
	if err != nil {
		mark("OPEN-FAILED " + err.Error())
		return 3
	}
	cur := -1
	for k, a := range st.accts {
		k := k
		a.OnSign = func(_ *rig.Acct, _ []byte) error {
			// The signature is about to be produced: from here on the approval must be durable.
			mark(fmt.Sprintf("SIGN %d %d", cur, k))
			point("sign")
			return nil
		}
	}
	mark("READY")
	fullAt, fullDelta := int64(-1), int64(0)
	if v := os.Getenv("VERIF_C03_FULL_AT"); v != "" {
		fmt.Sscanf(v, "%d", &fullAt)
		fmt.Sscanf(os.Getenv("VERIF_C03_FULL_DELTA"), "%d", &fullDelta)
	}
	for i, r := range hist {
		cur = i
		if int64(i) == fullAt {
			// The storage fills up: from now on no file of this process can grow beyond the value log's present size
			// plus fullDelta bytes (RLIMIT_FSIZE; the write that crosses the limit is cut short, the next one fails).
			signal.Ignore(syscall.SIGXFSZ)
			lim := uint64(c03LogSize(dir) + fullDelta)
			if err := syscall.Setrlimit(syscall.RLIMIT_FSIZE, &syscall.Rlimit{Cur: lim, Max: ^uint64(0)}); err != nil {
				mark("LIMIT-FAILED " + err.Error())
				return 3
			}
			mark(fmt.Sprintf("LIMIT %d %d", i, lim))
		}
		before := c03LogSize(dir)
		point("request.start")
		reads.Store(0)
		failRead.Store(int64(r.FailRead))
		got := st.do(r)
		failRead.Store(0)
		mark(fmt.Sprintf("GROW %d %d", i, c03LogSize(dir)-before))
		if int64(i) == fullAt && os.Getenv("VERIF_C03_FULL_LIFT") != "" {
			// Space is made: the following requests find a writable store again.
			_ = syscall.Setrlimit(syscall.RLIMIT_FSIZE, &syscall.Rlimit{Cur: ^uint64(0), Max: ^uint64(0)})
			mark(fmt.Sprintf("LIFTED %d", i))
		}
		for j, g := range got {
			if g {
				mark(fmt.Sprintf("ACK %d %d", i, r.Keys[j]))
			} else {
				mark(fmt.Sprintf("NOSIG %d %d", i, r.Keys[j]))
			}
		}
		point("request.end")
	}
	mark(fmt.Sprintf("POINTS %d", counter.Load()))
	if os.Getenv("VERIF_C03_NOCLOSE") == "" {
		st.rig.Close()
	}
	mark("DONE")
	return 0
}

// c03LogSize is the size of the largest value-log file of the store in dir.
func c03LogSize(dir string) int64 {
	var max int64
	_ = filepath.Walk(dir, func(p string, info os.FileInfo, err error) error {
		if err == nil && info.Mode().IsRegular() && strings.HasSuffix(p, ".vlog") && info.Size() > max {
			max = info.Size()
		}
		return nil
	})
	return max
}

// sigStorageFull runs two-request histories (a request served while the storage is full at every listed offset of what
// it appends to the value log, then, with space made again, a conflicting request in the same process) and reports the
// histories in which both were signed. Used by C01 and C02: a history with a storage fault is still a history.
func sigStorageFull(tier string, hists [][]HReq) (runs int, bad []string, err error) {
	root := rig.Scratch("sigfull")
	defer os.RemoveAll(root)
	for hi, h := range hists {
		out, err := runChild(h, filepath.Join(root, fmt.Sprintf("clean-%d", hi)), 0)
		if err != nil {
			return runs, bad, err
		}
		clean := parseMarks(out)
		g := clean.grow[0]
		for d := int64(0); d < g; d++ {
			if !(tier == "thorough" || d == 0 || d == g/2 || d == g-1 || d%32 == 0) {
				continue
			}
			dir := filepath.Join(root, fmt.Sprintf("full-%d-%d", hi, d))
			out, err := runChild(h, dir, 0, "VERIF_C03_FULL_AT=0", fmt.Sprintf("VERIF_C03_FULL_DELTA=%d", d), "VERIF_C03_FULL_LIFT=1", "VERIF_C03_NOCLOSE=1")
			if err != nil {
				return runs, bad, err
			}
			m := parseMarks(out)
			runs++
			if m.acked[fmt.Sprintf("0 %d", h[0].Keys[0])] && m.acked[fmt.Sprintf("1 %d", h[1].Keys[0])] {
				bad = append(bad, fmt.Sprintf("%s served while the storage was full (the value log could grow by %d more bytes) was signed, and so was the conflicting %s once space had been made", h[0], d, h[1]))
			}
			_ = os.RemoveAll(dir)
		}
	}
	return runs, bad, nil
}

type c03Marks struct {
	grow   map[int]int64   // request index -> bytes the value log grew by
	signed map[string]bool // "i k": request i, key k reached Sign
	acked  map[string]bool
	points int
	done   bool
	killed string
	raw    []string
}

func parseMarks(out string) c03Marks {
	m := c03Marks{signed: map[string]bool{}, acked: map[string]bool{}, grow: map[int]int64{}}
	for _, l := range strings.Split(out, "\n") {
		f := strings.Fields(l)
		if len(f) == 0 {
			continue
		}
		m.raw = append(m.raw, l)
		switch f[0] {
		case "SIGN":
			m.signed[f[1]+" "+f[2]] = true
		case "ACK":
			m.acked[f[1]+" "+f[2]] = true
		case "GROW":
			var i int
			var g int64
			fmt.Sscanf(f[1], "%d", &i)
			fmt.Sscanf(f[2], "%d", &g)
			m.grow[i] = g
		case "POINTS":
			fmt.Sscanf(f[1], "%d", &m.points)
		case "DONE":
			m.done = true
		case "KILL":
			m.killed = l
		}
	}
	return m
}

func runChild(hist []HReq, dir string, killAt int, extraEnv ...string) (string, error) {
	exe, err := os.Executable()
	if err != nil {
		return "", err
	}
	hb, _ := json.Marshal(hist)
	cmd := exec.Command(exe, "C03", "child")
	cmd.Env = append(os.Environ(), "VERIF_C03_CHILD=1", "VERIF_C03_HISTORY="+string(hb), "VERIF_C03_DIR="+dir, fmt.Sprintf("VERIF_C03_KILLAT=%d", killAt))
	cmd.Env = append(cmd.Env, extraEnv...)
	var so, se bytes.Buffer
	cmd.Stdout, cmd.Stderr = &so, &se
	err = cmd.Run()
	if err != nil {
		if _, ok := err.(*exec.ExitError); ok {
			return so.String(), nil
		}
		return so.String(), fmt.Errorf("%v: %s", err, se.String())
	}
	return so.String(), nil
}

// c03Probes returns the requests that conflict with a signed request entry.
func c03Probes(r HReq, key int) []HReq {
	other := r.Root + 5
	if r.Kind == "prop" {
		ps := []HReq{{Kind: "prop", Keys: []int{key}, Slot: r.Slot, Root: other}}
		if r.Slot > 0 {
			ps = append(ps, HReq{Kind: "prop", Keys: []int{key}, Slot: r.Slot - 1, Root: other})
		}
		return ps
	}
	ps := []HReq{{Kind: "att", Keys: []int{key}, S: r.S, T: r.T, Root: other}} // double vote
	if r.S > 0 {
		ps = append(ps, HReq{Kind: "att", Keys: []int{key}, S: r.S - 1, T: r.T + 1, Root: other}) // surrounding
		ps = append(ps, HReq{Kind: "att", Keys: []int{key}, S: r.S - 1, T: r.T, Root: other})     // same target, other source
	}
	if r.T-r.S >= 3 {
		ps = append(ps, HReq{Kind: "att", Keys: []int{key}, S: r.S + 1, T: r.T - 1, Root: other}) // surrounded
	}
	return ps
}

// c03Recover reopens the directory with the real code and probes every request that reached signing.
// Returns (failedClosed, violations).
func c03Recover(dir string, hist []HReq, signed map[string]bool) (bool, []string, error) {
	st, err := newC03Stack(dir, nil)
	if err != nil {
		// The instance refuses to start on this directory: nothing can be signed (fail-closed).
		return true, nil, nil
	}
	defer st.rig.Close()
	var viols []string
	var keys []string
	for k := range signed {
		keys = append(keys, k)
	}
	sort.Strings(keys)
	for _, sk := range keys {
		var i, key int
		fmt.Sscanf(sk, "%d %d", &i, &key)
		if i < 0 || i >= len(hist) {
			continue
		}
		for _, p := range c03Probes(hist[i], key) {
			got := st.do(p)
			if len(got) > 0 && got[0] {
				viols = append(viols, fmt.Sprintf("after the restart %s is signed although %s had been approved for signing before the crash", p, hist[i]))
			}
		}
	}
	return false, viols, nil
}

// c03Large: see phase (4) in C03.
func c03Large(run *ev.Run, n int) (int, error) {
	root := rig.Scratch("c03large")
	defer os.RemoveAll(root)
	dir := filepath.Join(root, "storage")
	keys := make([]int, n)
	for i := range keys {
		keys[i] = i
	}
	hist := []HReq{{Kind: "atts", Keys: keys, S: 1, T: 4, Root: 1}}
	nk := fmt.Sprintf("VERIF_C03_NKEYS=%d", n)
	out, err := runChild(hist, dir, 0, nk, "VERIF_C03_NOCLOSE=1")
	if err != nil {
		return 0, err
	}
	m := parseMarks(out)
	if !m.done {
		return 0, fmt.Errorf("large batch: the child did not finish: %s", strings.Join(m.raw[max(0, len(m.raw)-3):], " | "))
	}
	os.Setenv("VERIF_C03_NKEYS", fmt.Sprint(n))
	defer os.Unsetenv("VERIF_C03_NKEYS")
	failedClosed, viols, err := c03Recover(dir, hist, m.signed)
	if err != nil {
		return 0, err
	}
	if failedClosed {
		return len(m.signed), nil
	}
	for i, v := range viols {
		if i >= 3 {
			break
		}
		run.Violate(fmt.Sprintf("large-batch:%d", i), fmt.Sprintf("a batch of %d attestations is answered and the process killed; %s (%d such entries)", n, v, len(viols)), map[string]any{"check": "C03", "large_batch": n})
	}
	return len(m.signed), nil
}

func c03Histories(tier string) [][]HReq {
	menu := []HReq{
		{Kind: "att", Keys: []int{0}, S: 1, T: 4, Root: 1},
		{Kind: "att", Keys: []int{0}, S: 2, T: 6, Root: 1},
		{Kind: "att", Keys: []int{0}, S: 1, T: 4, Root: 2}, // conflicts with the first
		{Kind: "atts", Keys: []int{0, 1}, S: 3, T: 8, Root: 1},
		{Kind: "atts", Keys: []int{1, 0}, S: 1, T: 4, Root: 1},
		{Kind: "prop", Keys: []int{0}, Slot: 5, Root: 1},
		{Kind: "prop", Keys: []int{1}, Slot: 7, Root: 1},
		{Kind: "prop", Keys: []int{0}, Slot: 5, Root: 2}, // conflicts
		{Kind: "atts-badfirst", Keys: []int{0, 1}, S: 2, T: 5, Root: 1},
		{Kind: "atts-longkey", Keys: []int{0, 1}, S: 2, T: 7, Root: 1},
	}
	var hs [][]HReq
	for _, a := range menu {
		hs = append(hs, []HReq{a})
	}
	for _, a := range menu {
		for _, b := range menu {
			hs = append(hs, []HReq{a, b})
		}
	}
	// The same on a directory that an older release has used: both keys hold records in the old format.
	legacy := HReq{Kind: "legacy", Keys: []int{0, 1}, S: 0, T: 1, Slot: 1}
	for _, a := range menu {
		hs = append(hs, []HReq{legacy, a})
	}
	// A transient read fault: the n-th read of a record fails while a batch is served, after the keys have signed before.
	for _, first := range []HReq{menu[0], menu[4], menu[5]} {
		for n := 1; n <= 2; n++ {
			b := menu[3]
			b.FailRead = n
			hs = append(hs, []HReq{first, b})
			s := menu[1]
			s.FailRead = n
			hs = append(hs, []HReq{first, s})
		}
	}
	if tier == "thorough" {
		for _, a := range menu {
			for _, b := range menu {
				hs = append(hs, []HReq{legacy, a, b})
			}
		}
	}
	if tier == "thorough" {
		for _, a := range menu {
			for _, b := range menu {
				for _, c := range menu {
					hs = append(hs, []HReq{a, b, c})
				}
			}
		}
	} else {
		hs = append(hs,
			[]HReq{menu[0], menu[3], menu[1], menu[5]},
			[]HReq{menu[5], menu[4], menu[7], menu[3]},
			[]HReq{menu[3], menu[0], menu[6], menu[2]},
		)
	}
	return hs
}

type c03Stats struct {
	mu           sync.Mutex
	kills        int
	images       int
	failedClosed int
	crashPoints  int
	histories    int
	signedSeen   int
	variants     map[string]int
	fullRuns     int
	fullRefused  int // runs in which the request under the full storage was not signed
	fullSigned   int // runs in which it was signed (the write fitted) and the record was found after restart
}

// C03 enumerates crash points.
func C03(tier string) int {
	if os.Getenv("VERIF_C03_CHILD") != "" {
		return c03Child()
	}
	run := ev.NewRun("C03", tier, "fault_enumeration")
	hists := c03Histories(tier)
	budget := 240 * time.Second
	if tier == "thorough" {
		budget = 30 * time.Minute
	}
	deadline := time.Now().Add(budget)
	stats := &c03Stats{variants: map[string]int{}}
	samples := ev.NewSamples(5)
	var firstErr error
	capped := false
	traced := crash.HaveStrace()
	var wg sync.WaitGroup
	next := 0
	var mu sync.Mutex
	for w := 0; w < runtime.NumCPU(); w++ {
		wg.Add(1)
		go func() {
			defer wg.Done()
			for {
				mu.Lock()
				if next >= len(hists) || firstErr != nil {
					mu.Unlock()
					return
				}
				if time.Now().After(deadline) {
					capped = true
					mu.Unlock()
					return
				}
				hi := next
				next++
				mu.Unlock()
				h := hists[hi]
				err := c03History(run, h, stats, samples, traced, tier)
				if err != nil {
					mu.Lock()
					if firstErr == nil {
						firstErr = fmt.Errorf("history %v: %w", h, err)
					}
					mu.Unlock()
					return
				}
			}
		}()
	}
	wg.Wait()
	if firstErr != nil {
		run.HarnessErr = firstErr
		return run.Finish()
	}
	// (4) one batch of very many keys (an implementation may split what it writes into several transactions): the
	// process is killed right after the batch has been answered; every entry that reached signing must be protected.
	largeN := 2500
	if tier == "thorough" {
		largeN = 20000
	}
	largeSigned, err := c03Large(run, largeN)
	if err != nil {
		run.HarnessErr = err
		return run.Finish()
	}
	run.Coverage = map[string]any{
		"large_batch":                            map[string]any{"keys": largeN, "entries_that_reached_signing": largeSigned},
		"evaluations":                            stats.kills + stats.images + stats.fullRuns,
		"distinct_nontrivial":                    stats.histories,
		"rule":                                   "histories of 1-2 requests (all over a 10-request menu incl. conflicting ones and a batch whose first entry is refused, single/batch/proposal on 2 keys; 3 in thorough) plus fixed length-4 histories, run by a child process on the real signer stack; (1) the child is killed with SIGKILL at every hook point (store enter/exit, rules enter/exit, sign, request start/end); (2) the child runs under strace and every system-call boundary on the storage directory is a power-loss point: for each, every directory image allowed by the persistence model (metadata in order; O_DSYNC writes durable at exit and absent/complete/torn while in flight; other writes volatile until fsync and dropped as none/all/each/each suffix) is materialised; every image and every killed directory is reopened by the real code and probed with every request conflicting with a request that had reached signing: either the instance refuses to start or it refuses all of them; in the final image each completed write to the value log is damaged in turn (four garbled bytes) with the same oracle; (3) the storage runs full (RLIMIT_FSIZE in the child: the write crossing the limit is cut short, every later write fails) from each request of the history on, at offsets over the bytes that request appends to the value log, and the same restart-and-probe oracle is applied; (4) one batch of very many keys (large_batch) is answered, the process is killed, and every entry is probed after the restart; distinct = histories",
		"samples":                                samples.List(),
		"exhaustive":                             !capped,
		"histories":                              stats.histories,
		"real_kills":                             stats.kills,
		"crash_points":                           stats.crashPoints,
		"images":                                 stats.images,
		"images_failed_closed":                   stats.failedClosed,
		"requests_reaching_signing_before_crash": stats.signedSeen,
		"image_variants":                         stats.variants,
		"storage_full_runs":                      stats.fullRuns,
		"storage_full_request_not_signed":        stats.fullRefused,
		"storage_full_request_signed":            stats.fullSigned,
		"strace_available":                       traced,
	}
	run.Assumptions = []string{
		"persistence model M-ord: metadata operations persist in program order; a write to an O_SYNC/O_DSYNC descriptor is durable when the call returns; other writes are volatile until fsync/fdatasync of that file returns",
		"reordered metadata and kernel bugs are out of scope; of media corruption only one damaged block (four garbled bytes inside one completed value-log write, final image of each history) is enumerated",
		"SIGKILL leaves the page cache intact (it is a process crash, not a power loss)",
	}
	return run.Finish()
}

// c03History explores all crash points of one history.
func c03History(run *ev.Run, h []HReq, stats *c03Stats, samples *ev.Samples, traced bool, tier string) error {
	root := rig.Scratch("c03")
	defer os.RemoveAll(root)
	// Clean run: number of points and markers.
	cleanDir := filepath.Join(root, "clean")
	out, err := runChild(h, cleanDir, 0)
	if err != nil {
		return err
	}
	clean := parseMarks(out)
	if !clean.done {
		return fmt.Errorf("clean run did not finish: %v", clean.raw)
	}
	var hs []string
	for _, r := range h {
		hs = append(hs, r.String())
	}
	stats.mu.Lock()
	stats.histories++
	stats.mu.Unlock()
	// (1) real kills at every point.
	for k := 1; k <= clean.points; k++ {
		dir := filepath.Join(root, fmt.Sprintf("kill-%d", k))
		out, err := runChild(h, dir, k)
		if err != nil {
			return err
		}
		m := parseMarks(out)
		if m.killed == "" {
			return fmt.Errorf("kill point %d not reached (points %d): %v", k, clean.points, m.raw)
		}
		failed, viols, err := c03Recover(dir, h, m.signed)
		if err != nil {
			return err
		}
		stats.mu.Lock()
		stats.kills++
		stats.signedSeen += len(m.signed)
		if failed {
			stats.failedClosed++
		}
		stats.mu.Unlock()
		for _, v := range viols {
			run.Violate(fmt.Sprintf("kill:%s:%s", strings.Join(hs, ";"), strings.Fields(m.killed)[2]), fmt.Sprintf("history [%s], process killed at %s: %s", strings.Join(hs, ", "), m.killed, v),
				map[string]any{"check": "C03", "history": h, "kill_at": k})
		}
		_ = os.RemoveAll(dir)
	}
	if k := clean.points; k > 0 {
		samples.Add(map[string]any{"history": hs, "hook_points": clean.points, "markers": clean.raw})
	}
	// (2) power loss from the system-call trace.
	if traced {
		if err := c03Traced(run, h, hs, root, stats, tier); err != nil {
			return err
		}
	}
	// (3) the storage fills up while a request is served.
	return c03Full(run, h, hs, root, clean, stats, tier)
}

// c03Full lets the storage run full at every request of the history and at every offset of what that request writes
// to the value log (quick: at the first and last byte, the middle, and every 16th byte): the write that crosses the
// limit is cut short and every later write fails. Whatever reached signing must be found recorded after a restart.
func c03Full(run *ev.Run, h []HReq, hs []string, root string, clean c03Marks, stats *c03Stats, tier string) error {
	for i := range h {
		g := clean.grow[i]
		if g <= 0 {
			continue
		}
		var deltas []int64
		for d := int64(0); d < g; d++ {
			if tier == "thorough" || d == 0 || d == 1 || d == g/2 || d == g-1 || d%16 == 0 {
				deltas = append(deltas, d)
			}
		}
		for _, d := range deltas {
			dir := filepath.Join(root, fmt.Sprintf("full-%d-%d", i, d))
			out, err := runChild(h, dir, 0, fmt.Sprintf("VERIF_C03_FULL_AT=%d", i), fmt.Sprintf("VERIF_C03_FULL_DELTA=%d", d), "VERIF_C03_NOCLOSE=1")
			if err != nil {
				return err
			}
			m := parseMarks(out)
			limited := false
			for _, l := range m.raw {
				if strings.HasPrefix(l, "LIMIT ") {
					limited = true
				}
			}
			if !limited {
				return fmt.Errorf("storage-full run (request %d, delta %d) did not reach the limit: %v", i, d, m.raw)
			}
			_, viols, err := c03Recover(dir, h, m.signed)
			if err != nil {
				return err
			}
			stats.mu.Lock()
			stats.fullRuns++
			if m.signed[fmt.Sprintf("%d %d", i, h[i].Keys[0])] {
				stats.fullSigned++
			} else {
				stats.fullRefused++
			}
			stats.mu.Unlock()
			for _, v := range viols {
				run.Violate(fmt.Sprintf("storage-full:%s:request=%d", strings.Join(hs, ";"), i),
					fmt.Sprintf("history [%s], storage full from request %d on (value log may grow by %d more bytes): %s", strings.Join(hs, ", "), i, d, v),
					map[string]any{"check": "C03", "history": h, "full_at": i, "full_delta": d})
			}
			_ = os.RemoveAll(dir)
		}
	}
	return nil
}

func c03Traced(run *ev.Run, h []HReq, hs []string, root string, stats *c03Stats, tier string) error {
	dir := filepath.Join(root, "traced")
	exe, err := os.Executable()
	if err != nil {
		return err
	}
	hb, _ := json.Marshal(h)
	traceFile := filepath.Join(root, "trace.txt")
	env := append(os.Environ(), "VERIF_C03_CHILD=1", "VERIF_C03_HISTORY="+string(hb), "VERIF_C03_DIR="+dir, "VERIF_C03_KILLAT=0", "VERIF_C03_NOCLOSE=1")
	if err := crash.Trace(traceFile, env, exe, "C03", "child"); err != nil {
		return err
	}
	tr, err := crash.Parse(traceFile, dir)
	if err != nil {
		return err
	}
	// Conformance of the simulator: the final image without drops equals what the child left behind.
	if diff := tr.CompareFinal(dir); diff != "" {
		if dbg := os.Getenv("VERIF_C03_KEEPTRACE"); dbg != "" {
			b, _ := os.ReadFile(traceFile)
			_ = os.WriteFile(dbg, b, 0o644)
		}
		return fmt.Errorf("crash-image simulator disagrees with the directory the child left behind: %s", diff)
	}
	points := tr.CrashPoints()
	stats.mu.Lock()
	stats.crashPoints += len(points)
	stats.mu.Unlock()
	for _, cp := range points {
		signed := map[string]bool{}
		for _, mk := range tr.MarkersBefore(cp) {
			f := strings.Fields(mk)
			if len(f) == 3 && f[0] == "SIGN" {
				signed[f[1]+" "+f[2]] = true
			}
		}
		for _, variant := range tr.Variants(cp, tier == "thorough") {
			img := filepath.Join(root, "img")
			_ = os.RemoveAll(img)
			if err := tr.Materialise(cp, variant, img); err != nil {
				return err
			}
			failed, viols, err := c03Recover(img, h, signed)
			if err != nil {
				return err
			}
			stats.mu.Lock()
			stats.images++
			stats.signedSeen += len(signed)
			stats.variants[variant.Kind]++
			if failed {
				stats.failedClosed++
			}
			stats.mu.Unlock()
			for _, v := range viols {
				run.Violate(fmt.Sprintf("powerloss:%s:%s", strings.Join(hs, ";"), variant.Kind), fmt.Sprintf("history [%s], power lost after system call #%d (%s), %s: %s", strings.Join(hs, ", "), cp, tr.Describe(cp), variant.Desc, v),
					map[string]any{"check": "C03", "history": h, "crash_point": cp, "variant": variant.Desc})
			}
		}
	}
	// Damaged blocks: in the final image, each record the value log received is garbled in turn. The instance either
	// refuses to start on such a directory or still refuses everything that conflicts with what it had signed.
	if len(points) > 0 {
		cp := points[len(points)-1]
		signed := map[string]bool{}
		for _, mk := range tr.MarkersBefore(cp) {
			f := strings.Fields(mk)
			if len(f) == 3 && f[0] == "SIGN" {
				signed[f[1]+" "+f[2]] = true
			}
		}
		for _, variant := range tr.DamageVariants(cp, ".vlog") {
			img := filepath.Join(root, "img")
			_ = os.RemoveAll(img)
			if err := tr.Materialise(cp, variant, img); err != nil {
				return err
			}
			failed, viols, err := c03Recover(img, h, signed)
			if err != nil {
				return err
			}
			stats.mu.Lock()
			stats.images++
			stats.variants[variant.Kind]++
			if failed {
				stats.failedClosed++
				stats.variants["damaged-block:refused-to-start"]++
			}
			stats.mu.Unlock()
			for _, v := range viols {
				run.Violate(fmt.Sprintf("damaged-block:%s", strings.Join(hs, ";")), fmt.Sprintf("history [%s], %s: %s", strings.Join(hs, ", "), variant.Desc, v),
					map[string]any{"check": "C03", "history": h, "crash_point": cp, "variant": variant.Desc})
			}
		}
	}
	return nil
}

var _ = bufio.NewReader
var _ = core.ResultSucceeded

func init() {
	Registry["C03"] = C03
}
