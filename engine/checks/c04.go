//go:build verifsched

package checks

import (
	"encoding/json"
	"fmt"
	"os"
	"runtime"
	"time"

	"verif/ev"
	"verif/sched"
)

func c04Scenarios(tier string) []CScenario {
	k01, k10, k12, k20, k012 := []int{0, 1}, []int{1, 0}, []int{1, 2}, []int{2, 0}, []int{0, 1, 2}
	sc := []CScenario{
		{Name: "same-att-twice", Threads: [][]CReq{{att1(0, 0, 1)}, {att1(0, 0, 1)}}},
		{Name: "advancing-atts", Threads: [][]CReq{{att1(0, 0, 1)}, {att1(0, 1, 2)}}},
		{Name: "surround-pair", Threads: [][]CReq{{att1(0, 1, 2)}, {att1(0, 0, 3)}}},
		{Name: "same-slot-props", Threads: [][]CReq{{prop1(0, 5)}, {prop1(0, 5)}}},
		{Name: "advancing-props", Threads: [][]CReq{{prop1(0, 5)}, {prop1(0, 6)}}},
		{Name: "att-vs-prop", Threads: [][]CReq{{att1(0, 0, 1)}, {prop1(0, 5)}}},
		{Name: "sign-vs-att", Threads: [][]CReq{{sign1(0)}, {att1(0, 0, 1)}}},
		{Name: "batch-ab-vs-ba", Threads: [][]CReq{{attsN(k01, 0, 1)}, {attsN(k10, 0, 1)}}},
		{Name: "batch-ab-vs-ba-advancing", Threads: [][]CReq{{attsN(k01, 0, 1)}, {attsN(k10, 1, 2)}}},
		{Name: "batch-vs-single-on-2nd", Threads: [][]CReq{{attsN(k01, 0, 1)}, {att1(1, 0, 1)}}},
		{Name: "batch-vs-single-on-2nd-advancing", Threads: [][]CReq{{attsN(k01, 1, 2)}, {att1(1, 0, 1)}}},
		{Name: "batch-vs-single-on-1st", Threads: [][]CReq{{attsN(k01, 0, 1)}, {att1(0, 1, 2)}}},
		{Name: "batch-vs-prop-on-2nd", Threads: [][]CReq{{attsN(k01, 0, 1)}, {prop1(1, 5)}}},
		{Name: "chain-ab-bc", Threads: [][]CReq{{attsN(k01, 0, 1)}, {attsN(k12, 0, 1)}}},
		{Name: "triple-vs-pair", Threads: [][]CReq{{attsN(k012, 0, 1)}, {attsN(k20, 1, 2)}}},
		{Name: "three-advancing", Threads: [][]CReq{{att1(0, 0, 1)}, {att1(0, 1, 2)}, {att1(0, 2, 3)}}},
		{Name: "three-same", Threads: [][]CReq{{att1(0, 0, 1)}, {att1(0, 0, 1)}, {att1(0, 0, 1)}}},
		// The same on an instance that has already served thousands of other keys (whatever it does to bound its tables
		// must not loosen the exclusion on a key that is in use).
		{Name: "three-same-after-many-other-keys", WarmKeys: warmKeys(tier), Threads: [][]CReq{{att1(0, 0, 1)}, {att1(0, 0, 1)}, {att1(0, 0, 1)}}},
		{Name: "batch-vs-two-singles-after-many-other-keys", WarmKeys: warmKeys(tier), Threads: [][]CReq{{attsN([]int{0, 1}, 0, 1)}, {att1(1, 0, 1)}, {att1(1, 0, 1)}}},
		{Name: "single-then-batch", Threads: [][]CReq{{att1(0, 0, 1), attsN(k01, 1, 2)}, {att1(1, 0, 1)}}},
		{Name: "two-then-one", Threads: [][]CReq{{att1(0, 0, 1), att1(0, 1, 2)}, {att1(0, 0, 2)}}},
		{Name: "lost-update-props", Threads: [][]CReq{{prop1(0, 5), prop1(0, 7)}, {prop1(0, 6)}}},
		{Name: "ring-of-batches", Threads: [][]CReq{{attsN(k01, 0, 1)}, {attsN(k12, 0, 1)}, {attsN(k20, 0, 1)}}},
		{Name: "same-batch-twice", Threads: [][]CReq{{attsN(k01, 0, 1)}, {attsN(k01, 0, 1)}}},
		{Name: "multisign-vs-batch", Threads: [][]CReq{{signsN(0, 1)}, {attsN(k10, 0, 1)}}},
		{Name: "multisign-ab-vs-ba", Threads: [][]CReq{{signsN(0, 1)}, {signsN(1, 0)}}},
		// Requests on different keys with different values: they share no lock, so anything they share otherwise (a
		// buffer, a cache) shows as one key's record carrying the other's values.
		{Name: "props-on-different-keys", Threads: [][]CReq{{prop1(0, 5)}, {prop1(1, 9)}}},
		{Name: "props-on-different-keys-then-again", Threads: [][]CReq{{prop1(0, 5), prop1(0, 6)}, {prop1(1, 9), prop1(1, 7)}}},
		{Name: "atts-on-different-keys", Threads: [][]CReq{{att1(0, 1, 2)}, {att1(1, 3, 4)}}},
		{Name: "att-and-prop-on-different-keys-vs-batch", Threads: [][]CReq{{att1(0, 1, 2)}, {prop1(1, 9)}, {attsN(k10, 0, 1)}}},
		{Name: "multisign-abc-vs-cab-vs-single", Threads: [][]CReq{{signsN(0, 1, 2)}, {signsN(2, 0, 1)}, {att1(1, 0, 1)}}},
		{Name: "batch-vs-two-singles", Threads: [][]CReq{{attsN(k01, 1, 2)}, {att1(0, 0, 1)}, {att1(1, 0, 1)}}},
	}
	// Malformed batches are refused as a whole and must not disturb others.
	nokey := attsN(k01, 0, 1)
	nokey.Kind = "atts-nokey"
	sc = append(sc,
		CScenario{Name: "dup-batch-then-single-vs-batch", Threads: [][]CReq{{attsN([]int{0, 0}, 0, 1), att1(0, 0, 1)}, {attsN(k10, 1, 2)}}},
		CScenario{Name: "nokey-batch-then-single-vs-single", Threads: [][]CReq{{nokey, att1(0, 0, 1)}, {att1(0, 1, 2)}}},
	)
	// Callers that give up (their context is cancelled before the request arrives, or at any moment the scheduler chooses
	// while it waits or runs): such a request may be refused, but then it leaves no trace, and whatever it does happens
	// inside its own turn.
	sc = append(sc,
		CScenario{Name: "given-up-before-att-vs-att", Threads: [][]CReq{{withCtx(att1(0, 0, 1), "pre")}, {att1(0, 1, 2)}}},
		CScenario{Name: "given-up-before-batch-then-single-vs-batch", Threads: [][]CReq{{withCtx(attsN(k01, 0, 1), "pre"), att1(0, 1, 2)}, {attsN(k10, 2, 3)}}},
		CScenario{Name: "given-up-during-att-vs-att", Threads: [][]CReq{{withCtx(att1(0, 0, 1), "ext")}, {cancelOf(0, 0)}, {att1(0, 0, 2)}}},
		CScenario{Name: "given-up-during-att-vs-two-atts", Threads: [][]CReq{{withCtx(att1(0, 0, 1), "ext")}, {cancelOf(0, 0)}, {att1(0, 0, 2), att1(0, 1, 2)}}},
		CScenario{Name: "given-up-during-prop-vs-prop", Threads: [][]CReq{{withCtx(prop1(0, 5), "ext")}, {cancelOf(0, 0)}, {prop1(0, 6)}}},
		CScenario{Name: "given-up-during-batch-vs-single", Threads: [][]CReq{{withCtx(attsN(k01, 0, 1), "ext")}, {cancelOf(0, 0)}, {att1(1, 0, 2)}}},
	)
	// A batch one of whose entries is not a valid attestation (source beyond target) and is refused: what the batch does for
	// that key must still happen inside the batch's turn (the batch path writes back the state of every entry).
	badFirst := CReq{Kind: "atts", Keys: []int{0, 1}, S: []uint64{3, 0}, T: []uint64{1, 1}}
	badLast := CReq{Kind: "atts", Keys: []int{1, 0}, S: []uint64{0, 3}, T: []uint64{1, 1}}
	sc = append(sc,
		CScenario{Name: "batch-with-invalid-entry-vs-single-on-its-key", Threads: [][]CReq{{badFirst}, {att1(0, 0, 1)}}},
		CScenario{Name: "batch-with-invalid-last-entry-vs-two-singles-on-its-key", Threads: [][]CReq{{badLast}, {att1(0, 0, 1), att1(0, 0, 1)}}},
		CScenario{Name: "batch-with-invalid-entry-vs-single-vs-single", Threads: [][]CReq{{badFirst}, {att1(0, 0, 1)}, {att1(1, 0, 1)}}},
	)
	// A batch far larger than anything else here (an implementation may treat large batches differently, and any
	// per-key structure of fixed size is overrun) against single requests on keys from its middle and its end.
	for _, n := range bigBatchSizes(tier) {
		sc = append(sc,
			CScenario{Name: fmt.Sprintf("batch-of-%d-vs-single-in-the-middle", n), Bound: 1, Threads: [][]CReq{{attsN(keyRange(0, n), 0, 1)}, {att1(n/2, 0, 1)}}},
			CScenario{Name: fmt.Sprintf("batch-of-%d-vs-single-at-the-end-then-batch", n), Bound: 1, Threads: [][]CReq{{attsN(keyRange(0, n), 0, 1)}, {att1(n-1, 0, 1), attsN([]int{0, n - 1}, 1, 2)}}},
			// ... and against a batch of its first and its last key asking for the same votes: one of the two requests wins
			// both keys, whichever comes first (a large batch is one request, not several).
			CScenario{Name: fmt.Sprintf("batch-of-%d-vs-batch-of-its-first-and-last-key", n), Bound: 1, Threads: [][]CReq{{attsN(keyRange(0, n), 0, 1)}, {attsN([]int{0, n - 1}, 0, 1)}}},
		)
	}
	// Batches with three keys in every cyclic order, under both bytewise key orders (an implementation may order lock
	// acquisition by key bytes).
	for _, desc := range []bool{false, true} {
		for i, l := range [][]int{{0, 1, 2}, {1, 2, 0}, {2, 0, 1}, {2, 1, 0}} {
			for j, m := range [][]int{{0, 1, 2}, {1, 2, 0}, {2, 0, 1}, {2, 1, 0}} {
				if j <= i {
					continue
				}
				sc = append(sc, CScenario{Name: fmt.Sprintf("triple%v-vs-triple%v-desc=%v", l, m, desc), Threads: [][]CReq{{attsN(l, 0, 1)}, {attsN(m, 1, 2)}}, DescKeys: desc})
			}
		}
	}
	if tier == "thorough" {
		// All unordered pairs and selected triples of a request menu on shared keys.
		menu := []CReq{att1(0, 0, 1), att1(0, 1, 2), att1(0, 0, 3), att1(1, 0, 1), prop1(0, 5), prop1(0, 6), sign1(0),
			attsN(k01, 0, 1), attsN(k10, 1, 2), attsN(k12, 0, 1), attsN(k012, 0, 1), attsN(k20, 1, 2)}
		for i := range menu {
			for j := i; j < len(menu); j++ {
				sc = append(sc, CScenario{Name: fmt.Sprintf("pair-%d-%d", i, j), Threads: [][]CReq{{menu[i]}, {menu[j]}}})
				sc = append(sc, CScenario{Name: fmt.Sprintf("seq-%d-%d-vs-%d", i, j, (i+j)%len(menu)), Threads: [][]CReq{{menu[i], menu[j]}, {menu[(i+j)%len(menu)]}}})
			}
		}
		for i := 0; i < len(menu); i++ {
			for j := i; j < len(menu); j++ {
				for k := j; k < len(menu); k++ {
					if (i+j+k)%3 == 0 {
						sc = append(sc, CScenario{Name: fmt.Sprintf("triple-%d-%d-%d", i, j, k), Threads: [][]CReq{{menu[i]}, {menu[j]}, {menu[k]}}})
					}
				}
			}
		}
	}
	return sc
}

// C04 explores interleavings and checks linearizability of every complete execution.
func C04(tier string) int {
	bound := 2
	budget := 300 * time.Second
	if tier == "thorough" {
		bound = 3
		budget = 25 * time.Minute
	}
	var jobs []concJob
	// Scenarios with two threads are small enough for every interleaving to be executed; larger ones are cut at the
	// preemption bound (the thorough tier tries them without a bound first, for a limited time).
	allCap := 40 * time.Second
	for _, cs := range c04Scenarios(tier) {
		all := len(cs.Threads) == 2 || tier == "thorough"
		if tier == "thorough" {
			allCap = 4 * time.Minute
		}
		jobs = append(jobs, concJob{cs: cs, linear: true, bound: bound, all: all, allCap: allCap})
	}
	if sh, n, ok := parseShard(); ok {
		runConcShard(jobs, sh, n, time.Now().Add(budget))
		return 0
	}
	run := ev.NewRun("C04", tier, "exploration")
	results, err := runConcParent("C04", tier, len(jobs))
	run.Assumptions = []string{
		"scheduling points: every Mutex.Lock / sync.Map operation of services/locker/syncmap (overlay shim) and every Store.Fetch/Store/BatchStore; code between two points touches only request-local data, immutable caches or data guarded by a held lock",
		"each badger call is one atomic step (single-key linearizability of badger)",
		"GOMAXPROCS=1 in explorer processes so that util.Scatter uses one worker per request",
		fmt.Sprintf("explored with %d shard processes", runtime.NumCPU()),
	}
	return concFinish(run, results, err, "every interleaving of the scenario's requests (scenarios marked all_interleavings in per_scenario: without any bound, one scheduling point per sync operation of the locker and per store operation; the others: with at most `bound_completed` preemptions), executed on the real ruler/locker/rules/badger under a cooperative scheduler; each complete execution's call/return history, verdict vector (signed / not signed) and decoded final records must be explained by one serial order compatible with real-time order; a scenario is non-trivial if different schedules produced different verdict vectors")
}

// replayConc re-executes a recorded schedule without the explorer.
func replayConc(raw json.RawMessage) int {
	var rp struct {
		Check    string    `json:"check"`
		Scenario CScenario `json:"scenario"`
		Mode     string    `json:"mode"`
		Choices  []int     `json:"choices"`
		PerG     bool      `json:"goroutine_mode"`
	}
	if err := json.Unmarshal(raw, &rp); err != nil {
		fmt.Println(err)
		return 2
	}
	var rr struct {
		Check string `json:"check"`
		Race  string `json:"race"`
	}
	if json.Unmarshal(raw, &rr) == nil && rr.Race != "" {
		return replayRace(rr.Check, rr.Race)
	}
	runtime.GOMAXPROCS(1)
	env, err := newConcEnv()
	if err != nil {
		fmt.Println(err)
		return 2
	}
	defer env.close()
	sc := env.mkScenario(rp.Scenario, rp.Mode == "lock-only", rp.Check == "C04")
	xs, fs, err := sched.Replay(sc, rp.Choices, 2, rp.PerG)
	if err != nil {
		fmt.Println(err)
		return 2
	}
	fmt.Printf("  schedule: %s\n", xs[0].Schedule())
	if xs[0].Schedule() != xs[1].Schedule() {
		fmt.Println("  replay is not deterministic")
		return 2
	}
	for _, f := range fs[0] {
		fmt.Printf("  VIOLATED: %s\n", f.What)
	}
	if len(fs[0]) > 0 {
		return 1
	}
	fmt.Println("  no violation on replay")
	return 0
}

func init() {
	Registry["C04"] = C04
	RaceBodies["C04"] = func() error { return concRaceBodies(c04Scenarios("quick")) }
	Replayers["C04"] = replayConc
	Replayers["C15"] = replayConc
	_ = os.Getenv
}

// warmKeys is the number of other keys an instance has served before the "after-many-other-keys" scenarios.
func warmKeys(tier string) int {
	if tier == "thorough" {
		return 70000
	}
	return 5000
}
