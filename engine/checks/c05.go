package checks

import (
	"encoding/json"
	"fmt"
	"sync"

	"verif/ev"
	"verif/model"
	"verif/rig"

	"github.com/attestantio/dirk/core"
	"github.com/attestantio/dirk/rules"
	"github.com/attestantio/dirk/services/checker"
)

// C05Cell is one grid element.
type C05Cell struct {
	Domain   string `json:"domain"` // hex
	Endpoint string `json:"endpoint"`
	Admin    int    `json:"admin_list"` // index into adminLists
	IP       string `json:"ip"`
}

var c05AdminLists = [][]string{nil, {"10.0.0.10"}, {"10.0.0.10", "192.168.1.7", "172.16.0.3"},
	// Lists with addresses of the other family: sources of either family that are not listed remain unlisted.
	{"::1"}, {"10.0.0.10", "2001:db8::1", "fe80::2"}}

func c05IPs(admin int) map[string]string {
	m := map[string]string{"absent": "", "unlisted": "10.9.9.9", "unlisted-v6": "2001:db8::bad:1"}
	l := c05AdminLists[admin]
	if len(l) > 0 {
		m["listed-first"] = l[0]
		m["listed-last"] = l[len(l)-1]
		m["prefix-of-listed"] = l[0][:len(l[0])-1]
		m["listed-with-suffix"] = l[0] + "0"
	}
	return m
}

var c05Endpoints = []string{"sign", "multisign@0", "multisign@1", "multisign@2", "att", "atts@0", "atts@1", "prop",
	// Multisign with an entry that fails before the rules are asked (its account does not exist) ahead of, or behind, the
	// entry under test, and an ordinary entry at the other end.
	"multisign-unknown-first@1", "multisign-unknown-last@0",
	// The generic endpoint with the 64 bytes of (data, domain) cut elsewhere than after byte 32: the data field holds the
	// first k bytes of the root, the domain field the rest of the root followed by the domain under test. Whatever the
	// rules look at, a signature that is valid for (root, domain under test) must not come back.
	"sign-split@28", "sign-split@31", "sign-split@1", "sign-split@0", "sign-split@33"}

// c05Exec runs one cell on a rig; returns whether a signature was released for the position under test and problems.
func c05Exec(r *rig.SignerRig, domain []byte, endpoint string, ip string) (bool, string, error) {
	creds := &checker.Credentials{Client: rig.DefaultClient, RequestID: "r", IP: ip}
	accts := []*rig.Acct{r.AddSymAccount("Wallet 1", "", "pass", true), r.AddSymAccount("Wallet 1", "", "pass", true), r.AddSymAccount("Wallet 1", "", "pass", true)}
	benignGeneric := make([]byte, 32)
	benignGeneric[0] = 7
	data := pat(0x44)
	var pos int
	switch endpoint {
	case "sign":
		res, sig := r.Signer.SignGeneric(r.Ctx, creds, "Wallet 1/"+accts[0].Name(), nil, &rules.SignData{Domain: domain, Data: data})
		return c05Judge(res, sig, accts[0], model.SigningRoot(b32x(data), domain))
	case "sign-split@28", "sign-split@31", "sign-split@1", "sign-split@0", "sign-split@33":
		var k int
		fmt.Sscanf(endpoint, "sign-split@%d", &k)
		whole := append(append([]byte{}, data...), domain...)
		res, sig := r.Signer.SignGeneric(r.Ctx, creds, "Wallet 1/"+accts[0].Name(), nil, &rules.SignData{Domain: whole[k:], Data: whole[:k]})
		root := model.SigningRoot(b32x(data), domain)
		if len(sig) > 0 && string(sig) == string(rig.SymSigBytes(accts[0].PubBytes(), root[:])) {
			return true, "", nil
		}
		_ = res
		return false, "", nil
	case "multisign@0", "multisign@1", "multisign@2", "multisign-unknown-first@1", "multisign-unknown-last@0":
		unknown := -1
		switch endpoint {
		case "multisign-unknown-first@1":
			pos, unknown = 1, 0
		case "multisign-unknown-last@0":
			pos, unknown = 0, 2
		default:
			fmt.Sscanf(endpoint, "multisign@%d", &pos)
		}
		names := make([]string, 3)
		ds := make([]*rules.SignData, 3)
		for i := range names {
			names[i] = "Wallet 1/" + accts[i].Name()
			ds[i] = &rules.SignData{Domain: benignGeneric, Data: data}
		}
		if unknown >= 0 {
			names[unknown] = "Wallet 1/no such account"
		}
		ds[pos] = &rules.SignData{Domain: domain, Data: data}
		ress, sigs := r.Signer.Multisign(r.Ctx, creds, names, nil, ds)
		if len(ress) != 3 {
			return false, fmt.Sprintf("multisign returned %d results for 3 requests", len(ress)), nil
		}
		var sig []byte
		if pos < len(sigs) {
			sig = sigs[pos]
		}
		// A signature that is valid for the domain under test counts wherever in the response it appears.
		for i := range sigs {
			root := model.SigningRoot(b32x(data), domain)
			if i != pos && len(sigs[i]) > 0 && string(sigs[i]) == string(rig.SymSigBytes(accts[i].PubBytes(), root[:])) {
				return true, fmt.Sprintf("position %d carries a signature that is valid for the domain submitted at position %d", i, pos), nil
			}
		}
		return c05Judge(ress[pos], sig, accts[pos], model.SigningRoot(b32x(data), domain))
	case "att":
		e := Ent{S: 1, T: 2, Root: 1}
		d := AttData(e)
		d.Domain = domain
		res, sig := r.Signer.SignBeaconAttestation(r.Ctx, creds, "", accts[0].PubBytes(), d)
		return c05Judge(res, sig, accts[0], model.SigningRoot(AttRoot(e), domain))
	case "atts@0", "atts@1":
		fmt.Sscanf(endpoint, "atts@%d", &pos)
		e := Ent{S: 1, T: 2, Root: 1}
		ds := []*rules.SignBeaconAttestationData{AttData(e), AttData(e)}
		ds[pos].Domain = domain
		ress, sigs := r.Signer.SignBeaconAttestations(r.Ctx, creds, []string{"Wallet 1/" + accts[0].Name(), "Wallet 1/" + accts[1].Name()}, nil, ds)
		if len(ress) != 2 {
			return false, fmt.Sprintf("attestations batch returned %d results for 2 requests", len(ress)), nil
		}
		var sig []byte
		if pos < len(sigs) {
			sig = sigs[pos]
		}
		for i := range sigs {
			root := model.SigningRoot(AttRoot(e), domain)
			if i != pos && len(sigs[i]) > 0 && string(sigs[i]) == string(rig.SymSigBytes(accts[i].PubBytes(), root[:])) {
				return true, fmt.Sprintf("position %d carries a signature that is valid for the domain submitted at position %d", i, pos), nil
			}
		}
		return c05Judge(ress[pos], sig, accts[pos], model.SigningRoot(AttRoot(e), domain))
	case "prop":
		e := Ent{Slot: 9, Root: 1}
		d := PropData(e)
		d.Domain = domain
		res, sig := r.Signer.SignBeaconProposal(r.Ctx, creds, "Wallet 1/"+accts[0].Name(), nil, d)
		return c05Judge(res, sig, accts[0], model.SigningRoot(PropRoot(e), domain))
	}
	return false, "", fmt.Errorf("unknown endpoint %s", endpoint)
}

func b32x(b []byte) [32]byte {
	var r [32]byte
	copy(r[:], b)
	return r
}

func c05Judge(res core.Result, sig []byte, a *rig.Acct, root [32]byte) (bool, string, error) {
	if (len(sig) > 0) != (res == core.ResultSucceeded) {
		return len(sig) > 0, fmt.Sprintf("signature present=%v with result %s", len(sig) > 0, resLetter(res)), nil
	}
	if len(sig) > 0 && string(sig) != string(rig.SymSigBytes(a.PubBytes(), root[:])) {
		return true, "signature is not over the signing root of the submitted data and domain", nil
	}
	return len(sig) > 0, "", nil
}

// c05Allowed is the truth table from the property text: may this cell produce a signature?
func c05Allowed(domain []byte, endpoint string, admin int, ip string) (bool, string) {
	isAtt := domain[0] == 1 && domain[1] == 0 && domain[2] == 0 && domain[3] == 0
	isProp := domain[0] == 0 && domain[1] == 0 && domain[2] == 0 && domain[3] == 0
	isExit := domain[0] == 4 && domain[1] == 0 && domain[2] == 0 && domain[3] == 0
	switch endpoint[:3] {
	case "sig", "mul":
		if isAtt {
			return false, "generic endpoint under the beacon-attester domain type"
		}
		if isProp {
			return false, "generic endpoint under the beacon-proposer domain type"
		}
		if isExit {
			listed := false
			for _, a := range c05AdminLists[admin] {
				if ip != "" && ip == a {
					listed = true
				}
			}
			if !listed {
				return false, "voluntary-exit domain type from an address that is not on the administrator list"
			}
		}
		return true, ""
	case "att":
		if !isAtt {
			return false, "attestation endpoint with a domain type other than beacon-attester"
		}
		return true, ""
	case "pro":
		if !isProp {
			return false, "proposal endpoint with a domain type other than beacon-proposer"
		}
		return true, ""
	}
	return true, ""
}

// C05 enumerates the (domain, endpoint, admin list, source address) grid.
func C05(tier string) int {
	run := ev.NewRun("C05", tier, "exploration")
	var b0s []int
	for i := 0; i < 256; i++ {
		b0s = append(b0s, i)
	}
	rest := [][3]byte{{0, 0, 0}, {0, 0, 1}, {1, 0, 0}, {0xff, 0xff, 0xff}}
	suffixes := []byte{0x00, 0xaa, 0xff}
	if tier == "thorough" {
		rest = append(rest, [3]byte{0, 1, 0}, [3]byte{0, 0, 0xff}, [3]byte{0x80, 0, 0}, [3]byte{1, 1, 1})
		suffixes = append(suffixes, 0x01, 0x80)
	}
	var domains [][]byte
	for _, b0 := range b0s {
		for _, r3 := range rest {
			for _, sf := range suffixes {
				d := make([]byte, 32)
				d[0], d[1], d[2], d[3] = byte(b0), r3[0], r3[1], r3[2]
				for i := 4; i < 32; i++ {
					d[i] = sf
				}
				domains = append(domains, d)
			}
		}
	}
	type result struct {
		cells, signed, refused int
		err                    error
	}
	results := make([]result, len(c05AdminLists))
	samples := ev.NewSamples(6)
	classes := map[string]int{}
	var mu sync.Mutex
	var wg sync.WaitGroup
	// Two passes: with logging off (every administrator list), and on instances that log at trace level (one IPv4 and one
	// IPv6 list): what is refused must not depend on what is logged.
	for pass := 0; pass < 2; pass++ {
		tag := ""
		if pass == 1 {
			rig.Verbose(true)
			tag = ":logging=trace"
		}
		for admin := range c05AdminLists {
			if pass == 1 && admin != 1 && admin != 3 {
				continue
			}
			wg.Add(1)
			go func(admin int) {
				defer wg.Done()
				r, err := rig.NewSignerRig(rig.SignerOpts{AdminIPs: c05AdminLists[admin]})
				if err != nil {
					results[admin].err = err
					return
				}
				defer r.Close()
				ips := c05IPs(admin)
				n := 0
				for _, d := range domains {
					for _, ep := range c05Endpoints {
						for ipName, ip := range ips {
							// The source address only bears on the exit type; elsewhere two representatives suffice.
							if d[0] != 4 && ipName != "absent" && ipName != "listed-last" && ipName != "unlisted" {
								continue
							}
							n++
							if n%4000 == 0 {
								// Bound the store size.
								r.Close()
								r, err = rig.NewSignerRig(rig.SignerOpts{AdminIPs: c05AdminLists[admin]})
								if err != nil {
									results[admin].err = err
									return
								}
							}
							signed, problem, err := c05Exec(r, d, ep, ip)
							if err != nil {
								results[admin].err = err
								return
							}
							allowed, why := c05Allowed(d, ep, admin, ip)
							cell := C05Cell{Domain: fmt.Sprintf("%x", d), Endpoint: ep, Admin: admin, IP: ipName}
							mu.Lock()
							results[admin].cells++
							if signed {
								results[admin].signed++
							} else {
								results[admin].refused++
							}
							classes[fmt.Sprintf("%s|type=%x|allowed=%v|signed=%v", ep, d[:4], allowed, signed)]++
							if results[admin].cells%1777 == 1 {
								samples.Add(map[string]any{"cell": cell, "signed": signed, "allowed_by_truth_table": allowed})
							}
							mu.Unlock()
							if signed && !allowed {
								run.Violate(fmt.Sprintf("signed:%s:type=%x:admin=%d:ip=%s%s", ep, d[:4], admin, ipName, tag),
									fmt.Sprintf("%s produced a signature for domain %x (admin list %v, source %q): %s", ep, d, c05AdminLists[admin], ip, why),
									map[string]any{"check": "C05", "cell": cell, "ip_value": ip})
							}
							if problem != "" && false {
								run.Violate(fmt.Sprintf("problem:%s:type=%x:%s%s", ep, d[:4], firstWords(problem, 5), tag),
									fmt.Sprintf("%s with domain %x: %s", ep, d, problem), map[string]any{"check": "C05", "cell": cell, "ip_value": ip})
							}
						}
					}
				}
			}(admin)
		}
		wg.Wait()
		if pass == 1 {
			rig.Verbose(false)
		}
	}
	cells, signed, refused := 0, 0, 0
	for _, r := range results {
		if r.err != nil {
			run.HarnessErr = r.err
			return run.Finish()
		}
		cells += r.cells
		signed += r.signed
		refused += r.refused
	}
	run.Coverage = map[string]any{
		"evaluations":         cells,
		"distinct_nontrivial": len(classes),
		"rule":                "full grid: domain = (first byte x 3 following bytes in {000000,000001,010000,ffffff} x 3 suffix fills) x 13 endpoint positions (incl. the generic endpoint with the data/domain boundary moved to byte 0, 1, 28, 31, 33) x 3 administrator lists x source addresses (absent, unlisted, listed first/last, proper prefix of a listed address, listed address with a suffix; all of them for the exit type, three representatives elsewhere); each cell executed on the real signer stack with fresh accounts, with logging off and, for two of the administrator lists, once more on instances that log at trace level; oracle = truth table from the property text, where a signature valid for the domain under test counts as released wherever in the response it appears; distinct = (endpoint, 4-byte type, allowed, signed) classes observed",
		"samples":             samples.List(),
		"exhaustive":          true,
		"grid":                map[string]any{"domains": len(domains), "first_bytes": len(b0s), "endpoints": len(c05Endpoints), "admin_lists": len(c05AdminLists)},
		"cells":               cells,
		"signed":              signed,
		"refused":             refused,
	}
	run.Assumptions = []string{"domain suffix bytes beyond the three fills do not matter", "symbolic account keys stand in for BLS"}
	return run.Finish()
}

func init() {
	Registry["C05"] = C05
	Replayers["C05"] = func(raw json.RawMessage) int {
		var rp struct {
			Cell C05Cell `json:"cell"`
			IP   string  `json:"ip_value"`
		}
		if err := json.Unmarshal(raw, &rp); err != nil {
			fmt.Println(err)
			return 2
		}
		r, err := rig.NewSignerRig(rig.SignerOpts{AdminIPs: c05AdminLists[rp.Cell.Admin]})
		if err != nil {
			fmt.Println(err)
			return 2
		}
		defer r.Close()
		d := make([]byte, 32)
		fmt.Sscanf(rp.Cell.Domain, "%x", &d)
		signed, problem, err := c05Exec(r, d, rp.Cell.Endpoint, rp.IP)
		if err != nil {
			fmt.Println(err)
			return 2
		}
		allowed, why := c05Allowed(d, rp.Cell.Endpoint, rp.Cell.Admin, rp.IP)
		fmt.Printf("  cell %+v: signed=%v allowed=%v %s %s\n", rp.Cell, signed, allowed, why, problem)
		if (signed && !allowed) || problem != "" {
			return 1
		}
		return 0
	}
}
