package checks

import (
	"context"
	"encoding/json"
	"fmt"
	"github.com/attestantio/dirk/services/ruler"
	"os"
	"os/exec"
	"runtime"
	"sort"
	"strings"
	"sync"
	"time"

	"verif/dfs"
	"verif/ev"
	"verif/rig"

	"github.com/attestantio/dirk/core"
	"github.com/attestantio/dirk/rules"
	signerhandler "github.com/attestantio/dirk/services/api/grpc/handlers/signer"
	"github.com/attestantio/dirk/services/api/grpc/interceptors"
	"github.com/attestantio/dirk/services/checker"
	"github.com/attestantio/dirk/services/fetcher"
	"github.com/attestantio/dirk/services/signer"
	"github.com/attestantio/dirk/services/unlocker"
	"github.com/attestantio/dirk/util/verifhook"
	pb "github.com/wealdtech/eth2-signer-api/pb/v1"
)

// C06Shape is one request shape.
type C06Shape struct {
	Kind      string `json:"kind"`                    // sign, multisign, att, atts, prop
	ByKey     bool   `json:"by_key"`                  // addressing
	Lock      string `json:"lock"`                    // unlocked, locked-known, locked-unknown (applies to account 1, or the only account)
	Rec       string `json:"rec"`                     // none, valid, refusing-first, or one of c06Undecodable (record planted under the key of account 1 / the only one)
	Malformed string `json:"malformed,omitempty"`     // data31, domain31: hashing fails after approval
	Closed    bool   `json:"closed,omitempty"`        // store closed before the request
	Trace     bool   `json:"trace_logging,omitempty"` // the instance logs at trace level (otherwise: logging off)
}

func (s C06Shape) String() string {
	b, _ := json.Marshal(s)
	return string(b)
}

// c06Env routes environment choices to the chooser of the current execution and records what each deviation affects.
type c06Env struct {
	c        *dfs.Chooser
	affected []string
}

func (e *c06Env) Choose(site string, n int, who ...string) int {
	if e.c == nil {
		return 0
	}
	ch := e.c.Choose(site, n)
	if ch != 0 {
		w := "*"
		if len(who) == 1 {
			w = who[0]
		} else if len(who) >= ch {
			w = who[ch-1]
		}
		e.affected = append(e.affected, w)
	}
	return ch
}

// spySigner records the service-level results.
type spySigner struct {
	signer.Service
	results []core.Result
	sigs    [][]byte
}

func (s *spySigner) SignGeneric(ctx context.Context, c *checker.Credentials, n string, k []byte, d *rules.SignData) (core.Result, []byte) {
	r, sig := s.Service.SignGeneric(ctx, c, n, k, d)
	s.results, s.sigs = []core.Result{r}, [][]byte{sig}
	return r, sig
}
func (s *spySigner) Multisign(ctx context.Context, c *checker.Credentials, n []string, k [][]byte, d []*rules.SignData) ([]core.Result, [][]byte) {
	r, sig := s.Service.Multisign(ctx, c, n, k, d)
	s.results, s.sigs = r, sig
	return r, sig
}
func (s *spySigner) SignBeaconAttestation(ctx context.Context, c *checker.Credentials, n string, k []byte, d *rules.SignBeaconAttestationData) (core.Result, []byte) {
	r, sig := s.Service.SignBeaconAttestation(ctx, c, n, k, d)
	s.results, s.sigs = []core.Result{r}, [][]byte{sig}
	return r, sig
}
func (s *spySigner) SignBeaconAttestations(ctx context.Context, c *checker.Credentials, n []string, k [][]byte, d []*rules.SignBeaconAttestationData) ([]core.Result, [][]byte) {
	r, sig := s.Service.SignBeaconAttestations(ctx, c, n, k, d)
	s.results, s.sigs = r, sig
	return r, sig
}
func (s *spySigner) SignBeaconProposal(ctx context.Context, c *checker.Credentials, n string, k []byte, d *rules.SignBeaconProposalData) (core.Result, []byte) {
	r, sig := s.Service.SignBeaconProposal(ctx, c, n, k, d)
	s.results, s.sigs = []core.Result{r}, [][]byte{sig}
	return r, sig
}

type c06Rig struct {
	env          *c06Env
	rig          *rig.SignerRig
	spy          *spySigner
	handler      *signerhandler.Handler
	ctx          context.Context
	nexec        int
	closedByHook bool
}

func newC06Rig() (*c06Rig, error) {
	r := &c06Rig{env: &c06Env{}}
	var err error
	r.rig, err = rig.NewSignerRig(rig.SignerOpts{
		AcctPasses: []string{"pass"},
		Wrap: rig.Wrap{
			Fetcher:  func(f fetcher.Service) fetcher.Service { return &rig.FaultyFetcher{Service: f, Env: r.env} },
			Checker:  func(c checker.Service) checker.Service { return &rig.FaultyChecker{Service: c, Env: r.env} },
			Unlocker: func(u unlocker.Service) unlocker.Service { return &rig.FaultyUnlocker{Service: u, Env: r.env} },
			Rules:    func(s rules.Service) rules.Service { return &rig.FaultyRules{Service: s, Env: r.env} },
			Ruler:    func(s ruler.Service) ruler.Service { return &rig.FaultyRuler{Service: s, Env: r.env} },
		},
	})
	if err != nil {
		return nil, err
	}
	r.ctx = context.WithValue(context.Background(), &interceptors.ClientName{}, rig.DefaultClient)
	if err := r.rebind(); err != nil {
		return nil, err
	}
	verifhook.SetHandler(func(_ context.Context, site string, args ...any) error {
		if strings.HasSuffix(site, ".exit") {
			return nil
		}
		who := "*"
		if len(args) > 0 {
			if k, ok := args[0].([]byte); ok && len(k) >= 48 {
				who = fmt.Sprintf("key:%x", k[:48])
			}
		}
		n := 2
		if site == "store.store" || site == "store.batchstore" {
			n = 3
		}
		switch r.env.Choose(site, n, who) {
		case 1:
			return rig.ErrInjected
		case 2:
			// Shutdown races with the request: the store is closed between the read and the write.
			_ = r.rig.StopStore()
			r.closedByHook = true
		}
		return nil
	})
	return r, nil
}

func (r *c06Rig) rebind() error {
	r.spy = &spySigner{Service: r.rig.Signer}
	var err error
	r.handler, err = signerhandler.New(r.ctx, signerhandler.WithSigner(r.spy))
	return err
}

func (r *c06Rig) close() {
	verifhook.SetHandler(nil)
	r.rig.Close()
}

type c06Obs struct {
	wireStates []string
	wireSigs   []bool
	svcResults []string
	svcSigs    []bool
	affected   []string
	panicked   string
	hung       bool
}

// c06Watchdog is thousands of times the duration of a request (< 1 ms).
var c06Watchdog = 4 * time.Second

// run executes one shape under the chooser and returns violations.
func (r *c06Rig) run(shape C06Shape, c *dfs.Chooser) (obs c06Obs, viols []string, err error) {
	r.nexec++
	n := 1
	if shape.Kind == "multisign" || shape.Kind == "atts" {
		n = 3
	}
	accts := make([]*rig.Acct, n)
	target := 0
	if n == 3 {
		target = 1
	}
	for i := range accts {
		unlocked, pass := true, "pass"
		if i == target {
			switch shape.Lock {
			case "locked-known":
				unlocked = false
			case "locked-unknown":
				unlocked, pass = false, "a passphrase the unlocker does not know"
			}
		}
		accts[i] = r.rig.AddSymAccount("Wallet 1", "", pass, unlocked)
		accts[i].OnIsUnlocked = func(a *rig.Acct) error {
			if r.env.Choose("account.IsUnlocked", 2, fmt.Sprintf("key:%x", a.PubBytes())) == 1 {
				return rig.ErrInjected
			}
			return nil
		}
		accts[i].OnSign = func(a *rig.Acct, _ []byte) error {
			if r.env.Choose("account.Sign", 2, fmt.Sprintf("key:%x", a.PubBytes())) == 1 {
				return rig.ErrInjected
			}
			return nil
		}
	}
	// Plant the prior record for the target account.
	tk := accts[target].PubBytes()
	recKey := append(append([]byte{}, tk...), 0x02)
	if shape.Kind == "prop" {
		recKey[48] = 0x03
	}
	var rec []byte
	switch shape.Rec {
	case "valid":
		if shape.Kind == "prop" {
			rec = []byte{1, 1, 0, 0, 0, 0, 0, 0, 0}
		} else {
			rec = []byte{1, 0, 0, 0, 0, 0, 0, 0, 0, 1, 0, 0, 0, 0, 0, 0, 0}
		}
	case "badlen":
		rec = []byte{1, 1, 0, 0}
	case "garbage":
		rec = []byte{0x7f, 0x03, 0xff, 0x00, 0x12, 0x34}
	case "empty":
		rec = []byte{}
	case "version-only":
		rec = []byte{1}
	case "v1-short":
		rec = []byte{1, 0, 0, 0, 0, 0, 0, 0, 0, 1, 0, 0, 0, 0, 0, 0}
	case "v1-long":
		rec = []byte{1, 0, 0, 0, 0, 0, 0, 0, 0, 1, 0, 0, 0, 0, 0, 0, 0, 0}
	}
	if shape.Rec == "refusing-first" {
		// Position 0 of a batch is refused by the rules (its stored watermark is far ahead); the later positions are
		// approved, so a fault on the batch-wide write must still strip their signatures.
		k0 := append(append([]byte{}, accts[0].PubBytes()...), 0x02)
		if err := r.rig.Rules.VerifRawPut(r.rig.Ctx, k0, []byte{1, 5, 0, 0, 0, 0, 0, 0, 0, 9, 0, 0, 0, 0, 0, 0, 0}); err != nil {
			return obs, nil, err
		}
	}
	if rec != nil {
		if err := r.rig.Rules.VerifRawPut(r.rig.Ctx, recKey, rec); err != nil {
			return obs, nil, err
		}
	}
	if shape.Closed {
		if err := r.rig.StopStore(); err != nil {
			return obs, nil, err
		}
	}
	r.env.c = c
	r.env.affected = nil
	r.spy.results, r.spy.sigs = nil, nil
	r.closedByHook = false
	name := func(i int) string {
		if shape.ByKey {
			return ""
		}
		return "Wallet 1/" + accts[i].Name()
	}
	key := func(i int) []byte {
		if shape.ByKey {
			return accts[i].PubBytes()
		}
		return nil
	}
	data32, dom := pat(0x61), func(t byte) []byte { d := make([]byte, 32); d[0] = t; return d }
	if shape.Malformed == "data31" {
		data32 = data32[:31]
	}
	mdom := func(t byte) []byte {
		d := dom(t)
		if shape.Malformed == "domain31" {
			return d[:31]
		}
		return d
	}
	attData := func(i int) *pb.AttestationData {
		return &pb.AttestationData{Slot: 64, CommitteeIndex: uint64(i), BeaconBlockRoot: pat(1),
			Source: &pb.Checkpoint{Epoch: 1, Root: pat(2)}, Target: &pb.Checkpoint{Epoch: 2, Root: pat(3)}}
	}
	var states []pb.ResponseState
	var sigs [][]byte
	done := make(chan struct{})
	go func() {
		defer close(done)
		defer func() {
			if p := recover(); p != nil {
				obs.panicked = fmt.Sprint(p)
			}
		}()
		switch shape.Kind {
		case "sign":
			res, _ := r.handler.Sign(r.ctx, mkSignReq(name(0), key(0), data32, mdom(7)))
			states, sigs = []pb.ResponseState{res.GetState()}, [][]byte{res.GetSignature()}
		case "multisign":
			req := &pb.MultisignRequest{}
			for i := 0; i < n; i++ {
				req.Requests = append(req.Requests, mkSignReq(name(i), key(i), data32, mdom(7)))
			}
			res, _ := r.handler.Multisign(r.ctx, req)
			for _, x := range res.GetResponses() {
				states, sigs = append(states, x.GetState()), append(sigs, x.GetSignature())
			}
		case "att":
			res, _ := r.handler.SignBeaconAttestation(r.ctx, mkAttReq(name(0), key(0), mdom(1), attData(0)))
			states, sigs = []pb.ResponseState{res.GetState()}, [][]byte{res.GetSignature()}
		case "atts":
			req := &pb.SignBeaconAttestationsRequest{}
			for i := 0; i < n; i++ {
				req.Requests = append(req.Requests, mkAttReq(name(i), key(i), mdom(1), attData(i)))
			}
			res, _ := r.handler.SignBeaconAttestations(r.ctx, req)
			for _, x := range res.GetResponses() {
				states, sigs = append(states, x.GetState()), append(sigs, x.GetSignature())
			}
		case "prop":
			res, _ := r.handler.SignBeaconProposal(r.ctx, mkPropReq(name(0), key(0), mdom(0),
				&pb.BeaconBlockHeader{Slot: 5, ProposerIndex: 1, ParentRoot: pat(1), StateRoot: pat(2), BodyRoot: pat(3)}))
			states, sigs = []pb.ResponseState{res.GetState()}, [][]byte{res.GetSignature()}
		}
	}()
	select {
	case <-done:
	case <-time.After(c06Watchdog):
		// The request never answers (badger blocks forever in WriteBatch.Flush on a closed database). No answer is
		// no signature; the stuck goroutine is abandoned together with the closed database.
		obs.hung = true
		states, sigs = nil, nil
	}
	r.env.c = nil
	obs.affected = append([]string{}, r.env.affected...)
	for i := range states {
		obs.wireStates = append(obs.wireStates, states[i].String())
		obs.wireSigs = append(obs.wireSigs, len(sigs[i]) > 0)
	}
	for i := range r.spy.results {
		obs.svcResults = append(obs.svcResults, resLetter(r.spy.results[i]))
		obs.svcSigs = append(obs.svcSigs, i < len(r.spy.sigs) && len(r.spy.sigs[i]) > 0)
	}
	spy := r.spy
	if shape.Closed || r.closedByHook {
		if err := r.rig.StartStore(); err != nil {
			return obs, nil, err
		}
		if err := r.rebind(); err != nil {
			return obs, nil, err
		}
	}
	if obs.panicked != "" {
		viols = append(viols, "panic: "+obs.panicked)
		return obs, viols, nil
	}
	if obs.hung {
		return obs, nil, nil
	}
	// Oracle 1: signature present iff SUCCEEDED, position by position, on the wire and at the service.
	for i := range states {
		if (len(sigs[i]) > 0) != (states[i] == pb.ResponseState_SUCCEEDED) {
			viols = append(viols, fmt.Sprintf("wire response %d: state %s with signature present=%v", i, states[i], len(sigs[i]) > 0))
		}
	}
	for i := range spy.results {
		has := i < len(spy.sigs) && len(spy.sigs[i]) > 0
		if has != (spy.results[i] == core.ResultSucceeded) {
			viols = append(viols, fmt.Sprintf("service result %d: %s with signature present=%v", i, resLetter(spy.results[i]), has))
		}
	}
	for i := len(spy.results); i < len(spy.sigs); i++ {
		if len(spy.sigs[i]) > 0 {
			viols = append(viols, fmt.Sprintf("service returned a signature at position %d without a result", i))
		}
	}
	// Oracle 2: a position served by a failed or indeterminate step carries no signature.
	mustFail := make([]bool, n)
	why := make([]string, n)
	mark := func(i int, reason string) {
		if i >= 0 && i < n {
			mustFail[i] = true
			why[i] = reason
		}
	}
	for _, w := range obs.affected {
		switch {
		case w == "*":
			for i := 0; i < n; i++ {
				mark(i, "a fault on a step that serves the whole request")
			}
		case strings.HasPrefix(w, "pos:"):
			var p int
			fmt.Sscanf(w, "pos:%d", &p)
			mark(p, "an indeterminate rules answer for this position")
		default:
			for i, a := range accts {
				if w == fmt.Sprintf("key:%x", a.PubBytes()) || w == "name:Wallet 1/"+a.Name() {
					mark(i, "a fault on a step that serves this position ("+w[:4]+")")
				}
			}
		}
	}
	if shape.Closed {
		// Slashable requests need the store; generic ones do not.
		if shape.Kind == "att" || shape.Kind == "atts" || shape.Kind == "prop" {
			for i := 0; i < n; i++ {
				mark(i, "the store is closed")
			}
		}
	}
	if shape.Lock == "locked-unknown" {
		mark(target, "the account is locked and no passphrase is known")
	}
	if c06Undecodable[shape.Rec] && (shape.Kind == "att" || shape.Kind == "prop" || shape.Kind == "atts") {
		mark(target, "the slashing-protection record cannot be decoded ("+shape.Rec+")")
	}
	if shape.Malformed != "" {
		for i := 0; i < n; i++ {
			mark(i, "hashing the request fails ("+shape.Malformed+")")
		}
	}
	for i := 0; i < n; i++ {
		if !mustFail[i] {
			continue
		}
		if i < len(sigs) && len(sigs[i]) > 0 {
			viols = append(viols, fmt.Sprintf("position %d carries a signature although %s", i, why[i]))
		}
		if i < len(spy.sigs) && len(spy.sigs[i]) > 0 {
			viols = append(viols, fmt.Sprintf("service position %d carries a signature although %s", i, why[i]))
		}
	}
	return obs, viols, nil
}

// c06Undecodable are the planted records no version of the record format accepts: too short for the format byte they
// carry, too long, no bytes at all, or bytes that are neither a version-1 record nor a gob stream.
var c06Undecodable = map[string]bool{"badlen": true, "garbage": true, "empty": true, "version-only": true, "v1-short": true, "v1-long": true}

func c06Shapes(tier string) []C06Shape {
	var shapes []C06Shape
	for _, kind := range []string{"sign", "multisign", "att", "atts", "prop"} {
		for _, byKey := range []bool{false, true} {
			shapes = append(shapes, C06Shape{Kind: kind, ByKey: byKey, Lock: "unlocked", Rec: "none"})
			shapes = append(shapes, C06Shape{Kind: kind, ByKey: byKey, Lock: "locked-known", Rec: "valid"})
			shapes = append(shapes, C06Shape{Kind: kind, ByKey: byKey, Lock: "locked-unknown", Rec: "none"})
			if kind == "atts" {
				shapes = append(shapes, C06Shape{Kind: kind, ByKey: byKey, Lock: "unlocked", Rec: "refusing-first"})
			}
			if kind != "sign" && kind != "multisign" {
				for _, rec := range []string{"badlen", "garbage", "empty", "version-only", "v1-short", "v1-long"} {
					shapes = append(shapes, C06Shape{Kind: kind, ByKey: byKey, Lock: "unlocked", Rec: rec})
				}
			}
			shapes = append(shapes, C06Shape{Kind: kind, ByKey: byKey, Lock: "unlocked", Rec: "none", Closed: true})
			shapes = append(shapes, C06Shape{Kind: kind, ByKey: byKey, Lock: "unlocked", Rec: "none", Malformed: "domain31"})
			if kind == "sign" || kind == "multisign" {
				shapes = append(shapes, C06Shape{Kind: kind, ByKey: byKey, Lock: "unlocked", Rec: "none", Malformed: "data31"})
			}
		}
	}
	return shapes
}

type c06ShardOut struct {
	Shape      C06Shape       `json:"shape"`
	Executions int            `json:"executions"`
	Sites      []string       `json:"sites"`
	SiteFaults []string       `json:"site_faults"`
	Outcomes   map[string]int `json:"outcomes"`
	Viols      []c06Viol      `json:"viols"`
	Err        string         `json:"err,omitempty"`
}

type c06Viol struct {
	Key     string `json:"key"`
	What    string `json:"what"`
	Choices []int  `json:"choices"`
}

func c06Explore(r *c06Rig, shape C06Shape, bound int) c06ShardOut {
	out := c06ShardOut{Shape: shape, Outcomes: map[string]int{}}
	seen := map[string]bool{}
	st, err := dfs.Explore(bound, func(c *dfs.Chooser) error {
		obs, viols, err := r.run(shape, c)
		if err != nil {
			return err
		}
		if obs.hung {
			out.Outcomes["no answer (request blocked on the closed store)"]++
		} else {
			out.Outcomes[strings.Join(obs.wireStates, ",")]++
		}
		for _, v := range viols {
			var devs []string
			for _, d := range c.Deviations() {
				devs = append(devs, fmt.Sprintf("%s#%d", d.Site, d.Choice))
			}
			key := fmt.Sprintf("%s|%s|%s|%s|%s|%v|devs=%s|%s", shape.Kind, addrName(shape.ByKey), shape.Lock, shape.Rec, shape.Malformed, shape.Closed, strings.Join(devs, "+"), firstWords(v, 6))
			if shape.Trace {
				key += "|logging=trace"
			}
			if !seen[key] {
				seen[key] = true
				out.Viols = append(out.Viols, c06Viol{Key: key, What: fmt.Sprintf("shape %s, deviations [%s]: %s (wire %v, service %v)", shape, strings.Join(devs, " "), v, obs.wireStates, obs.svcResults), Choices: c.Choices()})
			}
		}
		return nil
	})
	if err != nil {
		out.Err = err.Error()
	}
	out.Executions = st.Executions
	for s := range st.Sites {
		out.Sites = append(out.Sites, s)
	}
	for s := range st.SiteFaults {
		out.SiteFaults = append(out.SiteFaults, s)
	}
	sort.Strings(out.Sites)
	sort.Strings(out.SiteFaults)
	return out
}

func addrName(byKey bool) string {
	if byKey {
		return "bykey"
	}
	return "byname"
}

func firstWords(s string, n int) string {
	f := strings.Fields(s)
	if len(f) > n {
		f = f[:n]
	}
	return strings.Join(f, " ")
}

// C06 enumerates faults at every dependency call site.
func C06(tier string) int {
	bound := 1
	if tier == "thorough" {
		bound = 2
	}
	shapes := c06Shapes(tier)
	if sh, n, ok := parseShardEnv(); ok {
		runtime.GOMAXPROCS(1)
		r, err := newC06Rig()
		if err != nil {
			fmt.Printf("SHARD-ERROR %v\n", err)
			return 2
		}
		enc := json.NewEncoder(os.Stdout)
		for i, s := range shapes {
			if i%n != sh {
				continue
			}
			o := c06Explore(r, s, bound)
			fmt.Print("SHARD-RESULT ")
			_ = enc.Encode(o)
		}
		r.close()
		// The same shapes on an instance that logs at trace level (whether a request fails closed must not depend on
		// what is logged); every second shape in the quick tier.
		rig.Verbose(true)
		rv, err := newC06Rig()
		if err != nil {
			fmt.Printf("SHARD-ERROR %v\n", err)
			return 2
		}
		defer rv.close()
		for i, s := range shapes {
			if i%n != sh || (tier != "thorough" && (i/n)%2 == 1) {
				continue
			}
			s.Trace = true
			o := c06Explore(rv, s, bound)
			fmt.Print("SHARD-RESULT ")
			_ = enc.Encode(o)
		}
		return 0
	}
	run := ev.NewRun("C06", tier, "fault_enumeration")
	outs, err := spawnShards[c06ShardOut]("C06", tier, len(shapes))
	if err != nil {
		run.HarnessErr = err
		return run.Finish()
	}
	execs := 0
	sites, faults := map[string]bool{}, map[string]bool{}
	outcomes := map[string]int{}
	samples := ev.NewSamples(4)
	for _, o := range outs {
		if o.Err != "" {
			run.HarnessErr = fmt.Errorf("shape %s: %s", o.Shape, o.Err)
			return run.Finish()
		}
		execs += o.Executions
		for _, s := range o.Sites {
			sites[s] = true
		}
		for _, s := range o.SiteFaults {
			faults[s] = true
		}
		for k, v := range o.Outcomes {
			outcomes[o.Shape.Kind+":"+k] += v
		}
		samples.Add(map[string]any{"shape": o.Shape, "executions": o.Executions, "sites": o.Sites, "wire_outcomes": o.Outcomes})
		for _, v := range o.Viols {
			run.Violate(v.Key, v.What, map[string]any{"check": "C06", "shape": o.Shape, "choices": v.Choices})
		}
	}
	ucells, uapproved := c06Unwritable(run, nil)
	if run.HarnessErr != nil {
		return run.Finish()
	}
	var sl, fl []string
	for s := range sites {
		sl = append(sl, s)
	}
	for s := range faults {
		fl = append(fl, s)
	}
	sort.Strings(sl)
	sort.Strings(fl)
	run.Coverage = map[string]any{
		"evaluations":         execs,
		"distinct_nontrivial": len(outcomes),
		"rule":                fmt.Sprintf("for every request shape (kind x addressing x lock state x planted record (none, valid, refusing first position, or undecodable: wrong length, garbage, no bytes, version byte only, version-1 record one byte short or long) x malformed length x closed store) every execution with at most %d departures from the default environment answer, where each call of fetcher, checker, unlocker, rules.On*, Store.Fetch/Store/BatchStore (error, or store closed between read and write) and Account.Sign is a choice point; driven through the real gRPC signer handlers; distinct = distinct (kind, wire state vector) outcomes", bound),
		"samples":             samples.List(),
		"exhaustive":          true,
		"deviation_bound":     bound,
		"shapes":              len(shapes),
		"executions":          execs,
		"sites_seen":          sl,
		"site_fault_pairs":    fl,
		"outcomes":            outcomes,
		"unwritable_record":   map[string]any{"cells": ucells, "approved": uapproved, "rule": "rules called directly with a key the store refuses (65001, 70000, 2^20 bytes) at every position of attestation batches of 1..3 and on the single attestation and proposal paths: APPROVED implies the record is in the store"},
	}
	run.Assumptions = []string{"rules results outside the four declared constants and result lists longer than the request are not in the fault menu (no in-tree implementation can produce them)", "GOMAXPROCS=1 in explorer processes (one Scatter worker, deterministic call order)"}
	return run.Finish()
}

// parseShardEnv reads VERIF_SHARD=i/n.
func parseShardEnv() (int, int, bool) {
	v := os.Getenv("VERIF_SHARD")
	if v == "" {
		return 0, 0, false
	}
	var a, b int
	if _, err := fmt.Sscanf(v, "%d/%d", &a, &b); err != nil {
		return 0, 0, false
	}
	return a, b, true
}

// spawnShards re-executes this binary as shard processes and collects their SHARD-RESULT lines.
func spawnShards[T any](id, tier string, njobs int) ([]T, error) {
	n := runtime.NumCPU()
	if n > njobs {
		n = njobs
	}
	exe, err := os.Executable()
	if err != nil {
		return nil, err
	}
	var mu sync.Mutex
	var results []T
	var firstErr error
	var wg sync.WaitGroup
	for sh := 0; sh < n; sh++ {
		wg.Add(1)
		go func(sh int) {
			defer wg.Done()
			cmd := exec.Command(exe, id, tier)
			cmd.Env = append(os.Environ(), fmt.Sprintf("VERIF_SHARD=%d/%d", sh, n))
			cmd.Stderr = os.Stderr
			out, err := cmd.Output()
			mu.Lock()
			defer mu.Unlock()
			for _, line := range strings.Split(string(out), "\n") {
				if strings.HasPrefix(line, "SHARD-RESULT ") {
					var r T
					if jerr := json.Unmarshal([]byte(line[len("SHARD-RESULT "):]), &r); jerr == nil {
						results = append(results, r)
					} else if firstErr == nil {
						firstErr = jerr
					}
				}
				if strings.HasPrefix(line, "SHARD-ERROR") && firstErr == nil {
					firstErr = fmt.Errorf("shard %d: %s", sh, line)
				}
			}
			if err != nil && firstErr == nil {
				tail := string(out)
				if len(tail) > 600 {
					tail = tail[len(tail)-600:]
				}
				firstErr = fmt.Errorf("shard %d died: %v; output tail: %s", sh, err, tail)
			}
		}(sh)
	}
	wg.Wait()
	if firstErr != nil {
		return results, firstErr
	}
	if len(results) < njobs {
		return results, fmt.Errorf("got %d shard results for %d jobs", len(results), njobs)
	}
	return results, nil
}

func init() {
	Registry["C06"] = C06
	Replayers["C06"] = func(raw json.RawMessage) int {
		var rp struct {
			Shape      C06Shape           `json:"shape"`
			Choices    []int              `json:"choices"`
			Unwritable *c06UnwritableCase `json:"unwritable"`
		}
		if err := json.Unmarshal(raw, &rp); err != nil {
			fmt.Println(err)
			return 2
		}
		if rp.Unwritable != nil {
			run := ev.NewRun("C06", "replay", "fault_enumeration")
			c06Unwritable(run, rp.Unwritable)
			for _, v := range run.Violations() {
				fmt.Println("  VIOLATED:", v.What)
			}
			if len(run.Violations()) > 0 {
				return 1
			}
			fmt.Println("  no violation on replay")
			return 0
		}
		runtime.GOMAXPROCS(1)
		if rp.Shape.Trace {
			rig.Verbose(true)
		}
		r, err := newC06Rig()
		if err != nil {
			fmt.Println(err)
			return 2
		}
		defer r.close()
		c := dfs.NewChooser(rp.Choices)
		obs, viols, err := r.run(rp.Shape, c)
		if err != nil {
			fmt.Println(err)
			return 2
		}
		fmt.Printf("  shape %s\n  deviations %v\n  wire %v sigs %v\n  service %v sigs %v\n", rp.Shape, c.Deviations(), obs.wireStates, obs.wireSigs, obs.svcResults, obs.svcSigs)
		for _, v := range viols {
			fmt.Println("  VIOLATED:", v)
		}
		if len(viols) > 0 {
			return 1
		}
		fmt.Println("  no violation on replay")
		return 0
	}
}
