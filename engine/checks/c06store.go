package checks

import (
	"bytes"
	"context"
	"fmt"
	"os"

	"verif/ev"
	"verif/rig"

	"github.com/attestantio/dirk/rules"
	standardrules "github.com/attestantio/dirk/rules/standard"
)

// c06Unwritable is the one write failure that no hook is needed for: a record whose key the store refuses (badger accepts
// keys of at most 65000 bytes). The rules are called directly with such a key at every position of batches of one to three,
// on the single attestation path and on the proposal path. Oracle: a position that is APPROVED has its record in the store
// (approved implies recorded, which is what "writing the record failed => no signature" needs from the rules).
func c06Unwritable(run *ev.Run, replayOnly *c06UnwritableCase) (cells int, approved int) {
	rig.Init()
	dir := rig.Scratch("c06u")
	defer os.RemoveAll(dir)
	ctx, cancel := context.WithCancel(context.Background())
	svc, err := standardrules.New(ctx, standardrules.WithStoragePath(dir))
	if err != nil {
		run.HarnessErr = err
		cancel()
		return 0, 0
	}
	defer func() { _ = svc.Close(context.Background()); cancel() }()
	domain := append([]byte{0x01, 0x00, 0x00, 0x00}, make([]byte, 28)...)
	pdomain := append([]byte{0x00, 0x00, 0x00, 0x00}, make([]byte, 28)...)
	epoch := uint64(1)
	nkey := 0
	key := func(huge int) []byte {
		nkey++
		if huge > 0 {
			return bytes.Repeat([]byte{byte(nkey)}, huge)
		}
		return bytes.Repeat([]byte{byte(nkey)}, 48)
	}
	recorded := func(pk []byte, tag byte) bool {
		_, ok, err := svc.VerifRawGet(context.Background(), append(append([]byte{}, pk...), tag))
		return err == nil && ok
	}
	for _, huge := range []int{65001, 70000, 1 << 20} {
		for n := 1; n <= 3; n++ {
			for pos := 0; pos < n; pos++ {
				cs := c06UnwritableCase{Kind: "batch", Huge: huge, N: n, Pos: pos}
				if replayOnly != nil && *replayOnly != cs {
					continue
				}
				cells++
				epoch++
				md := make([]*rules.ReqMetadata, n)
				reqs := make([]*rules.SignBeaconAttestationData, n)
				for i := 0; i < n; i++ {
					h := 0
					if i == pos {
						h = huge
					}
					md[i] = &rules.ReqMetadata{Account: fmt.Sprintf("W/a%d", i), PubKey: key(h), Client: rig.DefaultClient}
					reqs[i] = &rules.SignBeaconAttestationData{Slot: epoch * 32, CommitteeIndex: 1, BeaconBlockRoot: make([]byte, 32), Domain: domain,
						Source: &rules.Checkpoint{Epoch: epoch - 1, Root: make([]byte, 32)}, Target: &rules.Checkpoint{Epoch: epoch, Root: make([]byte, 32)}}
				}
				res := svc.OnSignBeaconAttestations(context.Background(), md, reqs)
				for i, r := range res {
					if r == rules.APPROVED {
						approved++
						if !recorded(md[i].PubKey, 0x02) {
							run.Violate(fmt.Sprintf("approved-unrecorded:batch:n=%d:pos=%d:at=%d", n, pos, i),
								fmt.Sprintf("attestation batch of %d whose position %d has a key of %d bytes (the store refuses it): position %d is APPROVED and no record for its key is in the store", n, pos, huge, i),
								map[string]any{"check": "C06", "unwritable": cs})
						}
					}
				}
			}
		}
		for _, kind := range []string{"att", "prop"} {
			cs := c06UnwritableCase{Kind: kind, Huge: huge}
			if replayOnly != nil && *replayOnly != cs {
				continue
			}
			cells++
			epoch++
			md := &rules.ReqMetadata{Account: "W/a0", PubKey: key(huge), Client: rig.DefaultClient}
			var r rules.Result
			tag := byte(0x02)
			if kind == "att" {
				r = svc.OnSignBeaconAttestation(context.Background(), md, &rules.SignBeaconAttestationData{Slot: epoch * 32, CommitteeIndex: 1, BeaconBlockRoot: make([]byte, 32), Domain: domain,
					Source: &rules.Checkpoint{Epoch: epoch - 1, Root: make([]byte, 32)}, Target: &rules.Checkpoint{Epoch: epoch, Root: make([]byte, 32)}})
			} else {
				tag = 0x03
				r = svc.OnSignBeaconProposal(context.Background(), md, &rules.SignBeaconProposalData{Slot: epoch, ProposerIndex: 1, ParentRoot: make([]byte, 32), StateRoot: make([]byte, 32), BodyRoot: make([]byte, 32), Domain: pdomain})
			}
			if r == rules.APPROVED {
				approved++
				if !recorded(md.PubKey, tag) {
					run.Violate(fmt.Sprintf("approved-unrecorded:%s", kind),
						fmt.Sprintf("single %s request for a key of %d bytes (the store refuses it) is APPROVED and no record for its key is in the store", kind, huge),
						map[string]any{"check": "C06", "unwritable": cs})
				}
			}
		}
	}
	return cells, approved
}

type c06UnwritableCase struct {
	Kind string `json:"kind"`
	Huge int    `json:"huge"`
	N    int    `json:"n"`
	Pos  int    `json:"pos"`
}
