package checks

import (
	"context"
	"encoding/json"
	"fmt"
	pb "github.com/wealdtech/eth2-signer-api/pb/v1"
	"sort"
	"strings"
	"time"

	"verif/ev"
	"verif/model"
	"verif/rig"

	"github.com/attestantio/dirk/core"
	"github.com/attestantio/dirk/rules"
	"github.com/attestantio/dirk/services/checker"
	staticchecker "github.com/attestantio/dirk/services/checker/static"
	e2wtypes "github.com/wealdtech/go-eth2-wallet-types/v2"
)

var (
	c07WalletPatterns  = []string{"Wallet1", "wallet1", "Wallet.*", "Wallet1|Wallet2", "Wallet[12]", "^Wallet1$", "^Wallet1", "Wallet1$", "^Wallet1|Wallet2", `W\$`, "(?i)wallet1", "(Wallet1)"}
	c07AccountPatterns = []string{"", "acc", "a.*", "acc|b", "^acc$", `\D+`, `\W+`, `[^\S]*\S{3}`, `(acc|accx)`}
	c07Wallets         = []string{"Wallet1", "Wallet2", "Wallet10", "xWallet2", "WALLET1", "Wallet", "W$", "W$x"}
	c07Accounts        = []string{"acc", "accx", "b", "", "2024", "x/acc"} // the last: the wallet is what precedes the FIRST slash
	c07Ops             = []string{"Sign", "Sign beacon attestation", "Access account"}
)

func c07OpItems() []string {
	return []string{"All", "None", "Sign", "~Sign", "Access account", "~Access account", "aLL", "SIGN", "nONE", "~All"}
}

func toPerms(t map[string][]model.PermEntry) map[string][]*checker.Permissions {
	m := map[string][]*checker.Permissions{}
	for c, es := range t {
		for _, e := range es {
			m[c] = append(m[c], &checker.Permissions{Path: e.Path, Operations: e.Ops})
		}
	}
	return m
}

func pathOf(w, a string) string {
	if a == "" {
		return w
	}
	return w + "/" + a
}

// c07CheckGrid enumerates checker.Check against the reference evaluator.
func c07CheckGrid(run *ev.Run, tier string) (tables, calls, stricter int, classes map[string]int, err error) {
	classes = map[string]int{}
	ctx := context.Background()
	items := c07OpItems()
	var opLists [][]string
	for _, a := range items {
		opLists = append(opLists, []string{a})
		for _, b := range items {
			opLists = append(opLists, []string{a, b})
			if tier == "thorough" {
				for _, c := range []string{"All", "None", "Sign", "~Sign"} {
					opLists = append(opLists, []string{a, b, c})
				}
			}
		}
	}
	clients := []*checker.Credentials{{Client: "c1"}, {Client: "c2"}, {Client: ""}, nil, {Client: "zz"}, {Client: "C1"}}
	evalTable := func(table map[string][]model.PermEntry) error {
		svc, e := staticchecker.New(ctx, staticchecker.WithPermissions(toPerms(table)))
		if e != nil {
			// A configuration Dirk rejects cannot serve anything.
			return nil
		}
		tables++
		// All questions go to one instance, and the order in which operations and clients are asked alternates from name to
		// name: an answer remembered under part of the question (the name without the operation, the client without
		// the name, ...) is then asked for, on some name, after a question whose answer is more permissive.
		for wi, w := range c07Wallets {
			for ai, a := range c07Accounts {
				ops, cls := c07Ops, clients
				if (wi+ai)%2 == 1 {
					ops = []string{c07Ops[2], c07Ops[1], c07Ops[0]}
					cls = nil
					for i := len(clients) - 1; i >= 0; i-- {
						cls = append(cls, clients[i])
					}
				}
				for _, op := range ops {
					for _, cr := range cls {
						calls++
						got := svc.Check(ctx, cr, pathOf(w, a), op)
						client := ""
						if cr != nil {
							client = cr.Client
						}
						want := model.Allowed(table, client, w, a, op)
						classes[fmt.Sprintf("dirk=%v ref=%v", got, want)]++
						if got && !want {
							tb, _ := json.Marshal(table)
							run.Violate(fmt.Sprintf("check-allows:entries=%s:client=%s:name=%s", c07Paths(table[client]), client, pathOf(w, a)),
								fmt.Sprintf("permissions %s: client %q is allowed %q on %q although the first bearing item of the first entry matching the whole name does not allow it", tb, client, op, pathOf(w, a)),
								map[string]any{"check": "C07", "table": table, "client": client, "wallet": w, "account": a, "op": op})
						}
						if !got && want {
							stricter++
						}
					}
				}
			}
		}
		return nil
	}
	// One-entry tables.
	for _, wp := range c07WalletPatterns {
		for _, ap := range c07AccountPatterns {
			for _, ol := range opLists {
				t := map[string][]model.PermEntry{"c1": {{Path: pathOf(wp, ap), Ops: ol}}, "c2": {{Path: "Other", Ops: []string{"All"}}}}
				if err = evalTable(t); err != nil {
					return
				}
			}
		}
	}
	// Two-entry tables: taking or skipping the first entry wrongly turns a None into an All or vice versa.
	firstOps := [][]string{{"None"}, {"~Sign"}, {"All"}, {"Sign"}, {"Access account"}}
	seconds := []model.PermEntry{{Path: "Wallet.*", Ops: []string{"All"}}, {Path: ".*", Ops: []string{"None"}}, {Path: "Wallet1/acc", Ops: []string{"Sign"}}, {Path: ".*", Ops: []string{"All"}}}
	for _, wp := range c07WalletPatterns {
		for _, ap := range c07AccountPatterns {
			for _, fo := range firstOps {
				for _, sec := range seconds {
					t := map[string][]model.PermEntry{"c1": {{Path: pathOf(wp, ap), Ops: fo}, sec}}
					if err = evalTable(t); err != nil {
						return
					}
				}
			}
		}
	}
	return
}

func c07Paths(es []model.PermEntry) string {
	var l []string
	for _, e := range es {
		l = append(l, e.Path)
	}
	return strings.Join(l, ";")
}

// --- service grid ---

type c07Op struct {
	Name  string // permission operation name
	ByKey bool
}

type c07State struct {
	recs  string
	locks string
}

func c07Snapshot(r *rig.SignerRig, accts map[string]*rig.Acct, wallets []string) c07State {
	var names []string
	for n := range accts {
		names = append(names, n)
	}
	sort.Strings(names)
	var rs, ls []string
	for _, n := range names {
		a := accts[n]
		_, s, t, _ := r.AttRecord(a.PubBytes())
		_, slot, _ := r.PropRecord(a.PubBytes())
		rs = append(rs, fmt.Sprintf("%s:%d/%d/%d", n, s, t, slot))
		u, _ := a.IsUnlocked(context.Background())
		ls = append(ls, fmt.Sprintf("%s:%v", n, u))
	}
	for _, w := range wallets {
		u, _ := r.Wallets[w].(e2wtypes.WalletLocker).IsUnlocked(context.Background())
		ls = append(ls, fmt.Sprintf("%s:%v", w, u))
		n := 0
		for range r.Wallets[w].Accounts(context.Background()) {
			n++
		}
		ls = append(ls, fmt.Sprintf("%s#accounts=%d", w, n))
	}
	return c07State{strings.Join(rs, ","), strings.Join(ls, ",")}
}

func c07ServiceTables() []map[string][]model.PermEntry {
	return []map[string][]model.PermEntry{
		{"c1": {{Path: "Wallet1", Ops: []string{"All"}}}},
		{"c1": {{Path: "Wallet1|Wallet2", Ops: []string{"All"}}}},
		{"c1": {{Path: "Wallet1/acc", Ops: []string{"Sign", "Access account"}}, {Path: "Wallet.*", Ops: []string{"None"}}}},
		{"c1": {{Path: "Wallet1", Ops: []string{"~Sign", "~Lock account", "All"}}}},
		{"c1": {{Path: "Wallet1/acc|b", Ops: []string{"All"}}}},
		{"c1": {{Path: "Wallet[12]", Ops: []string{"None"}}, {Path: "Wallet.*", Ops: []string{"All"}}}},
		{"c1": {{Path: "wallet1", Ops: []string{"sign beacon attestation", "access account", "unlock wallet", "create account"}}}},
		{"c1": {{Path: "Wallet2", Ops: []string{"Sign beacon proposal", "Lock wallet", "Unlock account"}}}, "c2": {{Path: ".*", Ops: []string{"All"}}}},
	}
}

// c07Distributed asks the first of three real instances to create a distributed account (two of three) for every table,
// client and account name: the generation runs, and instances come to hold the account, only if the evaluator allows
// "Create account" on the name.
func c07Distributed(run *ev.Run, classes map[string]int) (int, error) {
	cells := 0
	tables := append(c07ServiceTables(),
		map[string][]model.PermEntry{"c1": {{Path: rig.DistWallet, Ops: []string{"Create account"}}}},
		map[string][]model.PermEntry{"c1": {{Path: rig.DistWallet + "/deny.*", Ops: []string{"None"}}, {Path: rig.DistWallet, Ops: []string{"All"}}}},
		map[string][]model.PermEntry{"c1": {{Path: rig.DistWallet, Ops: []string{"Sign", "Access account"}}}},
	)
	serial := 0
	for ti, table := range tables {
		c, err := rig.NewCluster(rig.ClusterOpts{IDs: []uint64{1, 2, 3}, Permissions: toPerms(table)})
		if err != nil {
			return cells, err
		}
		for _, client := range []string{"c1", "c2", "", "zz"} {
			for _, stem := range []string{"dg", "deny"} {
				serial++
				an := fmt.Sprintf("%s%d", stem, serial)
				name := rig.DistWallet + "/" + an
				n := c.Nodes[1]
				creds := &checker.Credentials{Client: client, RequestID: "g", IP: "10.0.0.1"}
				pk, _, gerr := n.Rig.Process.OnGenerate(n.Rig.Ctx, creds, name, []byte("pass"), 2, 3)
				done := gerr == nil && len(pk) > 0
				held := holders(c, name)
				allowed := model.Allowed(table, client, rig.DistWallet, an, "Create account")
				cells++
				classes[fmt.Sprintf("Create account (distributed)|allowed=%v|done=%v", allowed, done)]++
				tb, _ := json.Marshal(table)
				rp := map[string]any{"check": "C07", "distributed_table": ti, "client": client, "account": name}
				if (done || len(held) > 0) && !allowed {
					run.Violate(fmt.Sprintf("distributed-create-carried-out:%s:client=%s:%s", tb, client, stem),
						fmt.Sprintf("permissions %s: creating the distributed account %s for client %q was carried out (reported success=%v, instances holding it %v) although the reference evaluator refuses \"Create account\" there", tb, name, client, done, held), rp)
				}
			}
		}
		c.Close()
	}
	return cells, nil
}

// c07ServiceGrid drives every operation of every service under reduced tables.
func c07ServiceGrid(run *ev.Run) (cells int, carried int, classes map[string]int, err error) {
	classes = map[string]int{}
	wallets := []string{"Wallet1", "Wallet2", "Wallet10", "xWallet2"}
	acctNames := []string{"acc", "accx", "b"}
	for ti, table := range c07ServiceTables() {
		var r *rig.SignerRig
		r, err = rig.NewSignerRig(rig.SignerOpts{Wallets: wallets, Permissions: toPerms(table), Full: true})
		if err != nil {
			return
		}
		accts := map[string]*rig.Acct{}
		for _, w := range wallets {
			for _, a := range acctNames {
				accts[w+"/"+a] = r.AddSymAccount(w, a, "pass", true)
			}
		}
		epoch := uint64(0)
		gen := 0
		for _, client := range []string{"c1", "c2", ""} {
			creds := &checker.Credentials{Client: client, RequestID: "r", IP: "10.0.0.1"}
			for _, w := range wallets {
				for _, an := range acctNames {
					full := w + "/" + an
					a := accts[full]
					for _, byKey := range []bool{false, true} {
						name, key := full, []byte(nil)
						if byKey {
							name, key = "", a.PubBytes()
						}
						type opRun struct {
							op  string
							run func() (bool, string)
						}
						dom := make([]byte, 32)
						dom[0] = 7
						epoch += 2
						ep := epoch
						ops := []opRun{
							{"Sign", func() (bool, string) {
								res, sig := r.Signer.SignGeneric(r.Ctx, creds, name, key, &rules.SignData{Domain: dom, Data: pat(1)})
								return len(sig) > 0, resLetter(res)
							}},
							{"Sign beacon attestation", func() (bool, string) {
								res, sig := r.Signer.SignBeaconAttestation(r.Ctx, creds, name, key, AttData(Ent{S: ep, T: ep + 1, Root: 1}))
								return len(sig) > 0, resLetter(res)
							}},
							{"Sign beacon proposal", func() (bool, string) {
								res, sig := r.Signer.SignBeaconProposal(r.Ctx, creds, name, key, PropData(Ent{Slot: ep, Root: 1}))
								return len(sig) > 0, resLetter(res)
							}},
						}
						// The batch forms of the same operations (one entry: the account under test).
						batchRes := func(res []core.Result) string {
							if len(res) == 0 {
								return "-"
							}
							return resLetter(res[0])
						}
						var names []string
						var keys [][]byte
						if byKey {
							keys = [][]byte{key}
						} else {
							names = []string{name}
						}
						ops = append(ops,
							opRun{"Sign", func() (bool, string) {
								res, sigs := r.Signer.Multisign(r.Ctx, creds, names, keys, []*rules.SignData{{Domain: dom, Data: pat(1)}})
								return len(sigs) > 0 && len(sigs[0]) > 0, batchRes(res)
							}},
							opRun{"Sign beacon attestation", func() (bool, string) {
								res, sigs := r.Signer.SignBeaconAttestations(r.Ctx, creds, names, keys, []*rules.SignBeaconAttestationData{AttData(Ent{S: ep + 1, T: ep + 2, Root: 1})})
								return len(sigs) > 0 && len(sigs[0]) > 0, batchRes(res)
							}},
						)
						if !byKey {
							ops = append(ops,
								opRun{"Access account", func() (bool, string) {
									res, list := r.Lister.ListAccounts(r.Ctx, creds, []string{w + "/" + an})
									for _, l := range list {
										if l.Name() == an {
											return true, resLetter(res)
										}
									}
									return false, resLetter(res)
								}},
								// The same account listed in one request after each other wallet: whatever was decided
								// for the other wallet's accounts must not be applied to this one.
								opRun{"Access account", func() (bool, string) {
									last := ""
									for _, w2 := range wallets {
										if w2 == w {
											continue
										}
										res, list := r.Lister.ListAccounts(r.Ctx, creds, []string{w2, w + "/" + an})
										last = resLetter(res)
										for _, l := range list {
											if string(l.PublicKey().Marshal()) == string(a.PubBytes()) {
												return true, last
											}
										}
									}
									return false, last
								}},
								opRun{"Lock account", func() (bool, string) {
									_ = a.Unlock(r.Ctx, []byte("pass"))
									res, _ := r.AcctMgr.Lock(r.Ctx, creds, full)
									u, _ := a.IsUnlocked(r.Ctx)
									defer a.Unlock(r.Ctx, []byte("pass"))
									return !u, resLetter(res)
								}},
								opRun{"Unlock account", func() (bool, string) {
									_ = a.Lock(r.Ctx)
									res, _ := r.AcctMgr.Unlock(r.Ctx, creds, full, []byte("pass"))
									u, _ := a.IsUnlocked(r.Ctx)
									defer a.Unlock(r.Ctx, []byte("pass"))
									return u, resLetter(res)
								}},
							)
						}
						for _, o := range ops {
							before := c07Snapshot(r, accts, wallets)
							done, res := o.run()
							after := c07Snapshot(r, accts, wallets)
							allowed := model.Allowed(table, client, w, an, o.op)
							cells++
							if done {
								carried++
							}
							classes[fmt.Sprintf("%s|allowed=%v|done=%v", o.op, allowed, done)]++
							tb, _ := json.Marshal(table)
							if done && !allowed {
								run.Violate(fmt.Sprintf("service-carried-out:%s:%s:client=%s:%s:bykey=%v", tb, o.op, client, full, byKey),
									fmt.Sprintf("permissions %s: %q on %s (by key %v) for client %q was carried out (%s) although the reference evaluator refuses it", tb, o.op, full, byKey, client, res),
									map[string]any{"check": "C07", "service_table": ti, "op": o.op, "client": client, "account": full, "by_key": byKey})
							}
							if !done && before.recs != after.recs {
								run.Violate(fmt.Sprintf("refused-changed-records:%s:%s:%s", tb, o.op, full),
									fmt.Sprintf("permissions %s: refused %q on %s changed slashing-protection records from %s to %s", tb, o.op, full, before.recs, after.recs),
									map[string]any{"check": "C07", "service_table": ti, "op": o.op, "client": client, "account": full, "by_key": byKey})
							}
							if !done && before.locks != after.locks {
								run.Violate(fmt.Sprintf("refused-changed-locks:%s:%s:%s", tb, o.op, full),
									fmt.Sprintf("permissions %s: refused %q on %s changed lock/account state from %s to %s", tb, o.op, full, before.locks, after.locks),
									map[string]any{"check": "C07", "service_table": ti, "op": o.op, "client": client, "account": full, "by_key": byKey})
							}
						}
					}
				}
				// Wallet-level operations.
				wl := r.Wallets[w].(e2wtypes.WalletLocker)
				// Wallet operations addressed by the wallet name and by a path with an account suffix (which resolves
				// to the same wallet: the decision must be taken on the resolved wallet).
				for _, o := range []string{"Lock wallet", "Unlock wallet", "Create account", "Lock wallet/acc", "Unlock wallet/acc", "Unlock wallet/zzz", "Lock wallet/b"} {
					addr := w
					if i := strings.Index(o, "/"); i >= 0 {
						addr = w + o[i:]
						o = o[:i]
					}
					before := c07Snapshot(r, accts, wallets)
					var done bool
					var res core.Result
					switch o {
					case "Lock wallet":
						_ = wl.Unlock(r.Ctx, nil)
						res, _ = r.WalletMgr.Lock(r.Ctx, creds, addr)
						u, _ := wl.IsUnlocked(r.Ctx)
						done = !u
						before = c07Snapshot(r, accts, wallets)
						if done {
							before.locks = ""
						}
					case "Unlock wallet":
						_ = wl.Lock(r.Ctx)
						before = c07Snapshot(r, accts, wallets)
						res, _ = r.WalletMgr.Unlock(r.Ctx, creds, addr, nil)
						u, _ := wl.IsUnlocked(r.Ctx)
						done = u
						_ = wl.Lock(r.Ctx)
					case "Create account":
						gen++
						_ = wl.Lock(r.Ctx)
						before = c07Snapshot(r, accts, wallets)
						newName := fmt.Sprintf("%s/gen%d", w, gen)
						pk, _, gerr := r.Process.OnGenerate(r.Ctx, creds, newName, []byte("pass"), 1, 1)
						done = gerr == nil && len(pk) > 0
						_ = wl.Lock(r.Ctx)
						res = core.ResultDenied
						if done {
							res = core.ResultSucceeded
						}
					}
					after := c07Snapshot(r, accts, wallets)
					an := ""
					if o == "Create account" {
						an = fmt.Sprintf("gen%d", gen)
					}
					allowed := model.Allowed(table, client, w, an, o)
					cells++
					if done {
						carried++
					}
					classes[fmt.Sprintf("%s|allowed=%v|done=%v", o, allowed, done)]++
					tb, _ := json.Marshal(table)
					if done && !allowed {
						run.Violate(fmt.Sprintf("service-carried-out:%s:%s:client=%s:%s", tb, o, client, w),
							fmt.Sprintf("permissions %s: %q on wallet %s for client %q was carried out (%s) although the reference evaluator refuses it", tb, o, w, client, resLetter(res)),
							map[string]any{"check": "C07", "service_table": ti, "op": o, "client": client, "wallet": w})
					}
					if !done && o != "Lock wallet" && (before.recs != after.recs || before.locks != after.locks) {
						run.Violate(fmt.Sprintf("refused-changed-state:%s:%s:%s", tb, o, w),
							fmt.Sprintf("permissions %s: refused %q on wallet %s changed state from %v to %v", tb, o, w, before, after),
							map[string]any{"check": "C07", "service_table": ti, "op": o, "client": client, "wallet": w})
					}
				}
			}
		}
		r.Close()
	}
	return
}

// C07 checks permission decisions.
func C07(tier string) int {
	run := ev.NewRun("C07", tier, "exploration")
	rig.Init()
	tables, calls, stricter, classes, err := c07CheckGrid(run, tier)
	if err != nil {
		run.HarnessErr = err
		return run.Finish()
	}
	cells, carried, sclasses, err := c07ServiceGrid(run)
	if err != nil {
		run.HarnessErr = err
		return run.Finish()
	}
	dcells, err := c07Distributed(run, sclasses)
	if err != nil {
		run.HarnessErr = err
		return run.Finish()
	}
	cells += dcells
	wire, err := c07OverTheWire(run)
	if err != nil {
		run.HarnessErr = err
		return run.Finish()
	}
	run.Coverage = map[string]any{
		"over_the_wire":       wire,
		"evaluations":         calls + cells,
		"distinct_nontrivial": len(classes) + len(sclasses),
		"rule":                "checker grid: every one-entry table over (12 wallet patterns x 9 account patterns (literals, alternation, anchors, escape classes \\D \\W \\S) x ordered operation lists of length <= 2 (3 in thorough) over 10 items) and two-entry tables (first entry x 4 second entries), each asked for 8 wallet names x 6 account names (one containing a slash) x 3 operations x 6 client identities; verdict is one-directional: Check==true implies the reference evaluator (whole-name, case-insensitive, first bearing item) allows; service grid: 8 tables x 3 clients x 4 wallets x 3 accounts x every operation of signer (by name and by key), lister, account manager, wallet manager and generate (single-instance, and two-of-three across three real instances) on the real services: carried out only if the evaluator allows on the resolved name, and a refused request leaves decoded records and lock/account state unchanged; distinct = (dirk verdict, reference verdict) and (operation, allowed, done) classes",
		"samples": []any{
			map[string]any{"table": map[string]any{"c1": []any{map[string]any{"path": "Wallet1|Wallet2", "ops": []string{"All"}}}}, "request": "client c1, Sign on Wallet10/acc"},
			map[string]any{"service_cell": "table 3, client c1, Lock account on Wallet1/acc by name"},
		},
		"exhaustive":              true,
		"tables":                  tables,
		"check_calls":             calls,
		"dirk_stricter_than_spec": stricter,
		"check_classes":           classes,
		"service_cells":           cells,
		"service_carried_out":     carried,
		"service_classes":         sclasses,
	}
	run.Assumptions = []string{"main.go builds each client's entry list by ranging over a map, so YAML order is not preserved; the property is checked over ordered lists at the checker", "names and patterns outside the alphabets behave like their representatives"}
	return run.Finish()
}

func init() {
	Registry["C07"] = C07
}

// c07OverTheWire: "has no authenticated identity" from the certificate on. A real instance with a real API server (own
// authority, mutual TLS); callers hold certificates of that authority for names without any permission, dressed up with
// a permitted client's name in every place that is not the authenticated one: as a DNS name, as a further (public)
// certificate presented behind their own, and as their name in another case. Listing and signing on the permitted
// client's wallet must yield nothing; the permitted client itself is the control.
func c07OverTheWire(run *ev.Run) (map[string]any, error) {
	nc, err := rig.NewNetCluster([]uint64{1})
	if err != nil {
		return nil, err
	}
	defer nc.Close()
	node := nc.Nodes[1]
	a := node.Rig.AddSymAccount("Wallet 1", "", "pass", true)
	permitted, err := nc.IssueDER(rig.DefaultClient)
	if err != nil {
		return nil, err
	}
	try := func(cc rig.CallerCert) (listed int, signed bool, err error) {
		conn, err := nc.DialAs(1, cc)
		if err != nil {
			return 0, false, err
		}
		defer conn.Close()
		ctx, cancel := context.WithTimeout(context.Background(), 20*time.Second)
		defer cancel()
		if res, lerr := pb.NewListerClient(conn).ListAccounts(ctx, &pb.ListAccountsRequest{Paths: []string{"Wallet 1"}}); lerr == nil {
			listed = len(res.GetAccounts()) + len(res.GetDistributedAccounts())
		}
		dom := make([]byte, 32)
		dom[0] = 7
		if res, serr := pb.NewSignerClient(conn).Sign(ctx, &pb.SignRequest{Id: &pb.SignRequest_Account{Account: "Wallet 1/" + a.Name()}, Data: pat(3), Domain: dom}); serr == nil && len(res.GetSignature()) > 0 {
			signed = true
		}
		return listed, signed, nil
	}
	if listed, signed, err := try(rig.CallerCert{CommonName: rig.DefaultClient}); err != nil || listed == 0 || !signed {
		return nil, fmt.Errorf("over the wire: the permitted client itself is not served (listed %d, signed %v, %v)", listed, signed, err)
	}
	callers := []struct {
		name string
		cert rig.CallerCert
	}{
		{"a certificate CN=nobody", rig.CallerCert{CommonName: "nobody"}},
		{"a certificate CN=nobody with the permitted client's name as DNS name", rig.CallerCert{CommonName: "nobody", DNS: []string{rig.DefaultClient}}},
		{"a certificate without a common name with the permitted client's name as DNS name", rig.CallerCert{DNS: []string{rig.DefaultClient}}},
		{"a certificate CN=nobody presented with the permitted client's public certificate behind it", rig.CallerCert{CommonName: "nobody", AppendDER: [][]byte{permitted}}},
		{"a certificate with the permitted client's name in upper case", rig.CallerCert{CommonName: strings.ToUpper(rig.DefaultClient)}},
	}
	for i, c := range callers {
		listed, signed, err := try(c.cert)
		if err != nil {
			return nil, err
		}
		if listed > 0 || signed {
			run.Violate(fmt.Sprintf("wire-served-without-permission:caller=%d", i), fmt.Sprintf("over mutual TLS, a caller holding %s (no permission entry for its authenticated name) was served on the permitted client's wallet: %d accounts listed, signature returned: %v", c.name, listed, signed),
				map[string]any{"check": "C07", "over_the_wire": true})
		}
	}
	return map[string]any{"callers": len(callers)}, nil
}
