package checks

import (
	"context"
	"encoding/json"
	"fmt"
	"github.com/attestantio/dirk/services/signer"
	"runtime"
	"sync"
	"sync/atomic"

	"verif/ev"
	"verif/model"
	"verif/rig"

	"github.com/attestantio/dirk/core"
	"github.com/attestantio/dirk/rules"
	signerhandler "github.com/attestantio/dirk/services/api/grpc/handlers/signer"
	"github.com/attestantio/dirk/services/api/grpc/interceptors"
	"github.com/attestantio/dirk/services/checker"
	pb "github.com/wealdtech/eth2-signer-api/pb/v1"
	e2types "github.com/wealdtech/go-eth2-types/v2"
)

var c08Unsigned atomic.Int64

type c08Item struct {
	acct *rig.Acct
	root [32]byte // expected signing root
	sig  []byte
	res  core.Result
	what string
}

func c08Verify(it c08Item) string {
	if it.res != core.ResultSucceeded {
		// Whether a valid request must be signed is C09's statement, not this one's: only a signature that comes
		// with a non-success verdict is wrong here. Unsigned entries are counted (c08Unsigned) for the vacuity report.
		if len(it.sig) > 0 {
			return fmt.Sprintf("%s: a signature is returned with result %s", it.what, resLetter(it.res))
		}
		c08Unsigned.Add(1)
		return ""
	}
	if it.acct.IsSym() {
		if string(it.sig) != string(rig.SymSigBytes(it.acct.PubBytes(), it.root[:])) {
			return it.what + ": signature is not the addressed account's signature over the signing root of the submitted data"
		}
		return ""
	}
	s, err := e2types.BLSSignatureFromBytes(it.sig)
	if err != nil {
		return it.what + ": signature bytes do not decode"
	}
	msg := append([]byte{}, it.root[:]...) // a fresh allocation: cgo must not see a pointer into a struct holding Go pointers
	if !s.Verify(msg, it.acct.PublicKey()) {
		return it.what + ": signature does not verify under the addressed account's public key over the signing root of the submitted data"
	}
	return ""
}

// verifyAll verifies items in parallel (GOMAXPROCS must have been restored by the caller).
func verifyAll(items []c08Item) []string {
	out := make([]string, len(items))
	var wg sync.WaitGroup
	sem := make(chan struct{}, runtime.NumCPU())
	for i := range items {
		wg.Add(1)
		sem <- struct{}{}
		go func(i int) {
			defer wg.Done()
			out[i] = c08Verify(items[i])
			<-sem
		}(i)
	}
	wg.Wait()
	var probs []string
	for _, o := range out {
		if o != "" {
			probs = append(probs, o)
		}
	}
	return probs
}

func c08Root(b byte) []byte {
	switch b {
	case 0:
		return make([]byte, 32)
	case 0xff:
		return pat(0xff)
	default:
		r := make([]byte, 32)
		for i := range r {
			r[i] = b + byte(i)
		}
		return r
	}
}

// c08Batch runs one batch of n entries (kind atts or multisign) with distinct per-entry data and returns items to verify.
func c08Batch(r *rig.SignerRig, kind string, n int, real bool, viaHandler bool) ([]c08Item, string, error) {
	creds := &checker.Credentials{Client: rig.DefaultClient, RequestID: "r", IP: "10.0.0.1"}
	accts := make([]*rig.Acct, n)
	for i := range accts {
		if real {
			accts[i] = r.AddAccount("Wallet 1", "", "pass", true)
		} else {
			accts[i] = r.AddSymAccount("Wallet 1", "", "pass", true)
		}
	}
	items := make([]c08Item, n)
	names := make([]string, n)
	keys := make([][]byte, n)
	ctx := context.WithValue(r.Ctx, &interceptors.ClientName{}, rig.DefaultClient)
	var handler *signerhandler.Handler
	if viaHandler {
		var err error
		handler, err = signerhandler.New(ctx, signerhandler.WithSigner(&interposedSigner{Service: r.Signer, r: r}))
		if err != nil {
			return nil, "", err
		}
	}
	for i := range accts {
		if i%3 == 1 {
			keys[i] = accts[i].PubBytes()
		} else {
			names[i] = "Wallet 1/" + accts[i].Name()
		}
	}
	// Some accounts of an attestation batch have voted for a far later target before, so that the rules refuse their
	// entry: the entries around a refused one must still be signed by their own account over their own data.
	farAhead := func(a *rig.Acct) {
		e := Ent{S: 900000, T: 1000000, Root: 1}
		_, _ = r.Signer.SignBeaconAttestation(r.Ctx, creds, "Wallet 1/"+a.Name(), nil, AttData(e))
	}
	prior := make([]bool, n)
	if kind == "atts" && n >= 3 {
		for i := range accts {
			if i%5 == 1 {
				prior[i] = true
				farAhead(accts[i])
			}
		}
	}
	// Some accounts of a batch cannot sign when their turn comes (their key has been locked away since the request was
	// admitted): such an entry carries no success and no signature, and the entries around it their own.
	cannotSign := make([]bool, n)
	if !real && n >= 3 {
		for i := range accts {
			if i%7 == 3 {
				cannotSign[i] = true
				accts[i].OnSign = func(*rig.Acct, []byte) error { return rig.ErrInjected }
			}
		}
	}
	var ress []core.Result
	var sigs [][]byte
	singleAtt := make([]*rules.SignBeaconAttestationData, n)
	singleGen := make([]*rules.SignData, n)
	switch kind {
	case "atts":
		data := make([]*rules.SignBeaconAttestationData, n)
		req := &pb.SignBeaconAttestationsRequest{}
		for i := range data {
			dom := AttDomain(i % 2)
			// Every field is shared by some entries that differ elsewhere (neighbours share slot and committee index,
			// runs of four share the target epoch, ...): a result remembered under part of the data would be reused
			// for an entry with other data.
			d := &rules.SignBeaconAttestationData{Domain: dom, Slot: uint64(1000 + i/2), CommitteeIndex: uint64((i / 2) % 4), BeaconBlockRoot: c08Root(byte(1 + i%200)),
				Source: &rules.Checkpoint{Epoch: uint64(i % 5), Root: c08Root(byte(i % 7))}, Target: &rules.Checkpoint{Epoch: uint64(10 + i/4), Root: c08Root(byte(0xf0 + i%3))}}
			data[i] = d
			singleAtt[i] = d
			items[i] = c08Item{acct: accts[i], what: fmt.Sprintf("attestation batch n=%d entry %d", n, i),
				root: model.SigningRoot(model.AttestationDataRoot(d.Slot, d.CommitteeIndex, d.BeaconBlockRoot, d.Source.Epoch, d.Source.Root, d.Target.Epoch, d.Target.Root), dom)}
			req.Requests = append(req.Requests, mkAttReq(names[i], keys[i], dom, &pb.AttestationData{Slot: d.Slot, CommitteeIndex: d.CommitteeIndex, BeaconBlockRoot: d.BeaconBlockRoot,
				Source: &pb.Checkpoint{Epoch: d.Source.Epoch, Root: d.Source.Root}, Target: &pb.Checkpoint{Epoch: d.Target.Epoch, Root: d.Target.Root}}))
		}
		if viaHandler {
			res, err := handler.SignBeaconAttestations(ctx, req)
			if err != nil {
				return nil, "", err
			}
			otherBatch(r, handler, ctx) // the response is read after the server has answered somebody else
			for _, x := range res.GetResponses() {
				ress = append(ress, stateToResult(x.GetState()))
				sigs = append(sigs, x.GetSignature())
			}
		} else {
			ress, sigs = r.Signer.SignBeaconAttestations(r.Ctx, creds, names, keys, data)
		}
	case "multisign":
		data := make([]*rules.SignData, n)
		var shared []byte
		req := &pb.MultisignRequest{}
		for i := range data {
			dom := make([]byte, 32)
			dom[0] = 7
			dom[5] = byte(i % 3)
			if n >= 3 && i%5 == 1 {
				// Every fifth entry is refused by the rules (the beacon-attester domain type is not for this endpoint):
				// the entries around it must still carry their own verdicts and signatures.
				dom[0] = 1
			}
			// Neighbours share the data and differ in the domain; every third entry shares the domain.
			d := &rules.SignData{Domain: dom, Data: c08Root(byte(1 + (i/2)%250))}
			d.Data[31] = byte(i >> 9)
			if !viaHandler {
				// At the service level the roots of a batch are consecutive pieces of one buffer (each slice's capacity
				// reaches to the end of the buffer): what is computed for one entry must not touch its neighbours' memory.
				if shared == nil {
					shared = make([]byte, 32*n)
				}
				copy(shared[32*i:32*(i+1)], d.Data)
				d.Data = shared[32*i : 32*(i+1)]
			}
			data[i] = d
			singleGen[i] = d
			items[i] = c08Item{acct: accts[i], what: fmt.Sprintf("multisign n=%d entry %d", n, i), root: model.SigningRoot(b32x(d.Data), dom)}
			req.Requests = append(req.Requests, mkSignReq(names[i], keys[i], d.Data, dom))
		}
		if viaHandler {
			res, err := handler.Multisign(ctx, req)
			if err != nil {
				return nil, "", err
			}
			otherBatch(r, handler, ctx)
			for _, x := range res.GetResponses() {
				ress = append(ress, stateToResult(x.GetState()))
				sigs = append(sigs, x.GetSignature())
			}
		} else {
			ress, sigs = r.Signer.Multisign(r.Ctx, creds, names, keys, data)
		}
	}
	if len(ress) != n || len(sigs) != n {
		return nil, fmt.Sprintf("%s n=%d: %d results and %d signatures for %d requests", kind, n, len(ress), len(sigs), n), nil
	}
	for i := range items {
		items[i].res, items[i].sig = ress[i], sigs[i]
	}
	// "Entry i is the verdict for request i": the same request submitted alone for an account in the same (fresh) state
	// must get the same verdict (signed / not signed). Symbolic-key batches only (cheap).
	if !real {
		for i := range items {
			if cannotSign[i] {
				if items[i].res == core.ResultSucceeded {
					return items, fmt.Sprintf("%s n=%d: entry %d is reported as succeeded although its account could not sign (signature of %d bytes)", kind, n, i, len(items[i].sig)), nil
				}
				continue
			}
			alone := r.AddSymAccount("Wallet 1", "", "pass", true)
			if prior[i] {
				farAhead(alone)
			}
			var signedAlone bool
			switch kind {
			case "atts":
				_, sig := r.Signer.SignBeaconAttestation(r.Ctx, creds, "Wallet 1/"+alone.Name(), nil, singleAtt[i])
				signedAlone = len(sig) > 0
			case "multisign":
				_, sig := r.Signer.SignGeneric(r.Ctx, creds, "Wallet 1/"+alone.Name(), nil, singleGen[i])
				signedAlone = len(sig) > 0
			}
			if signedAlone != (len(items[i].sig) > 0) {
				return items, fmt.Sprintf("%s n=%d: entry %d is signed=%v in the batch but signed=%v when the same request is submitted alone", kind, n, i, len(items[i].sig) > 0, signedAlone), nil
			}
		}
	}
	return items, "", nil
}

// interposedSigner stands for a server that handles requests side by side: between the moment the signer hands a batch
// result to the handler and the moment the handler reads it, another batch (other accounts, other data) is served in full.
type interposedSigner struct {
	signer.Service
	r    *rig.SignerRig
	busy bool
}

func (s *interposedSigner) other(ctx context.Context, c *checker.Credentials) {
	if s.busy {
		return
	}
	s.busy = true
	defer func() { s.busy = false }()
	a, b := s.r.AddSymAccount("Wallet 1", "", "pass", true), s.r.AddSymAccount("Wallet 1", "", "pass", true)
	dom := make([]byte, 32)
	dom[0] = 7
	dom[9] = 0x99
	s.Service.Multisign(ctx, c, []string{"Wallet 1/" + a.Name(), "Wallet 1/" + b.Name()}, nil, []*rules.SignData{{Domain: dom, Data: c08Root(0x77)}, {Domain: dom, Data: c08Root(0x78)}})
	s.Service.SignBeaconAttestations(ctx, c, []string{"Wallet 1/" + a.Name(), "Wallet 1/" + b.Name()}, nil,
		[]*rules.SignBeaconAttestationData{AttData(Ent{S: 7, T: 8, Root: 3}), AttData(Ent{S: 7, T: 9, Root: 4})})
}

func (s *interposedSigner) Multisign(ctx context.Context, c *checker.Credentials, n []string, k [][]byte, d []*rules.SignData) ([]core.Result, [][]byte) {
	res, sigs := s.Service.Multisign(ctx, c, n, k, d)
	s.other(ctx, c)
	return res, sigs
}

func (s *interposedSigner) SignBeaconAttestations(ctx context.Context, c *checker.Credentials, n []string, k [][]byte, d []*rules.SignBeaconAttestationData) ([]core.Result, [][]byte) {
	res, sigs := s.Service.SignBeaconAttestations(ctx, c, n, k, d)
	s.other(ctx, c)
	return res, sigs
}

// otherBatch has the handler answer another client's batches (their responses are dropped).
func otherBatch(r *rig.SignerRig, h *signerhandler.Handler, ctx context.Context) {
	a, b := r.AddSymAccount("Wallet 1", "", "pass", true), r.AddSymAccount("Wallet 1", "", "pass", true)
	dom := make([]byte, 32)
	dom[0] = 7
	dom[9] = 0x98
	_, _ = h.Multisign(ctx, &pb.MultisignRequest{Requests: []*pb.SignRequest{mkSignReq("Wallet 1/"+a.Name(), nil, c08Root(0x79), dom), mkSignReq("Wallet 1/"+b.Name(), nil, c08Root(0x7a), dom)}})
	d := AttData(Ent{S: 5, T: 6, Root: 5})
	_, _ = h.SignBeaconAttestations(ctx, &pb.SignBeaconAttestationsRequest{Requests: []*pb.SignBeaconAttestationRequest{
		mkAttReq("Wallet 1/"+a.Name(), nil, d.Domain, &pb.AttestationData{Slot: d.Slot, CommitteeIndex: d.CommitteeIndex, BeaconBlockRoot: d.BeaconBlockRoot, Source: &pb.Checkpoint{Epoch: d.Source.Epoch, Root: d.Source.Root}, Target: &pb.Checkpoint{Epoch: d.Target.Epoch, Root: d.Target.Root}}),
		mkAttReq("Wallet 1/"+b.Name(), nil, d.Domain, &pb.AttestationData{Slot: d.Slot, CommitteeIndex: d.CommitteeIndex, BeaconBlockRoot: d.BeaconBlockRoot, Source: &pb.Checkpoint{Epoch: d.Source.Epoch, Root: d.Source.Root}, Target: &pb.Checkpoint{Epoch: d.Target.Epoch, Root: d.Target.Root}})}})
}

func stateToResult(s pb.ResponseState) core.Result {
	switch s {
	case pb.ResponseState_SUCCEEDED:
		return core.ResultSucceeded
	case pb.ResponseState_DENIED:
		return core.ResultDenied
	case pb.ResponseState_FAILED:
		return core.ResultFailed
	}
	return core.ResultUnknown
}

// crossCheck: signature i must not be valid for entry i+1 (distinct data), i.e. entries are not permuted.
func crossCheck(items []c08Item) string {
	for i := 0; i+1 < len(items); i++ {
		if items[i].acct.IsSym() {
			if string(items[i].sig) == string(rig.SymSigBytes(items[i+1].acct.PubBytes(), items[i+1].root[:])) {
				return fmt.Sprintf("%s: signature %d is the signature expected at position %d", items[i].what, i, i+1)
			}
		}
	}
	return ""
}

// C08 checks that every signature is valid for exactly the requested data and account.
func C08(tier string) int {
	run := ev.NewRun("C08", tier, "exploration")
	rig.Init()
	old := runtime.GOMAXPROCS(0)
	defer runtime.GOMAXPROCS(old)
	r, err := rig.NewSignerRig(rig.SignerOpts{})
	if err != nil {
		run.HarnessErr = err
		return run.Finish()
	}
	defer func() { r.Close() }()
	cells, sigsChecked := 0, 0
	classes := map[string]bool{}
	samples := ev.NewSamples(5)
	report := func(key, what string, rp any) { run.Violate(key, what, rp) }

	// 1. Singles with boundary field values, real BLS, by name and by key, service level and through the handler.
	vals := []uint64{0, 1, 1 << 32, 1<<63 - 1}
	rootsB := []byte{0, 0x21, 0xff}
	creds := &checker.Credentials{Client: rig.DefaultClient, RequestID: "r", IP: "10.0.0.1"}
	var items []c08Item
	// Every second request below is preceded by one that is refused while its signing root is being computed (a domain of
	// 31 bytes): whatever such a request leaves behind must not reach the next signature.
	poisons := 0
	poison := func(a *rig.Acct) {
		poisons++
		if poisons%2 == 0 {
			return
		}
		bad := make([]byte, 31)
		bad[0] = 7
		_, sig := r.Signer.SignGeneric(r.Ctx, creds, "Wallet 1/"+a.Name(), nil, &rules.SignData{Domain: bad, Data: c08Root(0x5c)})
		if len(sig) > 0 {
			report("malformed-domain-signed", "a generic request with a 31-byte domain was signed", map[string]any{"check": "C08"})
		}
	}
	for _, slot := range vals {
		for _, idx := range vals {
			for _, rb := range rootsB {
				for _, st := range [][2]uint64{{0, 0}, {0, 1}, {1, 1<<63 - 1}, {1<<63 - 2, 1<<63 - 1}, {1 << 32, 1<<32 + 1}} {
					for dv := 0; dv < 2; dv++ {
						byKey := (slot+idx+uint64(rb)+st[0])%2 == 0
						a := r.AddAccount("Wallet 1", "", "pass", true)
						name, key := "Wallet 1/"+a.Name(), []byte(nil)
						if byKey {
							name, key = "", a.PubBytes()
						}
						dom := AttDomain(dv)
						d := &rules.SignBeaconAttestationData{Domain: dom, Slot: slot, CommitteeIndex: idx, BeaconBlockRoot: c08Root(rb),
							Source: &rules.Checkpoint{Epoch: st[0], Root: c08Root(rb)}, Target: &rules.Checkpoint{Epoch: st[1], Root: c08Root(rb ^ 0xff)}}
						poison(a)
						res, sig := r.Signer.SignBeaconAttestation(r.Ctx, creds, name, key, d)
						items = append(items, c08Item{acct: a, res: res, sig: sig, what: fmt.Sprintf("attestation slot=%d index=%d %d->%d root=%#x dom=%d bykey=%v", slot, idx, st[0], st[1], rb, dv, byKey),
							root: model.SigningRoot(model.AttestationDataRoot(slot, idx, d.BeaconBlockRoot, st[0], d.Source.Root, st[1], d.Target.Root), dom)})
						classes["att"] = true
					}
				}
				// Proposal with (slot, proposer index = idx).
				a := r.AddAccount("Wallet 1", "", "pass", true)
				dom := PropDomain(int(slot % 2))
				p := &rules.SignBeaconProposalData{Domain: dom, Slot: slot, ProposerIndex: idx, ParentRoot: c08Root(rb), StateRoot: c08Root(rb ^ 0x0f), BodyRoot: c08Root(rb ^ 0xf0)}
				poison(a)
				res, sig := r.Signer.SignBeaconProposal(r.Ctx, creds, "", a.PubBytes(), p)
				items = append(items, c08Item{acct: a, res: res, sig: sig, what: fmt.Sprintf("proposal slot=%d proposer=%d root=%#x", slot, idx, rb),
					root: model.SigningRoot(model.HeaderRoot(slot, idx, p.ParentRoot, p.StateRoot, p.BodyRoot), dom)})
				classes["prop"] = true
				// Generic.
				a = r.AddAccount("Wallet 1", "", "pass", true)
				gd := make([]byte, 32)
				gd[0] = byte(5 + idx%3)
				gd[31] = byte(slot)
				g := &rules.SignData{Domain: gd, Data: c08Root(rb)}
				poison(a)
				res, sig = r.Signer.SignGeneric(r.Ctx, creds, "Wallet 1/"+a.Name(), nil, g)
				items = append(items, c08Item{acct: a, res: res, sig: sig, what: fmt.Sprintf("generic root=%#x domain=%x", rb, gd[:6]), root: model.SigningRoot(b32x(g.Data), gd)})
				classes["generic"] = true
			}
		}
	}
	// Account names that contain a slash, next to a sibling named like their first component: the account addressed is
	// the one whose whole name (everything after the first slash of the path) was given.
	for _, names := range [][]string{{"sib", "sib/1", "sib/1/x"}, {"val", "val/"}} {
		var as []*rig.Acct
		for _, n := range names {
			as = append(as, r.AddSymAccount("Wallet 1", n, "pass", true))
		}
		for i, a := range as {
			for _, byKey := range []bool{false, true} {
				name, key := "Wallet 1/"+names[i], []byte(nil)
				if byKey {
					name, key = "", a.PubBytes()
				}
				gd := make([]byte, 32)
				gd[0] = 7
				g := &rules.SignData{Domain: gd, Data: c08Root(byte(0x40 + i))}
				res, sig := r.Signer.SignGeneric(r.Ctx, creds, name, key, g)
				items = append(items, c08Item{acct: a, res: res, sig: sig, what: fmt.Sprintf("generic for account %q (bykey=%v) beside %v", names[i], byKey, names), root: model.SigningRoot(b32x(g.Data), gd)})
				d := AttData(Ent{S: 1, T: 2, Root: 1 + i})
				res, sig = r.Signer.SignBeaconAttestation(r.Ctx, creds, name, key, d)
				items = append(items, c08Item{acct: a, res: res, sig: sig, what: fmt.Sprintf("attestation for account %q (bykey=%v) beside %v", names[i], byKey, names),
					root: model.SigningRoot(AttRoot(Ent{S: 1, T: 2, Root: 1 + i}), AttDomain(0))})
				classes["slash-name"] = true
			}
		}
	}
	cells += len(items)
	sigsChecked += len(items)
	samples.Add(map[string]any{"single": items[0].what})
	samples.Add(map[string]any{"single": items[len(items)-1].what})
	for _, p := range verifyAll(items) {
		report("single:"+firstWords(p, 8), p, map[string]any{"check": "C08", "what": p})
	}

	// 2. Batches: every size x every degree of parallelism with symbolic keys; a reduced grid with real BLS.
	var sizes []int
	var procs []int
	if tier == "thorough" {
		for n := 1; n <= 300; n++ {
			sizes = append(sizes, n)
		}
		for p := 1; p <= 16; p++ {
			procs = append(procs, p)
		}
	} else {
		for n := 1; n <= 70; n++ {
			sizes = append(sizes, n)
		}
		sizes = append(sizes, 95, 96, 97, 127, 128, 129, 159, 160, 161, 255, 256, 257, 300)
		procs = []int{1, 2, 3, 4, 8, 16}
	}
	nrun := 0
	for _, p := range procs {
		for _, n := range sizes {
			for _, kind := range []string{"atts", "multisign"} {
				nrun++
				if nrun%150 == 0 {
					r.Close()
					r, err = rig.NewSignerRig(rig.SignerOpts{})
					if err != nil {
						run.HarnessErr = err
						return run.Finish()
					}
				}
				runtime.GOMAXPROCS(p)
				its, problem, err := c08Batch(r, kind, n, false, n%4 == 0)
				runtime.GOMAXPROCS(old)
				if err != nil {
					run.HarnessErr = err
					return run.Finish()
				}
				cells++
				classes[fmt.Sprintf("%s:n=%d:procs=%d", kind, n, p)] = true
				rp := map[string]any{"check": "C08", "kind": kind, "n": n, "procs": p}
				if problem != "" {
					report(fmt.Sprintf("batch-shape:%s:n=%d:procs=%d", kind, n, p), problem, rp)
					continue
				}
				sigsChecked += len(its)
				for _, pr := range verifyAll(its) {
					report(fmt.Sprintf("batch:%s:n=%d:procs=%d:%s", kind, n, p, firstWords(pr, 5)), fmt.Sprintf("GOMAXPROCS=%d: %s", p, pr), rp)
					break
				}
				if x := crossCheck(its); x != "" {
					report(fmt.Sprintf("batch-permuted:%s:n=%d:procs=%d", kind, n, p), x, rp)
				}
			}
		}
	}
	samples.Add(map[string]any{"batch": "atts n=65 GOMAXPROCS=4, entries addressed by name/key alternately, distinct data per entry"})
	realSizes := []int{1, 2, 3, 17, 64, 65}
	realProcs := []int{1, 4, 16}
	if tier == "thorough" {
		realSizes = []int{1, 2, 3, 5, 8, 16, 17, 31, 32, 33, 64, 65, 100}
		realProcs = []int{1, 2, 3, 4, 8, 16}
	}
	for _, p := range realProcs {
		for _, n := range realSizes {
			for _, kind := range []string{"atts", "multisign"} {
				runtime.GOMAXPROCS(p)
				its, problem, err := c08Batch(r, kind, n, true, n%2 == 1)
				runtime.GOMAXPROCS(old)
				if err != nil {
					run.HarnessErr = err
					return run.Finish()
				}
				cells++
				rp := map[string]any{"check": "C08", "kind": kind, "n": n, "procs": p, "real_bls": true}
				if problem != "" {
					report(fmt.Sprintf("batch-shape:%s:n=%d:procs=%d", kind, n, p), problem, rp)
					continue
				}
				sigsChecked += len(its)
				for _, pr := range verifyAll(its) {
					report(fmt.Sprintf("batch-bls:%s:n=%d:procs=%d:%s", kind, n, p, firstWords(pr, 5)), fmt.Sprintf("GOMAXPROCS=%d: %s", p, pr), rp)
					break
				}
				// Real cross check: signature i must not verify for entry i+1.
				if len(its) > 1 {
					s, err := e2types.BLSSignatureFromBytes(its[0].sig)
					if err == nil && s.Verify(append([]byte{}, its[1].root[:]...), its[1].acct.PublicKey()) {
						report(fmt.Sprintf("batch-permuted-bls:%s:n=%d:procs=%d", kind, n, p), "signature 0 verifies for entry 1", rp)
					}
				}
			}
		}
	}
	// The same batches on an instance that logs at trace level (what is signed must not depend on what is logged).
	rig.Verbose(true)
	vr, verr := rig.NewSignerRig(rig.SignerOpts{})
	if verr != nil {
		rig.Verbose(false)
		run.HarnessErr = verr
		return run.Finish()
	}
	verboseCells := 0
	for _, p := range []int{1, 4} {
		for _, n := range []int{2, 5, 12, 33} {
			for _, kind := range []string{"atts", "multisign"} {
				runtime.GOMAXPROCS(p)
				its, problem, err := c08Batch(vr, kind, n, false, n == 12)
				runtime.GOMAXPROCS(old)
				if err != nil {
					rig.Verbose(false)
					run.HarnessErr = err
					return run.Finish()
				}
				verboseCells++
				rp := map[string]any{"check": "C08", "kind": kind, "n": n, "procs": p, "logging": "trace"}
				if problem != "" {
					report(fmt.Sprintf("batch-shape:%s:n=%d:procs=%d:logging=trace", kind, n, p), "logging at trace level: "+problem, rp)
					continue
				}
				for _, pr := range verifyAll(its) {
					report(fmt.Sprintf("batch:%s:n=%d:procs=%d:logging=trace:%s", kind, n, p, firstWords(pr, 5)), fmt.Sprintf("logging at trace level, GOMAXPROCS=%d: %s", p, pr), rp)
					break
				}
			}
		}
	}
	vr.Close()
	rig.Verbose(false)
	cells += verboseCells
	// Memory shared between the workers of a batch without synchronisation: see race.go.
	raceReports, raceTotal, raceRan, err := racePass("C08")
	if err != nil {
		run.HarnessErr = err
		return run.Finish()
	}
	for _, rr := range raceReports {
		report("data-race:"+rr.Key, fmt.Sprintf("while batches and concurrent single requests are served, two goroutines of the signing path touch the same memory with no synchronisation between them (%s): what is signed depends on their timing. Race detector report:\n%s", rr.Key, rr.Text),
			map[string]any{"check": "C08", "race": rr.Key})
	}
	run.Coverage = map[string]any{
		"race_detector_pass":  map[string]any{"ran": raceRan, "reports": raceTotal, "reports_with_dirk_code_on_both_sides": len(raceReports), "bodies": "attestation batches and multisign of 2, 5 and 17 entries with 2, 4 and 8 processors (service level and through the handler), and four clients signing single requests (generic, attestation, proposal) side by side, free-running in a child built with -race"},
		"evaluations":         cells,
		"distinct_nontrivial": len(classes),
		"rule":                "singles: attestation/proposal/generic requests over boundary values of slot, index, epochs, proposer index x 3 root fills x 2 domains x addressing with real BLS keys, every second request preceded by a request that fails while its signing root is computed (31-byte domain), plus accounts whose names contain slashes beside siblings named like their first component, verified with the BLS library against a signing root computed by an independent sha256 merkleisation; batches: attestation batches and multisign of every listed size x every listed GOMAXPROCS with per-entry data that is distinct as a whole while every single field (slot, committee index, roots, epochs; data and domain for multisign) is shared between some entries, mixed addressing, every fifth account of an attestation batch refused by the rules (it voted for a far later target before), symbolic keys (signature must be byte-equal to the addressed account's signature over the independent signing root; exactly n results and n signatures; signature i is not the one expected at i+1), every fourth size through the gRPC handler; reduced (n, procs) grid repeated with real BLS keys; distinct = request classes and (kind, n, procs) cells",
		"samples":             samples.List(),
		"exhaustive":          true,
		"signatures_verified": sigsChecked - int(c08Unsigned.Load()),
		"entries_not_signed":  c08Unsigned.Load(),
		"batch_sizes":         len(sizes),
		"gomaxprocs":          procs,
		"real_bls_grid":       map[string]any{"sizes": realSizes, "gomaxprocs": realProcs},
	}
	run.Assumptions = []string{"the BLS library is correct", "field values outside the boundary alphabet behave like their neighbours"}
	return run.Finish()
}

// c08RaceBodies: the batch and single paths once more, free-running (see race.go).
func c08RaceBodies() error {
	old := runtime.GOMAXPROCS(0)
	defer runtime.GOMAXPROCS(old)
	r, err := rig.NewSignerRig(rig.SignerOpts{})
	if err != nil {
		return err
	}
	defer r.Close()
	for _, p := range []int{2, 4, 8} {
		for _, n := range []int{2, 5, 17} {
			for _, kind := range []string{"atts", "multisign"} {
				runtime.GOMAXPROCS(p)
				_, _, err := c08Batch(r, kind, n, false, n == 5)
				runtime.GOMAXPROCS(old)
				if err != nil {
					return err
				}
			}
		}
	}
	runtime.GOMAXPROCS(4)
	creds := &checker.Credentials{Client: rig.DefaultClient, RequestID: "r", IP: "10.0.0.1"}
	var wg sync.WaitGroup
	for c := 0; c < 4; c++ {
		a := r.AddSymAccount("Wallet 1", "", "pass", true)
		wg.Add(1)
		go func(c int) {
			defer wg.Done()
			dom := make([]byte, 32)
			dom[0] = 7
			for i := 0; i < 6; i++ {
				r.Signer.SignGeneric(r.Ctx, creds, "Wallet 1/"+a.Name(), nil, &rules.SignData{Domain: dom, Data: c08Root(byte(16*c + i))})
				r.Signer.SignBeaconAttestation(r.Ctx, creds, "", a.PubBytes(), AttData(Ent{S: uint64(i), T: uint64(i + 1), Root: c + 1}))
				r.Signer.SignBeaconProposal(r.Ctx, creds, "Wallet 1/"+a.Name(), nil, PropData(Ent{Slot: uint64(i + 1), Root: c + 1}))
			}
		}(c)
	}
	wg.Wait()
	return nil
}

func init() {
	Registry["C08"] = C08
	RaceBodies["C08"] = c08RaceBodies
	Replayers["C08"] = func(raw json.RawMessage) int {
		var rp struct {
			Kind  string `json:"kind"`
			N     int    `json:"n"`
			Procs int    `json:"procs"`
			Real  bool   `json:"real_bls"`
		}
		var rr struct {
			Race string `json:"race"`
		}
		if json.Unmarshal(raw, &rr) == nil && rr.Race != "" {
			return replayRace("C08", rr.Race)
		}
		if err := json.Unmarshal(raw, &rp); err != nil || rp.N == 0 {
			fmt.Println("this counterexample is a single request; re-run the check to reproduce it")
			return 2
		}
		rig.Init()
		r, err := rig.NewSignerRig(rig.SignerOpts{})
		if err != nil {
			fmt.Println(err)
			return 2
		}
		defer r.Close()
		old := runtime.GOMAXPROCS(rp.Procs)
		its, problem, err := c08Batch(r, rp.Kind, rp.N, rp.Real, false)
		runtime.GOMAXPROCS(old)
		if err != nil {
			fmt.Println(err)
			return 2
		}
		bad := 0
		if problem != "" {
			fmt.Println("  VIOLATED:", problem)
			bad++
		}
		for _, p := range verifyAll(its) {
			fmt.Println("  VIOLATED:", p)
			bad++
		}
		if x := crossCheck(its); x != "" {
			fmt.Println("  VIOLATED:", x)
			bad++
		}
		if bad > 0 {
			return 1
		}
		fmt.Println("  no violation on replay")
		return 0
	}
}
