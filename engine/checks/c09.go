package checks

import (
	"bytes"
	"encoding/gob"
	"encoding/hex"
	"encoding/json"
	"fmt"
	"runtime"
	"sort"
	"strings"
	"sync"
	"time"

	"verif/bfs"
	"verif/ev"
	"verif/model"

	"github.com/attestantio/dirk/util"
)

// waterOf builds the sequential specification's state from the signatures actually released so far.
func waterOf(rel []Released, key int, before int) model.Water {
	var w model.Water
	for _, r := range rel {
		if r.Key != key || r.Step >= before {
			continue
		}
		if r.Prop {
			if !w.HasProp || r.Slot > w.MaxSlot {
				w.HasProp, w.MaxSlot = true, r.Slot
			}
		} else {
			if !w.HasAtt {
				w.HasAtt, w.MaxS, w.MaxT = true, r.S, r.T
			} else {
				if r.S > w.MaxS {
					w.MaxS = r.S
				}
				if r.T > w.MaxT {
					w.MaxT = r.T
				}
			}
		}
	}
	return w
}

func releasedAt(rel []Released, step int, key int, prop bool) bool {
	for _, r := range rel {
		if r.Step == step && r.Key == key && r.Prop == prop {
			return true
		}
	}
	return false
}

type c09Worker struct {
	w *SigWorker
}

func (c *c09Worker) Close() { c.w.Close() }

func permutations(n int) [][]int {
	var res [][]int
	var rec func(cur []int, used []bool)
	rec = func(cur []int, used []bool) {
		if len(cur) == n {
			res = append(res, append([]int{}, cur...))
			return
		}
		for i := 0; i < n; i++ {
			if !used[i] {
				used[i] = true
				rec(append(cur, i), used)
				used[i] = false
			}
		}
	}
	rec(nil, make([]bool, n))
	return res
}

func (c *c09Worker) Run(path []SOp) (bfs.Outcome, error) {
	tr, err := c.w.Exec(path)
	if err != nil {
		return bfs.Outcome{}, err
	}
	out := bfs.Outcome{Obs: tr.Obs, Canon: CanonRecs(tr.Recs, 0, 1, 2) + "|" + CanonPropMax(tr.Released, 0, 1, 2) + "|" + CanonRoutes(path, tr.Released, 0, 1, 2)}
	if len(path) == 0 {
		return out, nil
	}
	last := len(path) - 1
	op := path[last]
	// Completeness: whatever the specification approves must have been signed.
	seen := map[int]bool{}
	distinct := true
	for _, e := range op.Ents {
		if seen[e.Key] {
			distinct = false
		}
		seen[e.Key] = true
	}
	if distinct {
		for _, e := range op.Ents {
			w := waterOf(tr.Released, e.Key, last)
			switch op.Kind {
			case "att", "atts":
				if e.Dom <= 1 && model.WellFormedAtt(e.S, e.T) && w.ApproveAtt(e.S, e.T) && !releasedAt(tr.Released, last, e.Key, false) {
					out.Viol = append(out.Viol, bfs.Viol{
						Key:  fmt.Sprintf("advancing-att-refused:%s:(%d->%d):prev=(%v,%d,%d)", op.Kind, e.S, e.T, w.HasAtt, w.MaxS, w.MaxT),
						What: fmt.Sprintf("advancing attestation %d->%d refused although highest signed so far is source %d target %d (any=%v); observation %s", e.S, e.T, w.MaxS, w.MaxT, w.HasAtt, tr.Obs[last]),
					})
				}
			case "prop":
				if e.Dom <= 1 && e.Slot < 1<<63 && w.ApproveProp(e.Slot) && !releasedAt(tr.Released, last, e.Key, true) {
					out.Viol = append(out.Viol, bfs.Viol{
						Key:  fmt.Sprintf("advancing-prop-refused:%d:prev=(%v,%d)", e.Slot, w.HasProp, w.MaxSlot),
						What: fmt.Sprintf("proposal at slot %d refused although highest signed slot so far is %d (any=%v); observation %s", e.Slot, w.MaxSlot, w.HasProp, tr.Obs[last]),
					})
				}
			}
		}
	}
	// Differential: a batch with distinct keys gives the verdicts of its entries submitted one at a time (every order).
	wellFormed := true
	for _, e := range op.Ents {
		wellFormed = wellFormed && model.WellFormedAtt(e.S, e.T) && (e.T > e.S || (e.S == 0 && e.T == 0))
	}
	if op.Kind == "atts" && distinct && wellFormed {
		batchVerdict := make([]bool, len(op.Ents))
		for i, e := range op.Ents {
			batchVerdict[i] = releasedAt(tr.Released, last, e.Key, false)
		}
		for _, perm := range permutations(len(op.Ents)) {
			p2 := append([]SOp{}, path[:last]...)
			for _, i := range perm {
				p2 = append(p2, SOp{Kind: "att", Ents: []Ent{op.Ents[i]}})
			}
			tr2, err := c.w.Exec(p2)
			if err != nil {
				return out, err
			}
			same := true
			for pos, i := range perm {
				single := releasedAt(tr2.Released, last+pos, op.Ents[i].Key, false)
				if single != batchVerdict[i] {
					same = false
					out.Viol = append(out.Viol, bfs.Viol{
						Key:  fmt.Sprintf("batch-vs-single:%s:pos=%d", op.String(), i),
						What: fmt.Sprintf("batch %s gives signed=%v at position %d but the entry submitted alone (order %v) gives signed=%v", op.String(), batchVerdict[i], i, perm, single),
					})
				}
			}
			// ... and leaves the records the one-at-a-time submission leaves.
			if a, b := semRecs(tr.Recs), semRecs(tr2.Recs); same && a != b {
				out.Viol = append(out.Viol, bfs.Viol{
					Key:  fmt.Sprintf("batch-vs-single-records:%s", op.String()),
					What: fmt.Sprintf("batch %s gives the same verdicts as its entries submitted one at a time (order %v) but leaves the records %s where one at a time leaves %s", op.String(), perm, a, b),
				})
			}
		}
	}
	return out, nil
}

// semRecs renders the records by meaning (the old and the current format of the same values are the same record).
func semRecs(recs []KeyRec) string {
	var sb strings.Builder
	for i, r := range recs {
		fmt.Fprintf(&sb, "%c[", 'A'+i)
		if raw, _ := hex.DecodeString(r.AttRaw); len(raw) == 17 && raw[0] == 1 {
			fmt.Fprintf(&sb, "att %d/%d", r.AttS, r.AttT)
		} else if len(raw) > 0 {
			var l legacyAtt
			if err := gob.NewDecoder(bytes.NewReader(raw)).Decode(&l); err == nil {
				fmt.Fprintf(&sb, "att %d/%d", l.SourceEpoch, l.TargetEpoch)
			} else {
				fmt.Fprintf(&sb, "att ?%s", r.AttRaw)
			}
		}
		if raw, _ := hex.DecodeString(r.PropRaw); len(raw) == 9 && raw[0] == 1 {
			fmt.Fprintf(&sb, " prop %d", r.PropSlot)
		} else if len(raw) > 0 {
			var l legacyProp
			if err := gob.NewDecoder(bytes.NewReader(raw)).Decode(&l); err == nil {
				fmt.Fprintf(&sb, " prop %d", l.Slot)
			} else {
				fmt.Fprintf(&sb, " prop ?%s", r.PropRaw)
			}
		}
		sb.WriteString("]")
	}
	return sb.String()
}

func c09Ops(E []uint64, nkeys int) []SOp {
	var ops []SOp
	for k := 0; k < nkeys; k++ {
		for _, s := range E {
			for _, t := range E {
				// Only well-formed requests are in this property's domain: target above source, or both zero.
				if t > s || (s == 0 && t == 0) {
					ops = append(ops, SOp{Kind: "att", Ents: []Ent{{Key: k, ByKey: (s+t)%2 == 1, S: s, T: t, Root: 1}}})
				}
			}
		}
		for _, slot := range E {
			ops = append(ops, SOp{Kind: "prop", Ents: []Ent{{Key: k, ByKey: slot%2 == 1, Slot: slot, Root: 1}}})
		}
	}
	// Batch entries for the key under study cover: approved shapes, refused-by-target shapes and
	// refused-by-source-with-a-higher-target shapes (0->3 after 1->2: a refused batch entry must not move the stored
	// watermark); the companion entry takes two representative values.
	var pairs [][2]uint64
	for _, s := range E {
		for _, t := range E {
			if (t > s || (s == 0 && t == 0)) && t <= 3 {
				pairs = append(pairs, [2]uint64{s, t})
			}
		}
	}
	companions := [][2]uint64{{0, 1}, {1, 2}}
	for _, p := range pairs {
		for _, q := range companions {
			ops = append(ops, SOp{Kind: "atts", Ents: []Ent{{Key: 0, S: p[0], T: p[1], Root: 1}, {Key: 1, ByKey: true, S: q[0], T: q[1], Root: 1}}})
			ops = append(ops, SOp{Kind: "atts", Ents: []Ent{{Key: 1, S: q[0], T: q[1], Root: 2}, {Key: 0, S: p[0], T: p[1], Root: 2}}})
		}
	}
	// The largest values the statement admits (2^63-1), alone and as a batch entry, whatever the alphabet.
	const top = uint64(1<<63 - 1)
	ops = append(ops,
		SOp{Kind: "att", Ents: []Ent{{Key: 0, S: 3, T: top, Root: 1}}},
		SOp{Kind: "att", Ents: []Ent{{Key: 1, ByKey: true, S: top - 1, T: top, Root: 1}}},
		SOp{Kind: "prop", Ents: []Ent{{Key: 0, Slot: top, Root: 1}}},
		SOp{Kind: "atts", Ents: []Ent{{Key: 0, S: 2, T: top, Root: 1}, {Key: 1, ByKey: true, S: 0, T: 1, Root: 1}}},
		SOp{Kind: "atts", Ents: []Ent{{Key: 1, S: 1, T: 2, Root: 2}, {Key: 0, S: top - 1, T: top, Root: 2}}},
	)
	// Requests that are not well-formed (target not above source) are outside this property, but histories contain them:
	// alone and inside a batch they are refused, and what they leave behind must not make a later advancing request fail
	// (the batch path writes back the state of every entry, refused ones included - also for a key that never signed).
	for _, p := range [][2]uint64{{3, 3}, {2, 1}} {
		ops = append(ops, SOp{Kind: "att", Ents: []Ent{{Key: 0, S: p[0], T: p[1], Root: 1}}})
		for _, q := range companions {
			ops = append(ops, SOp{Kind: "atts", Ents: []Ent{{Key: 0, S: p[0], T: p[1], Root: 1}, {Key: 1, ByKey: true, S: q[0], T: q[1], Root: 1}}})
			ops = append(ops, SOp{Kind: "atts", Ents: []Ent{{Key: 1, S: q[0], T: q[1], Root: 2}, {Key: 0, S: p[0], T: p[1], Root: 2}}})
		}
	}
	for _, p := range pairs {
		ops = append(ops, SOp{Kind: "atts", Ents: []Ent{{Key: 2, S: p[0], T: p[1], Root: 1}, {Key: 0, S: p[0], T: p[1], Root: 1}, {Key: 1, S: 1, T: 2, Root: 1}}})
	}
	return ops
}

// scatterPartition checks that util.Scatter hands out [0,n) exactly once.
func scatterPartition(n int) (string, bool) {
	seen := make([]int32, n)
	var mu sync.Mutex
	var parts [][2]int
	_, err := util.Scatter(n, func(offset, entries int, _ *sync.RWMutex) (any, error) {
		mu.Lock()
		parts = append(parts, [2]int{offset, entries})
		mu.Unlock()
		for i := offset; i < offset+entries; i++ {
			if i >= 0 && i < n {
				mu.Lock()
				seen[i]++
				mu.Unlock()
			}
		}
		return nil, nil
	})
	sort.Slice(parts, func(i, j int) bool { return parts[i][0] < parts[j][0] })
	desc := fmt.Sprint(parts)
	if err != nil {
		return desc + " err=" + err.Error(), false
	}
	pos := 0
	for _, p := range parts {
		if p[0] != pos || p[1] <= 0 {
			return desc, false
		}
		pos += p[1]
	}
	if pos != n {
		return desc, false
	}
	for _, c := range seen {
		if c != 1 {
			return desc, false
		}
	}
	return desc, true
}

// batchVsSingles runs a batch of n attestations with position-dependent data and prior state and compares with
// one-at-a-time submission on keys prepared identically.
func batchVsSingles(w *SigWorker, n int) (string, error) {
	// Prior state for key i: i%3==0 -> signed 0->1 ; i%3==1 -> signed 1->2 ; else nothing.
	// Batch entry i: i%2==0 -> (1->2) ; else (0->1).
	var prep []SOp
	batch := SOp{Kind: "atts"}
	for i := 0; i < n; i++ {
		switch i % 3 {
		case 0:
			prep = append(prep, SOp{Kind: "att", Ents: []Ent{{Key: i, S: 0, T: 1, Root: 1}}})
		case 1:
			prep = append(prep, SOp{Kind: "att", Ents: []Ent{{Key: i, S: 1, T: 2, Root: 1}}})
		}
		e := Ent{Key: i, ByKey: i%5 == 0, S: 0, T: 1, Root: 2}
		if i%2 == 0 {
			e.S, e.T = 1, 2
		}
		// Per-entry distinct data: vary the root by position.
		e.Root = 2 + i%7
		batch.Ents = append(batch.Ents, e)
	}
	saveKeys := w.NKeys
	w.NKeys = n
	defer func() { w.NKeys = saveKeys }()
	tr, err := w.Exec(append(append([]SOp{}, prep...), batch))
	if err != nil {
		return "", err
	}
	bstep := len(prep)
	singles := append([]SOp{}, prep...)
	for _, e := range batch.Ents {
		singles = append(singles, SOp{Kind: "att", Ents: []Ent{e}})
	}
	tr2, err := w.Exec(singles)
	if err != nil {
		return "", err
	}
	if want := fmt.Sprintf("len=%d", n); len(tr.Obs[bstep]) != n {
		return fmt.Sprintf("batch of %d returned observation %q (%s expected)", n, tr.Obs[bstep], want), nil
	}
	for i, e := range batch.Ents {
		b := releasedAt(tr.Released, bstep, e.Key, false)
		s := releasedAt(tr2.Released, bstep+i, e.Key, false)
		var wm model.Water
		switch i % 3 {
		case 0:
			wm.ApplyAtt(0, 1)
		case 1:
			wm.ApplyAtt(1, 2)
		}
		m := wm.ApproveAtt(e.S, e.T)
		if b != s {
			return fmt.Sprintf("n=%d position %d: batch signed=%v, alone signed=%v", n, i, b, s), nil
		}
		if m && !b {
			return fmt.Sprintf("n=%d position %d: advancing attestation %d->%d not signed in batch", n, i, e.S, e.T), nil
		}
	}
	return "", nil
}

// C09 checks completeness and batch/single equivalence.
func C09(tier string) int {
	run := ev.NewRun("C09", tier, "model_checking")
	E := []uint64{0, 1, 2, 3}
	depth := 3
	budget := 120 * time.Second
	sizes := []int{}
	procs := []int{1, 2, 3, 4, 8, 16}
	maxPart, maxPartProcs := 200, 16
	for n := 1; n <= 40; n++ {
		sizes = append(sizes, n)
	}
	sizes = append(sizes, 63, 64, 65, 127, 128, 129, 255, 256, 257, 300)
	if tier == "thorough" {
		E = []uint64{0, 1, 2, 3, 5, 1<<63 - 1}
		depth = 4
		budget = 15 * time.Minute
		sizes = nil
		for n := 1; n <= 300; n++ {
			sizes = append(sizes, n)
		}
		procs = nil
		for p := 1; p <= 16; p++ {
			procs = append(procs, p)
		}
		maxPart, maxPartProcs = 600, 32
	}
	ops := c09Ops(E, 2)
	st := newStats()
	onViol := func(path []SOp, v bfs.Viol) {
		run.Violate(v.Key, v.What, map[string]any{"check": "C09", "path": path, "path_text": pathStrings(path)})
	}
	r, err := bfs.Explore(bfs.Config[SOp]{
		NewWorker: func() (bfs.Worker[SOp], error) {
			w, err := NewSigWorker(3)
			if err != nil {
				return nil, err
			}
			// Batches arrive the way a client's do: through the gRPC handler (single requests go to the service).
			w.ViaHandler = true
			return &c09Worker{w: w}, nil
		},
		Ops: func(path []SOp) []SOp {
			if len(path) == 0 {
				// A history may begin with a record left by an older release (old record format): what advances
				// beyond it must be signed like anything else.
				all := append([]SOp{}, ops...)
				for _, st := range [][2]uint64{{0, 0}, {0, 1}, {1, 2}} {
					all = append(all, SOp{Kind: "legacy-att", Ents: []Ent{{Key: 0, S: st[0], T: st[1]}}})
				}
				for _, slot := range []uint64{0, 1} {
					all = append(all, SOp{Kind: "legacy-prop", Ents: []Ent{{Key: 0, Slot: slot}}})
				}
				return all
			}
			if hasRestart(path) {
				return ops
			}
			return append(append([]SOp{}, ops...), SOp{Kind: "restart"})
		},
		MaxDepth: depth, Budget: budget, OnViolation: onViol, OnTransition: st.onTransition,
	})
	if err != nil {
		run.HarnessErr = err
		return run.Finish()
	}
	// Scatter partition grid.
	oldProcs := runtime.GOMAXPROCS(0)
	partCells, partDistinct, partAnomalies := 0, map[string]bool{}, 0
	for p := 1; p <= maxPartProcs; p++ {
		runtime.GOMAXPROCS(p)
		for n := 1; n <= maxPart; n++ {
			desc, ok := scatterPartition(n)
			partCells++
			partDistinct[desc] = true
			if !ok {
				// Informational only: how the work is split is an implementation matter; what the property demands (equal
				// verdicts) is decided by the batch grid below.
				partAnomalies++
			}
		}
	}
	// Batch signer vs one at a time on the (n, procs) grid.
	w, err := NewSigWorker(3)
	if err != nil {
		run.HarnessErr = err
		return run.Finish()
	}
	w.Recycle = 1 << 30
	gridCells := 0
	for _, p := range procs {
		runtime.GOMAXPROCS(p)
		for _, n := range sizes {
			msg, err := batchVsSingles(w, n)
			if err != nil {
				run.HarnessErr = err
				w.Close()
				return run.Finish()
			}
			gridCells++
			if msg != "" {
				run.Violate(fmt.Sprintf("batch-grid:n=%d:procs=%d", n, p), fmt.Sprintf("GOMAXPROCS=%d: %s", p, msg), map[string]any{"check": "C09", "batch_grid": map[string]int{"n": n, "procs": p}})
			}
		}
	}
	w.Close()
	runtime.GOMAXPROCS(oldProcs)
	run.Coverage = map[string]any{
		"states":                        r.States,
		"transitions":                   r.Transitions,
		"traces_validated_against_impl": r.Transitions,
		"evaluations":                   r.Transitions + partCells + gridCells,
		"distinct_nontrivial":           r.States + len(partDistinct),
		"rule":                          "BFS over the real signer stack with the well-formed alphabet (2-3 keys, attestations, proposals, batches with distinct keys, restart); on every transition: whatever the sequential specification (computed from the signatures actually released) approves must have been signed; every batch is re-submitted one entry at a time in every order on a replay of the same state and the verdict vectors must agree; plus util.Scatter partition grid and batch-vs-single grid over (n, GOMAXPROCS)",
		"samples":                       st.samples.List(),
		"exhaustive":                    !r.BudgetHit,
		"bfs": map[string]any{"ops_per_state": len(ops) + 1, "epochs": fmtU(E), "depth_completed": r.DepthDone, "frontier_empty": r.FrontierEmpty, "cap": r.Capped, "states_by_depth": r.StatesByDepth,
			"approving_transitions": st.approvals, "refusing_transitions": st.refusals, "outcomes": st.outcomes},
		"scatter_partition_grid": map[string]any{"n": fmt.Sprintf("1..%d", maxPart), "gomaxprocs": fmt.Sprintf("1..%d", maxPartProcs), "cells": partCells, "distinct_partitions": len(partDistinct), "not_an_exact_partition": partAnomalies},
		"batch_grid":             map[string]any{"sizes": len(sizes), "gomaxprocs": procs, "cells": gridCells},
	}
	run.Assumptions = []string{"epochs outside the alphabet behave like their neighbours", "symbolic account keys stand in for BLS"}
	return run.Finish()
}

func init() {
	Registry["C09"] = C09
	Replayers["C09"] = func(raw json.RawMessage) int {
		var rp struct {
			Path []SOp `json:"path"`
		}
		if err := json.Unmarshal(raw, &rp); err != nil || len(rp.Path) == 0 {
			fmt.Println("this counterexample is a grid cell; re-run the check to reproduce it")
			return 2
		}
		sw, err := NewSigWorker(3)
		if err != nil {
			fmt.Println(err)
			return 2
		}
		sw.ViaHandler = true
		w := &c09Worker{w: sw}
		defer w.Close()
		out, err := w.Run(rp.Path)
		if err != nil {
			fmt.Println(err)
			return 2
		}
		for i, o := range rp.Path {
			fmt.Printf("  step %d: %-60s -> %s\n", i, o.String(), out.Obs[i])
		}
		for _, v := range out.Viol {
			fmt.Println("  VIOLATED:", v.What)
		}
		if len(out.Viol) > 0 {
			return 1
		}
		fmt.Println("  no violation on replay")
		return 0
	}
}
