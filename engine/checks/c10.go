package checks

import (
	"crypto/sha256"
	"encoding/binary"
	"encoding/hex"
	"encoding/json"
	"fmt"
	"math"
	"os"
	"path/filepath"
	"runtime"
	"strconv"
	"strings"
	"sync"
	"time"

	"verif/ev"
	"verif/rig"
)

// IEntry is one data entry of an interchange file (values are strings so that malformed numbers can be expressed).
type IEntry struct {
	// KeyFmt renders the public key of role Key differently: "" = 0x + lower case, "upper" = 0x + upper case,
	// "noprefix" = lower case without 0x, "upper-noprefix".
	KeyFmt string      `json:"key_fmt,omitempty"`
	Key    int         `json:"key"` // key role, or -1 with RawKey
	RawKey string      `json:"raw_key,omitempty"`
	Blocks []string    `json:"blocks,omitempty"`
	Atts   [][2]string `json:"atts,omitempty"`
}

// IFile describes an interchange file.
type IFile struct {
	Name    string   `json:"name"`
	Meta    string   `json:"meta"` // ok, version4, otherroot, missing
	Entries []IEntry `json:"entries"`
}

// Prior is the history of one key before the import: a proposal slot and an attestation, each optional.
type Prior struct {
	Slot int64 `json:"slot"`
	S    int64 `json:"s"`
	T    int64 `json:"t"`
}

// C10Cell is one explored cell.
type C10Cell struct {
	PriorA  Prior   `json:"prior_a"`
	PriorB  Prior   `json:"prior_b"`
	Imports []IFile `json:"imports"`
	// FailWrite (if > 0): the n-th write of a record to the store fails during the (first) import.
	FailWrite int `json:"fail_write,omitempty"`
	// Config says how the command finds the storage: "" = an absolute storage-path; "relative" = a storage-path relative
	// to the configuration directory; "default" = none configured (the built-in default below the configuration
	// directory); in the last two the command is started from some other directory.
	Config string `json:"config,omitempty"`
	// LegacyPrior: the prior history of the keys is held in records of the old (gob) format, as left by an older release.
	LegacyPrior bool `json:"legacy_prior,omitempty"`
}

func (f IFile) render(pubs []string) []byte {
	type blk struct {
		Slot string `json:"slot"`
	}
	type att struct {
		S string `json:"source_epoch"`
		T string `json:"target_epoch"`
	}
	type ent struct {
		PubKey string `json:"pubkey"`
		Blocks []blk  `json:"signed_blocks,omitempty"`
		Atts   []att  `json:"signed_attestations,omitempty"`
	}
	type meta struct {
		V   string `json:"interchange_format_version"`
		GVR string `json:"genesis_validators_root"`
	}
	out := struct {
		Metadata *meta `json:"metadata,omitempty"`
		Data     []ent `json:"data"`
	}{}
	switch f.Meta {
	case "ok":
		out.Metadata = &meta{"5", rig.GVR}
	case "version4":
		out.Metadata = &meta{"4", rig.GVR}
	case "otherroot":
		out.Metadata = &meta{"5", rig.OtherGVR}
	case "otherroot-lastbyte":
		out.Metadata = &meta{"5", rig.GVR[:len(rig.GVR)-1] + "4"}
	case "otherroot-short":
		out.Metadata = &meta{"5", rig.GVR[:len(rig.GVR)-2]}
	case "otherroot-empty":
		out.Metadata = &meta{"5", ""}
	case "version-empty":
		out.Metadata = &meta{"", rig.GVR}
	case "version-05":
		out.Metadata = &meta{"05", rig.GVR}
	case "missing":
	}
	for _, e := range f.Entries {
		en := ent{}
		if e.Key >= 0 {
			en.PubKey = pubs[e.Key]
			switch e.KeyFmt {
			case "upper":
				en.PubKey = "0x" + strings.ToUpper(strings.TrimPrefix(en.PubKey, "0x"))
			case "noprefix":
				en.PubKey = strings.TrimPrefix(en.PubKey, "0x")
			case "upper-noprefix":
				en.PubKey = strings.ToUpper(strings.TrimPrefix(en.PubKey, "0x"))
			}
		} else {
			en.PubKey = e.RawKey
		}
		for _, b := range e.Blocks {
			en.Blocks = append(en.Blocks, blk{b})
		}
		for _, a := range e.Atts {
			en.Atts = append(en.Atts, att{a[0], a[1]})
		}
		out.Data = append(out.Data, en)
	}
	b, _ := json.Marshal(out)
	return b
}

func maxi(a, b int64) int64 {
	if a > b {
		return a
	}
	return b
}

// fileMaxima returns, for a key role, the highest slot/source/target that appear in the file (-1 if none).
// Unparsable values do not count; values above MaxInt64 count as MaxInt64; negative values do not constrain anything.
func fileMaxima(f IFile, key int) Prior {
	p := Prior{-1, -1, -1}
	num := func(s string) (int64, bool) {
		if v, err := strconv.ParseUint(s, 10, 64); err == nil {
			if v > math.MaxInt64 {
				return math.MaxInt64, true
			}
			return int64(v), true
		}
		return 0, false
	}
	for _, e := range f.Entries {
		if e.Key != key {
			continue
		}
		for _, b := range e.Blocks {
			if v, ok := num(b); ok {
				p.Slot = maxi(p.Slot, v)
			}
		}
		for _, a := range e.Atts {
			if v, ok := num(a[0]); ok {
				p.S = maxi(p.S, v)
			}
			if v, ok := num(a[1]); ok {
				p.T = maxi(p.T, v)
			}
		}
	}
	return p
}

// c10Many imports files with hundreds of keys (one of them with blocks only, so that the number of records is odd with
// respect to any even-sized buffer) and reads back the record of every key: each must hold what the file states.
func c10Many(run *ev.Run, sizes []int) (int, error) {
	checked := 0
	for _, priorMode := range []string{"none", "all", "alternating"} {
		withPrior := priorMode != "none"
		for _, n := range sizes {
			root := rig.Scratch("c10many")
			w, err := NewSigWorkerOn(filepath.Join(root, "storage"), 2)
			if err != nil {
				os.RemoveAll(root)
				return checked, err
			}
			f := IFile{Name: fmt.Sprintf("many:%d-keys", n), Meta: "ok"}
			var keys [][]byte
			for i := 0; i < n; i++ {
				k := make([]byte, 48)
				h := sha256.Sum256([]byte(fmt.Sprintf("c10-many-%d-%d", n, i)))
				copy(k, h[:])
				copy(k[32:], h[:16])
				keys = append(keys, k)
				e := IEntry{Key: -1, RawKey: "0x" + hex.EncodeToString(k), Blocks: []string{fmt.Sprint(100 + i)}}
				if i != 0 {
					e.Atts = [][2]string{{fmt.Sprint(10 + i), fmt.Sprint(20 + i)}}
				}
				f.Entries = append(f.Entries, e)
			}
			// With a history of its own for every key (values scattered around the file's): the import merges with a store
			// that already holds two records per key.
			prior := func(i int) (slot, as, at int64) {
				h := sha256.Sum256([]byte(fmt.Sprintf("c10-prior-%d", i)))
				return 40 + int64(i) + int64(h[0])%120, int64(i) + int64(h[1])%20, 15 + int64(i) + int64(h[2])%20
			}
			// "alternating": only the keys at even positions of the file have a history here, and it lies beyond what the
			// file states for them (their entries add nothing); the keys between them are new to this instance.
			if priorMode == "alternating" {
				prior = func(i int) (slot, as, at int64) {
					if i%2 == 1 {
						return -1, -1, -1
					}
					return 1000 + int64(i), 500 + int64(i), 600 + int64(i)
				}
			}
			if withPrior {
				for i, k := range keys {
					ps, pas, pat := prior(i)
					if ps < 0 {
						continue
					}
					pr := make([]byte, 9)
					pr[0] = 1
					binary.LittleEndian.PutUint64(pr[1:], uint64(ps))
					ar := make([]byte, 17)
					ar[0] = 1
					binary.LittleEndian.PutUint64(ar[1:9], uint64(pas))
					binary.LittleEndian.PutUint64(ar[9:17], uint64(pat))
					if err := w.Rig.Rules.VerifRawPut(w.Rig.Ctx, append(append([]byte{}, k...), 0x03), pr); err != nil {
						return checked, err
					}
					if err := w.Rig.Rules.VerifRawPut(w.Rig.Ctx, append(append([]byte{}, k...), 0x02), ar); err != nil {
						return checked, err
					}
				}
			}
			if err := w.Rig.StopStore(); err != nil {
				w.Close()
				os.RemoveAll(root)
				return checked, err
			}
			file := filepath.Join(root, "many.json")
			_ = os.WriteFile(file, f.render(nil), 0o600)
			code, _, se, err := rig.CLI(w.Rig.Dir, "--import-slashing-protection", "--genesis-validators-root", rig.GVR, "--slashing-protection-file", file)
			if err == nil {
				err = w.Rig.StartStore()
			}
			if err != nil {
				w.Close()
				os.RemoveAll(root)
				return checked, err
			}
			if code == 0 {
				for i, k := range keys {
					checked++
					_, slot, _ := w.Rig.PropRecord(k)
					_, as, at, _ := w.Rig.AttRecord(k)
					wantSlot, wantS, wantT := int64(100+i), int64(10+i), int64(20+i)
					if i == 0 {
						wantS, wantT = -1, -1
					}
					own := ""
					if withPrior {
						ps, pas, pat := prior(i)
						wantSlot, wantS, wantT = maxi(wantSlot, ps), maxi(wantS, pas), maxi(wantT, pat)
						own = fmt.Sprintf(" and the instance's own history slot %d, attestation %d->%d", ps, pas, pat)
					}
					if slot < wantSlot || as < wantS || at < wantT {
						run.Violate(fmt.Sprintf("many-keys-unprotected:n=%d:prior=%s", n, priorMode),
							fmt.Sprintf("import of %d keys reported success; the file states slot %d, attestation %d->%d for key #%d%s, the store holds slot %d, attestation %d->%d", n, 100+i, 10+i, 20+i, i, own, slot, as, at),
							map[string]any{"check": "C10", "many_keys": n, "key_index": i, "prior": priorMode})
						break
					}
				}
			} else {
				run.Violate(fmt.Sprintf("many-keys-refused:n=%d", n), fmt.Sprintf("import of a well-formed file with %d keys failed (exit %d): %s", n, code, firstWords(se, 30)), map[string]any{"check": "C10", "many_keys": n})
			}
			w.Close()
			os.RemoveAll(root)
		}
	}
	return checked, nil
}

func c10Files(tier string) []IFile {
	blocks := [][]string{nil, {"3"}, {"7"}, {"12"}, {"3", "12"}}
	atts := [][][2]string{nil, {{"1", "4"}}, {{"3", "12"}}, {{"6", "7"}}, {{"1", "12"}, {"6", "7"}}}
	var fs []IFile
	bEntry := IEntry{Key: 1, Blocks: []string{"7"}, Atts: [][2]string{{"3", "7"}}}
	for bi, b := range blocks {
		for ai, a := range atts {
			if b == nil && a == nil {
				continue
			}
			fs = append(fs, IFile{Name: fmt.Sprintf("A:b%d:a%d", bi, ai), Meta: "ok", Entries: []IEntry{{Key: 0, Blocks: b, Atts: a}}})
			if tier == "thorough" || (bi+ai)%2 == 0 {
				fs = append(fs, IFile{Name: fmt.Sprintf("A:b%d:a%d+B", bi, ai), Meta: "ok", Entries: []IEntry{bEntry, {Key: 0, Blocks: b, Atts: a}}})
			}
		}
	}
	// The same key in two entries.
	fs = append(fs,
		IFile{Name: "dup:blocks-then-atts", Meta: "ok", Entries: []IEntry{{Key: 0, Blocks: []string{"12"}}, {Key: 0, Atts: [][2]string{{"6", "12"}}}}},
		IFile{Name: "dup:atts-then-blocks", Meta: "ok", Entries: []IEntry{{Key: 0, Atts: [][2]string{{"6", "12"}}}, {Key: 0, Blocks: []string{"12"}}}},
		IFile{Name: "dup:high-then-low", Meta: "ok", Entries: []IEntry{{Key: 0, Blocks: []string{"12"}, Atts: [][2]string{{"6", "12"}}}, {Key: 0, Blocks: []string{"3"}, Atts: [][2]string{{"1", "4"}}}}},
		IFile{Name: "dup:low-then-high", Meta: "ok", Entries: []IEntry{{Key: 0, Blocks: []string{"3"}, Atts: [][2]string{{"1", "4"}}}, {Key: 0, Blocks: []string{"12"}, Atts: [][2]string{{"6", "12"}}}}},
		IFile{Name: "dup:crossed", Meta: "ok", Entries: []IEntry{{Key: 0, Blocks: []string{"12"}, Atts: [][2]string{{"1", "4"}}}, bEntry, {Key: 0, Blocks: []string{"3"}, Atts: [][2]string{{"6", "12"}}}}},
		IFile{Name: "empty-data", Meta: "ok"},
		IFile{Name: "keyfmt:upper", Meta: "ok", Entries: []IEntry{{Key: 0, KeyFmt: "upper", Blocks: []string{"12"}, Atts: [][2]string{{"6", "12"}}}}},
		IFile{Name: "keyfmt:noprefix", Meta: "ok", Entries: []IEntry{{Key: 0, KeyFmt: "noprefix", Blocks: []string{"12"}, Atts: [][2]string{{"6", "12"}}}}},
		IFile{Name: "keyfmt:upper-noprefix+dup", Meta: "ok", Entries: []IEntry{{Key: 0, KeyFmt: "upper-noprefix", Blocks: []string{"12"}}, {Key: 0, Atts: [][2]string{{"6", "12"}}}}},
		IFile{Name: "many-atts", Meta: "ok", Entries: []IEntry{{Key: 0, Atts: [][2]string{{"1", "2"}, {"8", "9"}, {"2", "13"}, {"3", "4"}}, Blocks: []string{"1", "11", "2"}}}},
		IFile{Name: "only-B", Meta: "ok", Entries: []IEntry{bEntry}},
		// The lowest legal values (slot 0, the genesis attestation 0->0, source 0).
		IFile{Name: "zero:block0", Meta: "ok", Entries: []IEntry{{Key: 0, Blocks: []string{"0"}}}},
		IFile{Name: "zero:att0-0", Meta: "ok", Entries: []IEntry{{Key: 0, Atts: [][2]string{{"0", "0"}}}}},
		IFile{Name: "zero:att0-5", Meta: "ok", Entries: []IEntry{{Key: 0, Atts: [][2]string{{"0", "5"}}}}},
		IFile{Name: "zero:block0+att0-5", Meta: "ok", Entries: []IEntry{{Key: 0, Blocks: []string{"0"}, Atts: [][2]string{{"0", "5"}}}}},
		IFile{Name: "zero:block0+att0-0+B", Meta: "ok", Entries: []IEntry{bEntry, {Key: 0, Blocks: []string{"0"}, Atts: [][2]string{{"0", "0"}}}}},
		IFile{Name: "zero:block7+att0-0", Meta: "ok", Entries: []IEntry{{Key: 0, Blocks: []string{"7"}, Atts: [][2]string{{"0", "0"}}}}},
		// Decimal numbers written with leading zeros (they are still decimal: 0100 is one hundred).
		IFile{Name: "pad:block0100", Meta: "ok", Entries: []IEntry{{Key: 0, Blocks: []string{"0100"}}}},
		IFile{Name: "pad:att010-0100", Meta: "ok", Entries: []IEntry{{Key: 0, Atts: [][2]string{{"010", "0100"}}}}},
		IFile{Name: "pad:block012+att07-011+B", Meta: "ok", Entries: []IEntry{bEntry, {Key: 0, Blocks: []string{"012"}, Atts: [][2]string{{"07", "011"}}}}},
	)
	// Wrong metadata.
	full := []IEntry{{Key: 0, Blocks: []string{"12"}, Atts: [][2]string{{"6", "12"}}}, bEntry}
	for _, m := range []string{"version4", "otherroot", "missing", "otherroot-lastbyte", "otherroot-short", "otherroot-empty", "version-empty", "version-05"} {
		fs = append(fs, IFile{Name: "meta:" + m, Meta: m, Entries: full})
	}
	// Malformed values.
	fs = append(fs,
		IFile{Name: "bad:slot-nonnumeric", Meta: "ok", Entries: []IEntry{bEntry, {Key: 0, Blocks: []string{"x12"}, Atts: [][2]string{{"6", "12"}}}}},
		IFile{Name: "bad:slot-negative", Meta: "ok", Entries: []IEntry{{Key: 0, Blocks: []string{"-3"}, Atts: [][2]string{{"6", "12"}}}}},
		IFile{Name: "bad:source-negative", Meta: "ok", Entries: []IEntry{{Key: 0, Atts: [][2]string{{"-1", "12"}}}}},
		IFile{Name: "bad:target-2^63", Meta: "ok", Entries: []IEntry{{Key: 0, Atts: [][2]string{{"6", "9223372036854775808"}}}}},
		IFile{Name: "bad:slot-2^63", Meta: "ok", Entries: []IEntry{{Key: 0, Blocks: []string{"9223372036854775808"}}}},
		IFile{Name: "bad:hex-key", Meta: "ok", Entries: []IEntry{{Key: 0, Blocks: []string{"12"}}, {Key: -1, RawKey: "0xzz", Blocks: []string{"1"}}}},
		IFile{Name: "bad:empty-numbers", Meta: "ok", Entries: []IEntry{{Key: 0, Blocks: []string{""}, Atts: [][2]string{{"", ""}}}}},
	)
	return fs
}

func c10Priors() []Prior {
	var ps []Prior
	for _, slot := range []int64{-1, 5, 9} {
		for _, st := range [][2]int64{{-1, -1}, {2, 5}, {4, 9}} {
			ps = append(ps, Prior{slot, st[0], st[1]})
		}
	}
	return ps
}

type c10Result struct {
	viols   []struct{ key, what string }
	outcome string
}

func decRec(w *SigWorker, a *rig.Acct) Prior {
	_, s, t, _ := w.Rig.AttRecord(a.PubBytes())
	_, slot, _ := w.Rig.PropRecord(a.PubBytes())
	return Prior{slot, s, t}
}

// c10Run executes one cell on the real code: prior history by real signing, import(s) by the real binary, probes.
func C10Run(cell C10Cell) (c10Result, error) { return c10Run(cell) }
func c10Run(cell C10Cell) (c10Result, error) {
	var res c10Result
	add := func(key, what string) {
		res.viols = append(res.viols, struct{ key, what string }{key, what})
	}
	root := rig.Scratch("c10")
	defer os.RemoveAll(root)
	w, err := NewSigWorkerOn(filepath.Join(root, "storage"), 2)
	if err != nil {
		return res, err
	}
	defer w.Close()
	var prep []SOp
	for k, p := range []Prior{cell.PriorA, cell.PriorB} {
		propKind, attKind := "prop", "att"
		if cell.LegacyPrior {
			propKind, attKind = "legacy-prop", "legacy-att"
		}
		if p.Slot >= 0 {
			prep = append(prep, SOp{Kind: propKind, Ents: []Ent{{Key: k, Slot: uint64(p.Slot), Root: 1}}})
		}
		if p.T >= 0 {
			prep = append(prep, SOp{Kind: attKind, Ents: []Ent{{Key: k, S: uint64(p.S), T: uint64(p.T), Root: 1}}})
		}
	}
	tr, err := w.Exec(prep)
	if err != nil {
		return res, err
	}
	for i, o := range tr.Obs {
		if o != "S" && !(cell.LegacyPrior && o == "ok") {
			return res, fmt.Errorf("prior history step %d not signed: %s", i, o)
		}
	}
	pubs := []string{"0x" + hex.EncodeToString(w.Accts[0].PubBytes()), "0x" + hex.EncodeToString(w.Accts[1].PubBytes())}
	own := []Prior{cell.PriorA, cell.PriorB}
	need := []Prior{cell.PriorA, cell.PriorB} // protection that must hold after the imports
	var outcomes []string
	for fi, f := range cell.Imports {
		before := []Prior{decRec(w, w.Accts[0]), decRec(w, w.Accts[1])}
		if err := w.Rig.StopStore(); err != nil {
			return res, err
		}
		file := filepath.Join(root, fmt.Sprintf("import%d.json", fi))
		if err := os.WriteFile(file, f.render(pubs), 0o600); err != nil {
			return res, err
		}
		var env []string
		if cell.FailWrite > 0 && fi == 0 {
			env = []string{fmt.Sprintf("VERIF_HOOK_FAIL=store.store#%d", cell.FailWrite)}
		}
		importArgs := []string{"--import-slashing-protection", "--genesis-validators-root", rig.GVR, "--slashing-protection-file", file}
		var code int
		var so, se string
		switch cell.Config {
		case "relative", "default":
			// The daemon's storage is <configuration directory>/storage, which is what w runs on.
			elsewhere := filepath.Join(root, "elsewhere")
			if err := os.MkdirAll(elsewhere, 0o700); err != nil {
				return res, err
			}
			sp := ""
			if cell.Config == "relative" {
				sp = "storage"
			}
			code, so, se, err = rig.CLIConfigured(env, root, sp, elsewhere, importArgs...)
		default:
			code, so, se, err = rig.CLIWithEnv(env, w.Rig.Dir, importArgs...)
		}
		if err != nil {
			return res, err
		}
		if err := w.Rig.StartStore(); err != nil {
			return res, fmt.Errorf("store does not reopen after import %s: %w (stdout %q stderr %q)", f.Name, err, so, se)
		}
		outcomes = append(outcomes, fmt.Sprintf("exit%d", code))
		after := []Prior{decRec(w, w.Accts[0]), decRec(w, w.Accts[1])}
		for k := range after {
			if after[k].Slot < before[k].Slot || after[k].S < before[k].S || after[k].T < before[k].T {
				add(fmt.Sprintf("record-lowered:%s:prior=%v", f.Name, own[k]), fmt.Sprintf("import of %s (exit %d) lowered the record of key %c from %+v to %+v", f.Name, code, 'A'+k, before[k], after[k]))
			}
		}
		if f.Meta != "ok" {
			if code == 0 {
				add("wrong-metadata-accepted:"+f.Meta, fmt.Sprintf("file with metadata %q was imported with exit 0", f.Meta))
			}
			if fmt.Sprint(before) != fmt.Sprint(after) {
				add("wrong-metadata-changed-state:"+f.Meta, fmt.Sprintf("file with metadata %q changed records from %v to %v", f.Meta, before, after))
			}
			continue
		}
		if code == 0 {
			for k := range need {
				m := fileMaxima(f, k)
				need[k] = Prior{maxi(need[k].Slot, m.Slot), maxi(need[k].S, m.S), maxi(need[k].T, m.T)}
			}
		}
	}
	res.outcome = strings.Join(outcomes, ",")
	// Probes: everything at or below the required protection must be refused.
	for k := range need {
		n := need[k]
		var probes []SOp
		if n.Slot >= 0 {
			for _, s := range []int64{n.Slot, n.Slot - 1, 0} {
				if s >= 0 {
					probes = append(probes, SOp{Kind: "prop", Ents: []Ent{{Key: k, Slot: uint64(s), Root: 7}}})
				}
			}
		}
		if n.T >= 0 {
			// target at or below the highest target
			for _, t := range []int64{n.T, n.T - 1} {
				for _, s := range []int64{maxi(n.S, 0), 0, t - 1} {
					if t >= 0 && s >= 0 && (s < t || (s == 0 && t == 0)) {
						probes = append(probes, SOp{Kind: "att", Ents: []Ent{{Key: k, S: uint64(s), T: uint64(t), Root: 7}}})
					}
				}
			}
		}
		if n.S > 0 && n.T < math.MaxInt64-2 {
			// source below the highest source, target above everything
			probes = append(probes, SOp{Kind: "att", Ents: []Ent{{Key: k, S: uint64(n.S - 1), T: uint64(maxi(n.T, n.S) + 2), Root: 7}}})
		}
		for _, p := range probes {
			ptr := &Trace{}
			if err := w.Continue(ptr, []SOp{p}, false); err != nil {
				return res, err
			}
			if len(ptr.Released) > 0 {
				var names []string
				for _, f := range cell.Imports {
					names = append(names, f.Name)
				}
				add(fmt.Sprintf("unprotected:%s:prior=%v:probe=%s", strings.Join(names, "+"), own[k], p.String()[:4]),
					fmt.Sprintf("prior history of key %c %+v, imports %v (%s): protection required up to %+v but %s was signed", 'A'+k, own[k], names, res.outcome, n, p.String()))
				break
			}
		}
	}
	return res, nil
}

// C10 explores (prior state x interchange file) through the real binary.
func C10(tier string) int {
	run := ev.NewRun("C10", tier, "model_checking")
	if _, err := rig.DirkBin(); err != nil {
		run.HarnessErr = err
		return run.Finish()
	}
	files := c10Files(tier)
	priors := c10Priors()
	priorB := Prior{5, 2, 5}
	var cells []C10Cell
	for _, p := range priors {
		for _, f := range files {
			cells = append(cells, C10Cell{PriorA: p, PriorB: priorB, Imports: []IFile{f}})
		}
	}
	// Sequences of two imports.
	seqFiles := files
	if tier != "thorough" {
		seqFiles = nil
		for i, f := range files {
			if i%5 == 0 || strings.HasPrefix(f.Name, "dup") || strings.HasPrefix(f.Name, "meta:o") {
				seqFiles = append(seqFiles, f)
			}
		}
	}
	for pi, p := range priors {
		if tier != "thorough" && pi%4 != 0 {
			continue
		}
		for _, f := range seqFiles {
			for _, g := range seqFiles {
				cells = append(cells, C10Cell{PriorA: p, PriorB: priorB, Imports: []IFile{f, g}})
			}
		}
	}
	// The instance's own history is held in records of the old format (an older release wrote them, nothing was signed
	// since): an import must merge with it like with any other history.
	for _, p := range priors {
		if p.Slot < 0 && p.T < 0 {
			continue
		}
		for i, f := range files {
			if tier == "thorough" || i%3 == 0 {
				cells = append(cells, C10Cell{PriorA: p, PriorB: priorB, Imports: []IFile{f}, LegacyPrior: true})
			}
		}
	}
	// The storage is found through the configuration directory (a relative storage-path, or none at all) and the command
	// is started from another directory: what is imported must protect the instance that runs on that configuration.
	for _, cfg := range []string{"relative", "default"} {
		for pi, p := range priors {
			if pi%4 != 0 {
				continue
			}
			for i, f := range files {
				if tier == "thorough" || i%5 == 0 {
					cells = append(cells, C10Cell{PriorA: p, PriorB: priorB, Imports: []IFile{f}, Config: cfg})
				}
			}
		}
	}
	// A write of a record fails during the import (each of the first writes in turn): either the import reports failure,
	// or everything in the file is protected afterwards; nothing is lowered in either case.
	failing := 0
	for _, f := range files {
		two := false
		for _, e := range f.Entries {
			if len(e.Blocks) > 0 && len(e.Atts) > 0 {
				two = true
			}
		}
		if !two || f.Meta != "ok" || strings.HasPrefix(f.Name, "bad:") {
			continue
		}
		for n := 1; n <= 4; n++ {
			for pi, p := range priors {
				if pi == 0 || (tier == "thorough" && pi%3 == 0) {
					cells = append(cells, C10Cell{PriorA: p, PriorB: priorB, Imports: []IFile{f}, FailWrite: n})
					failing++
				}
			}
		}
	}
	budget := 150 * time.Second
	if tier == "thorough" {
		budget = 15 * time.Minute
	}
	deadline := time.Now().Add(budget)
	var mu sync.Mutex
	next, done := 0, 0
	var firstErr error
	outcomes := map[string]int{}
	samples := ev.NewSamples(5)
	capped := false
	var wg sync.WaitGroup
	for i := 0; i < runtime.NumCPU(); i++ {
		wg.Add(1)
		go func() {
			defer wg.Done()
			for {
				mu.Lock()
				if next >= len(cells) || firstErr != nil || time.Now().After(deadline) {
					if next < len(cells) && firstErr == nil {
						capped = true
					}
					mu.Unlock()
					return
				}
				c := cells[next]
				next++
				mu.Unlock()
				r, err := c10Run(c)
				mu.Lock()
				done++
				if err != nil && firstErr == nil {
					firstErr = err
				}
				outcomes[r.outcome]++
				if done%97 == 1 {
					samples.Add(map[string]any{"cell": c, "exit_codes": r.outcome})
				}
				for _, v := range r.viols {
					run.Violate(v.key, v.what, map[string]any{"check": "C10", "cell": c})
				}
				mu.Unlock()
			}
		}()
	}
	wg.Wait()
	if firstErr != nil {
		run.HarnessErr = firstErr
		return run.Finish()
	}
	manySizes := []int{129, 300}
	if tier == "thorough" {
		manySizes = []int{65, 128, 129, 257, 513, 1025, 2000}
	}
	manyChecked, err := c10Many(run, manySizes)
	if err != nil {
		run.HarnessErr = err
		return run.Finish()
	}
	run.Coverage = map[string]any{
		"keys_read_back_after_large_imports": manyChecked,
		"cells_with_a_failing_write":         failing,
		"states":                             len(priors) * 1,
		"transitions":                        done,
		"traces_validated_against_impl":      done,
		"evaluations":                        done,
		"distinct_nontrivial":                len(cells),
		"rule":                               "each cell = prior per-key history made by real signing x one or two interchange files (plus files with hundreds of keys, after which the record of every key is read back; for files with blocks and attestations for a key also with the n-th record write failing, n = 1..4, injected through the hook of the real binary; incl. files whose values are the lowest legal ones: slot 0, attestation 0->0, source 0) imported by the real `dirk --import-slashing-protection` binary built from the tree; afterwards the store is reopened and probed: every proposal at or below the highest own/file slot and every attestation at or below the highest own/file target or below the highest own/file source must be refused; no decoded record may decrease; wrong metadata must give a non-zero exit and unchanged records",
		"samples":                            samples.List(),
		"exhaustive":                         !capped,
		"prior_states":                       len(priors),
		"files":                              len(files),
		"cells":                              len(cells),
		"cells_done":                         done,
		"exit_code_vectors":                  outcomes,
	}
	run.Assumptions = []string{"slot/epoch values outside the alphabet behave like their neighbours", "negative numbers in a file constrain nothing"}
	return run.Finish()
}

func init() {
	Registry["C10"] = C10
	Replayers["C10"] = func(raw json.RawMessage) int {
		var rp struct {
			Cell C10Cell `json:"cell"`
		}
		if err := json.Unmarshal(raw, &rp); err != nil {
			fmt.Println(err)
			return 2
		}
		r, err := c10Run(rp.Cell)
		if err != nil {
			fmt.Println(err)
			return 2
		}
		fmt.Println("  exit codes:", r.outcome)
		for _, v := range r.viols {
			fmt.Println("  VIOLATED:", v.what)
		}
		if len(r.viols) > 0 {
			return 1
		}
		fmt.Println("  no violation on replay")
		return 0
	}
}
