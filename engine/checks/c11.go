package checks

import (
	"bytes"
	"encoding/gob"
	"encoding/hex"
	"encoding/json"
	"fmt"
	"os"
	"path/filepath"
	"runtime"
	"sort"
	"strconv"
	"strings"
	"sync"
	"time"

	"verif/bfs"
	"verif/ev"
	"verif/rig"
)

type interchange struct {
	Metadata *struct {
		Version string `json:"interchange_format_version"`
		GVR     string `json:"genesis_validators_root"`
	} `json:"metadata"`
	Data []struct {
		PubKey string `json:"pubkey"`
		Blocks []struct {
			Slot string `json:"slot"`
		} `json:"signed_blocks"`
		Atts []struct {
			S string `json:"source_epoch"`
			T string `json:"target_epoch"`
		} `json:"signed_attestations"`
	} `json:"data"`
}

// ascending probe sequence over a sorted value alphabet: attestations by (target, source), then proposals by slot.
func probeSeq(key int, V []uint64) []SOp {
	var ops []SOp
	for _, t := range V {
		for _, s := range V {
			if s <= t {
				ops = append(ops, SOp{Kind: "att", Ents: []Ent{{Key: key, S: s, T: t, Root: 9}}})
			}
		}
	}
	for _, slot := range V {
		ops = append(ops, SOp{Kind: "prop", Ents: []Ent{{Key: key, Slot: slot, Root: 9}}})
	}
	return ops
}

func probeAll(w *SigWorker, nkeys int, V []uint64) (string, error) {
	tr := &Trace{}
	for k := 0; k < nkeys; k++ {
		if err := w.Continue(tr, probeSeq(k, V), false); err != nil {
			return "", err
		}
	}
	return strings.Join(tr.Obs, ""), nil
}

type c11State struct {
	path []SOp
}

// c11Procedure runs the export/import/restart comparison for one state; returns violations.
func c11Procedure(path []SOp, V []uint64) ([]bfs.Viol, error) {
	return c11ProcedureF(path, V, 0)
}

// c11ProcedureF is c11Procedure; with faults > 0 the export is also imported into faults further empty instances, during
// each of which one write of a record (the first, the second, ...) fails: an import that reports success must have
// imported everything.
func c11ProcedureF(path []SOp, V []uint64, faults int) ([]bfs.Viol, error) {
	var vs []bfs.Viol
	root := rig.Scratch("c11")
	defer os.RemoveAll(root)
	pt := strings.Join(pathStrings(path), "; ")
	// Baseline N: path then probes, never closed.
	wn, err := NewSigWorkerOn(filepath.Join(root, "n"), 2)
	if err != nil {
		return nil, err
	}
	defer wn.Close()
	if _, err := wn.Exec(path); err != nil {
		return nil, err
	}
	probesN, err := probeAll(wn, 2, V)
	if err != nil {
		return nil, err
	}
	// A: path, clean shutdown, CLI export, restart, probes.
	wa, err := NewSigWorkerOn(filepath.Join(root, "a"), 2)
	if err != nil {
		return nil, err
	}
	defer wa.Close()
	tr, err := wa.Exec(path)
	if err != nil {
		return nil, err
	}
	if err := wa.Rig.StopStore(); err != nil {
		return nil, err
	}
	file := filepath.Join(root, "export.json")
	code, so, se, err := rig.CLI(wa.Rig.Dir, "--export-slashing-protection", "--genesis-validators-root", rig.GVR, "--slashing-protection-file", file)
	if err != nil {
		return nil, err
	}
	if code != 0 {
		vs = append(vs, bfs.Viol{Key: "export-failed:" + pt, What: fmt.Sprintf("export after [%s] exits %d: %s %s", pt, code, so, se)})
		return vs, wa.Rig.StartStore()
	}
	raw, err := os.ReadFile(file)
	if err != nil {
		return nil, err
	}
	var ic interchange
	if err := json.Unmarshal(raw, &ic); err != nil {
		vs = append(vs, bfs.Viol{Key: "export-unparsable:" + pt, What: fmt.Sprintf("export after [%s] is not valid JSON: %v", pt, err)})
	}
	// (a) exactness.
	for k, a := range wa.Accts {
		w := waterOf(tr.Released, k, 1<<30)
		pk := "0x" + hex.EncodeToString(a.PubBytes())
		var found bool
		for _, d := range ic.Data {
			if strings.EqualFold(d.PubKey, pk) {
				found = true
				mxSlot, mxS, mxT := int64(-1), int64(-1), int64(-1)
				for _, b := range d.Blocks {
					v, _ := strconv.ParseInt(b.Slot, 10, 64)
					if v > mxSlot {
						mxSlot = v
					}
				}
				for _, at := range d.Atts {
					v, _ := strconv.ParseInt(at.S, 10, 64)
					if v > mxS {
						mxS = v
					}
					v, _ = strconv.ParseInt(at.T, 10, 64)
					if v > mxT {
						mxT = v
					}
				}
				wantSlot, wantS, wantT := int64(-1), int64(-1), int64(-1)
				if w.HasProp {
					wantSlot = int64(w.MaxSlot)
				}
				if w.HasAtt {
					wantS, wantT = int64(w.MaxS), int64(w.MaxT)
				}
				if mxSlot != wantSlot || mxS != wantS || mxT != wantT {
					vs = append(vs, bfs.Viol{Key: fmt.Sprintf("export-inexact:slot=%d/%d:src=%d/%d:tgt=%d/%d", mxSlot, wantSlot, mxS, wantS, mxT, wantT),
						What: fmt.Sprintf("after [%s] export states slot %d source %d target %d for key %c, signed maxima are slot %d source %d target %d", pt, mxSlot, mxS, mxT, 'A'+k, wantSlot, wantS, wantT)})
				}
			}
		}
		if !found && (w.HasAtt || w.HasProp) {
			vs = append(vs, bfs.Viol{Key: "export-missing-key:" + pt, What: fmt.Sprintf("after [%s] export has no entry for key %c which has signed", pt, 'A'+k)})
		}
	}
	// (b) import into an empty instance.
	dirB := filepath.Join(root, "b")
	code, so, se, err = rig.CLI(dirB, "--import-slashing-protection", "--genesis-validators-root", rig.GVR, "--slashing-protection-file", file)
	if err != nil {
		return nil, err
	}
	if code != 0 {
		vs = append(vs, bfs.Viol{Key: "reimport-failed:" + pt, What: fmt.Sprintf("importing the export of [%s] into an empty instance exits %d: %s %s", pt, code, so, se)})
	} else {
		wb, err := NewSigWorkerOn(dirB, 2)
		if err != nil {
			return nil, err
		}
		defer wb.Close()
		wb.Accts = wa.Accts
		for _, a := range wa.Accts {
			wb.Rig.Adopt("Wallet 1", a)
		}
		probesB, err := probeAll(wb, 2, V)
		if err != nil {
			return nil, err
		}
		if probesB != probesN {
			vs = append(vs, bfs.Viol{Key: "reimport-differs:" + CanonReleased(tr.Released, 0, 1), What: fmt.Sprintf("after [%s], export+import into an empty instance decides the ascending probe sequence %s, the original decides %s", pt, probesB, probesN)})
		}
	}
	for n := 1; n <= faults; n++ {
		dirF := filepath.Join(root, fmt.Sprintf("f%d", n))
		code, _, _, err := rig.CLIWithEnv([]string{fmt.Sprintf("VERIF_HOOK_FAIL=store.store#%d", n)}, dirF, "--import-slashing-protection", "--genesis-validators-root", rig.GVR, "--slashing-protection-file", file)
		if err != nil {
			return nil, err
		}
		if code != 0 {
			continue // reported as failed: the operator knows
		}
		wf, err := NewSigWorkerOn(dirF, 2)
		if err != nil {
			return nil, err
		}
		wf.Accts = wa.Accts
		for _, a := range wa.Accts {
			wf.Rig.Adopt("Wallet 1", a)
		}
		probesF, err := probeAll(wf, 2, V)
		wf.Close()
		if err != nil {
			return nil, err
		}
		if probesF != probesN {
			vs = append(vs, bfs.Viol{Key: fmt.Sprintf("reimport-with-failed-write-reports-success:write=%d:%s", n, CanonReleased(tr.Released, 0, 1)),
				What: fmt.Sprintf("after [%s], the export is imported into an empty instance while write %d of a record fails; the import exits 0, but that instance decides the ascending probe sequence %s, the original decides %s", pt, n, probesF, probesN)})
		}
	}
	// (c) restart.
	if err := wa.Rig.StartStore(); err != nil {
		return nil, err
	}
	probesA, err := probeAll(wa, 2, V)
	if err != nil {
		return nil, err
	}
	if probesA != probesN {
		vs = append(vs, bfs.Viol{Key: "restart-differs:" + CanonReleased(tr.Released, 0, 1), What: fmt.Sprintf("after [%s], the instance restarted on its directory decides the probe sequence %s, without restart %s", pt, probesA, probesN)})
	}
	return vs, nil
}

type legacyAtt struct {
	SourceEpoch int64
	TargetEpoch int64
}
type legacyProp struct {
	Slot int64
}

func gobBytes(v any) []byte {
	var buf bytes.Buffer
	if err := gob.NewEncoder(&buf).Encode(v); err != nil {
		panic(err)
	}
	return buf.Bytes()
}

// c11Legacy plants old-format (gob) records and compares export and decisions with current-format records of the same values.
func c11Legacy(run *ev.Run, vals []int64) (int, error) {
	cells := 0
	root := rig.Scratch("c11g")
	defer os.RemoveAll(root)
	w, err := NewSigWorkerOn(filepath.Join(root, "g"), 2)
	if err != nil {
		return 0, err
	}
	defer w.Close()
	type planted struct {
		g, c       *rig.Acct
		s, t, slot int64
	}
	var all []planted
	for _, s := range vals {
		for _, t := range vals {
			slot := vals[len(all)%len(vals)]
			if _, err := w.Exec(nil); err != nil { // two fresh accounts: 0 = legacy, 1 = current
				return cells, err
			}
			g, c := w.Accts[0], w.Accts[1]
			ctx := w.Rig.Ctx
			cur := make([]byte, 17)
			cur[0] = 1
			putU64(cur[1:9], uint64(s))
			putU64(cur[9:17], uint64(t))
			curP := make([]byte, 9)
			curP[0] = 1
			putU64(curP[1:9], uint64(slot))
			for _, put := range []struct {
				k []byte
				v []byte
			}{
				{append(g.PubBytes(), 2), gobBytes(legacyAtt{s, t})},
				{append(c.PubBytes(), 2), cur},
				{append(g.PubBytes(), 3), gobBytes(legacyProp{slot})},
				{append(c.PubBytes(), 3), curP},
			} {
				if err := w.Rig.Rules.VerifRawPut(ctx, put.k, put.v); err != nil {
					return cells, err
				}
			}
			all = append(all, planted{g, c, s, t, slot})
		}
	}
	// Export through the real CLI: old-format and current-format records of the same values must be stated identically.
	if err := w.Rig.StopStore(); err != nil {
		return cells, err
	}
	file := filepath.Join(root, "legacy-export.json")
	code, so, se, err := rig.CLI(w.Rig.Dir, "--export-slashing-protection", "--genesis-validators-root", rig.GVR, "--slashing-protection-file", file)
	if err != nil {
		return cells, err
	}
	if err := w.Rig.StartStore(); err != nil {
		return cells, err
	}
	if code != 0 {
		run.Violate("legacy-export-failed", fmt.Sprintf("export of a store holding old-format records exits %d: %s %s", code, so, se), map[string]any{"check": "C11", "legacy": "export"})
	} else {
		raw, err := os.ReadFile(file)
		if err != nil {
			return cells, err
		}
		var ic interchange
		if err := json.Unmarshal(raw, &ic); err != nil {
			return cells, err
		}
		entry := func(a *rig.Acct) string {
			pk := "0x" + hex.EncodeToString(a.PubBytes())
			for _, d := range ic.Data {
				if strings.EqualFold(d.PubKey, pk) {
					var l []string
					for _, b := range d.Blocks {
						l = append(l, "slot="+b.Slot)
					}
					for _, at := range d.Atts {
						l = append(l, "att="+at.S+"->"+at.T)
					}
					return strings.Join(l, ",")
				}
			}
			return "absent"
		}
		for _, p := range all {
			cells++
			eg, ec := entry(p.g), entry(p.c)
			if eg != ec {
				run.Violate(fmt.Sprintf("legacy-export:att=(%d,%d):slot=%d", p.s, p.t, p.slot),
					fmt.Sprintf("old-format record (source %d, target %d, slot %d) is exported as [%s], the same values in the current format as [%s]", p.s, p.t, p.slot, eg, ec),
					map[string]any{"check": "C11", "legacy": map[string]int64{"s": p.s, "t": p.t, "slot": p.slot}})
			}
		}
	}
	// Decisions.
	for _, p := range all {
		w.Accts = []*rig.Acct{p.g, p.c}
		set := map[uint64]bool{0: true, 1: true}
		for _, v := range []int64{p.s, p.t, p.slot} {
			for d := int64(-1); d <= 1; d++ {
				if v+d >= 0 {
					set[uint64(v+d)] = true
				}
			}
		}
		var V []uint64
		for v := range set {
			V = append(V, v)
		}
		sort.Slice(V, func(i, j int) bool { return V[i] < V[j] })
		trG, trC := &Trace{}, &Trace{}
		if err := w.Continue(trG, probeSeq(0, V), false); err != nil {
			return cells, err
		}
		if err := w.Continue(trC, probeSeq(1, V), false); err != nil {
			return cells, err
		}
		cells++
		og, oc := strings.Join(trG.Obs, ""), strings.Join(trC.Obs, "")
		if og != oc {
			run.Violate(fmt.Sprintf("legacy-record:att=(%d,%d):slot=%d", p.s, p.t, p.slot),
				fmt.Sprintf("old-format record (source %d, target %d, slot %d) decides probes %v as %s, the same values in the current format as %s", p.s, p.t, p.slot, V, og, oc),
				map[string]any{"check": "C11", "legacy": map[string]int64{"s": p.s, "t": p.t, "slot": p.slot}})
		}
	}
	return cells, nil
}

func putU64(b []byte, v uint64) {
	for i := 0; i < 8; i++ {
		b[i] = byte(v >> (8 * i))
	}
}

// C11 checks export fidelity, re-import equivalence, restart and legacy records.
func C11(tier string) int {
	run := ev.NewRun("C11", tier, "model_checking")
	E := []uint64{0, 1, 2, 3}
	depth := 3
	budget := 120 * time.Second
	if tier == "thorough" {
		E = []uint64{0, 1, 2, 3, 5}
		depth = 4
		budget = 15 * time.Minute
	}
	if _, err := rig.DirkBin(); err != nil {
		run.HarnessErr = err
		return run.Finish()
	}
	var ops []SOp
	for k := 0; k < 2; k++ {
		for _, s := range E {
			for _, t := range E {
				if s <= t {
					ops = append(ops, SOp{Kind: "att", Ents: []Ent{{Key: k, ByKey: (s+t)%2 == 0, S: s, T: t, Root: 1}}})
				}
			}
		}
		for _, slot := range E {
			ops = append(ops, SOp{Kind: "prop", Ents: []Ent{{Key: k, Slot: slot, Root: 1}}})
		}
	}
	ops = append(ops,
		SOp{Kind: "atts", Ents: []Ent{{Key: 0, S: 0, T: 1, Root: 1}, {Key: 1, S: 1, T: 2, Root: 1}}},
		SOp{Kind: "atts", Ents: []Ent{{Key: 1, S: 0, T: 1, Root: 1}, {Key: 0, S: 2, T: 3, Root: 1}}},
		// Batches with an entry that is refused (source beyond target): the batch path writes back the state of every
		// entry, so a key that never attested gets a record that says so.
		SOp{Kind: "atts", Ents: []Ent{{Key: 0, S: 3, T: 1, Root: 1}, {Key: 1, S: 0, T: 1, Root: 1}}},
		SOp{Kind: "atts", Ents: []Ent{{Key: 1, S: 1, T: 2, Root: 1}, {Key: 0, S: 3, T: 1, Root: 1}}},
		// ... and with an entry that a key with history 1->2 (or later) is refused for its source while its target is
		// new: nothing of a refused entry may reach the records.
		SOp{Kind: "atts", Ents: []Ent{{Key: 0, S: 0, T: 3, Root: 1}, {Key: 1, S: 0, T: 1, Root: 1}}},
		SOp{Kind: "atts", Ents: []Ent{{Key: 1, S: 0, T: 1, Root: 1}, {Key: 0, S: 0, T: 3, Root: 1}}},
	)
	var mu sync.Mutex
	var states []c11State
	st := newStats()
	r, err := bfs.Explore(bfs.Config[SOp]{
		NewWorker: func() (bfs.Worker[SOp], error) {
			w, err := NewSigWorker(2)
			if err != nil {
				return nil, err
			}
			return &c02Worker{w: w, keys: []int{0, 1}}, nil
		},
		Ops:      func([]SOp) []SOp { return ops },
		MaxDepth: depth, Budget: budget,
		OnViolation: func(path []SOp, v bfs.Viol) {},
		OnTransition: func(path []SOp, out bfs.Outcome, isNew bool) {
			st.onTransition(path, out, isNew)
			if isNew {
				mu.Lock()
				states = append(states, c11State{path: append([]SOp{}, path...)})
				mu.Unlock()
			}
		},
	})
	if err != nil {
		run.HarnessErr = err
		return run.Finish()
	}
	states = append([]c11State{{path: nil}}, states...)
	V := append(append([]uint64{}, E...), E[len(E)-1]+1, E[len(E)-1]+2)
	// Phase 2: the export/import/restart procedure on every distinct state.
	var wg sync.WaitGroup
	next := 0
	done := 0
	deadline := time.Now().Add(budget)
	var firstErr error
	capped := false
	for i := 0; i < runtime.NumCPU(); i++ {
		wg.Add(1)
		go func() {
			defer wg.Done()
			for {
				mu.Lock()
				if next >= len(states) || firstErr != nil || time.Now().After(deadline) {
					if next < len(states) && firstErr == nil {
						capped = true
					}
					mu.Unlock()
					return
				}
				s := states[next]
				next++
				mu.Unlock()
				vs, err := c11Procedure(s.path, V)
				mu.Lock()
				done++
				if err != nil && firstErr == nil {
					firstErr = err
				}
				for _, v := range vs {
					run.Violate(v.Key, v.What, map[string]any{"check": "C11", "path": s.path, "path_text": pathStrings(s.path)})
				}
				mu.Unlock()
			}
		}()
	}
	wg.Wait()
	if firstErr != nil {
		run.HarnessErr = firstErr
		return run.Finish()
	}
	// Imports during which a write fails, for histories in which the keys hold both kinds of record, one kind each, and
	// one key only.
	faultHist := [][]SOp{
		{{Kind: "prop", Ents: []Ent{{Key: 0, Slot: 2, Root: 1}}}, {Kind: "att", Ents: []Ent{{Key: 0, S: 0, T: 1, Root: 1}}}, {Kind: "prop", Ents: []Ent{{Key: 1, Slot: 1, Root: 1}}}, {Kind: "att", Ents: []Ent{{Key: 1, S: 1, T: 2, Root: 1}}}},
		{{Kind: "prop", Ents: []Ent{{Key: 0, Slot: 1, Root: 1}}}, {Kind: "att", Ents: []Ent{{Key: 1, S: 0, T: 1, Root: 1}}}},
		{{Kind: "att", Ents: []Ent{{Key: 0, S: 1, T: 2, Root: 1}}}, {Kind: "prop", Ents: []Ent{{Key: 0, Slot: 3, Root: 1}}}},
	}
	faultyImports := 0
	for _, h := range faultHist {
		vs, err := c11ProcedureF(h, V, 4)
		if err != nil {
			run.HarnessErr = err
			return run.Finish()
		}
		faultyImports += 4
		for _, v := range vs {
			run.Violate(v.Key, v.What, map[string]any{"check": "C11", "path": h, "path_text": pathStrings(h), "import_faults": 4})
		}
	}
	vals := []int64{-1, 0, 1, 5, 1 << 62, 1<<63 - 1}
	cells, err := c11Legacy(run, vals)
	if err != nil {
		run.HarnessErr = err
		return run.Finish()
	}
	run.Coverage = map[string]any{
		"states":                         r.States,
		"transitions":                    r.Transitions,
		"traces_validated_against_impl":  r.Transitions,
		"evaluations":                    r.Transitions + done + cells,
		"distinct_nontrivial":            r.States,
		"rule":                           "BFS over well-formed signing histories on 2 keys collects every distinct state; for each state the real `dirk --export-slashing-protection` is run on its directory and must state exactly the maxima of the signatures released; the export is imported by the real CLI into an empty directory and that instance, the restarted original and a never-restarted replay must decide the same ascending probe sequence (which identifies a watermark state exactly); old-format (gob) records of boundary values are planted and must decide like current-format records; for three histories the export is also imported while the n-th write of a record fails (n = 1..4): an import that exits 0 must decide like the original",
		"samples":                        st.samples.List(),
		"exhaustive":                     !r.BudgetHit && !capped,
		"bfs":                            map[string]any{"ops_per_state": len(ops), "epochs": fmtU(E), "depth_completed": r.DepthDone, "cap": r.Capped, "states_by_depth": r.StatesByDepth},
		"states_exported_and_reimported": done,
		"probe_values":                   fmtU(V),
		"legacy_cells":                   cells,
		"imports_with_a_failing_write":   faultyImports,
		"legacy_values":                  vals,
	}
	run.Assumptions = []string{"the ascending probe sequence distinguishes any two watermark states whose values lie inside the probe alphabet", "values outside the alphabets behave like their neighbours"}
	return run.Finish()
}

func init() {
	Registry["C11"] = C11
	Replayers["C11"] = func(raw json.RawMessage) int {
		var rp struct {
			Faults int   `json:"import_faults"`
			Path   []SOp `json:"path"`
		}
		if err := json.Unmarshal(raw, &rp); err != nil {
			fmt.Println(err)
			return 2
		}
		vs, err := c11ProcedureF(rp.Path, []uint64{0, 1, 2, 3, 4, 5, 6, 7}, rp.Faults)
		if err != nil {
			fmt.Println(err)
			return 2
		}
		for _, v := range vs {
			fmt.Println("  VIOLATED:", v.What)
		}
		if len(vs) > 0 {
			return 1
		}
		fmt.Println("  no violation on replay")
		return 0
	}
}
