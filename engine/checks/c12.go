package checks

import (
	"bytes"
	"encoding/json"
	"fmt"
	"sort"
	"time"

	"verif/ev"
	"verif/model"
	"verif/rig"

	"github.com/attestantio/dirk/core"
	"github.com/attestantio/dirk/rules"
	"github.com/attestantio/dirk/services/checker"
	"github.com/attestantio/dirk/util"
	"github.com/herumi/bls-eth-go-binary/bls"
	e2wtypes "github.com/wealdtech/go-eth2-wallet-types/v2"
)

// holders returns the ids of the instances that hold an account under the given name (in wallet store or cache).
func holders(c *rig.Cluster, account string) []uint64 {
	var l []uint64
	for _, id := range c.IDs {
		n := c.Nodes[id]
		if _, _, err := n.Rig.RealFetch.FetchAccount(n.Rig.Ctx, account); err == nil {
			l = append(l, id)
			continue
		}
		// Also look in the wallet store itself (an account may be stored but missing from the cache).
		_, name := model.SplitPath(account)
		if w, ok := n.Rig.Wallets[rig.DistWallet]; ok {
			if p, isP := w.(e2wtypes.WalletAccountByNameProvider); isP {
				if _, err := p.AccountByName(n.Rig.Ctx, name); err == nil {
					l = append(l, id)
				}
			}
		}
	}
	return l
}

func subsets(ids []uint64, k int) [][]uint64 {
	var res [][]uint64
	var rec func(start int, cur []uint64)
	rec = func(start int, cur []uint64) {
		if len(cur) == k {
			res = append(res, append([]uint64{}, cur...))
			return
		}
		for i := start; i < len(ids); i++ {
			rec(i+1, append(cur, ids[i]))
		}
	}
	rec(0, nil)
	return res
}

// partialSign asks instance id to sign (generic domain) for the distributed account through its real signer.
func partialSign(c *rig.Cluster, id uint64, account string, data []byte, domain []byte) ([]byte, core.Result) {
	n := c.Nodes[id]
	creds := &checker.Credentials{Client: rig.DefaultClient, RequestID: "s", IP: "10.0.0.1"}
	res, sig := n.Rig.Signer.SignGeneric(n.Rig.Ctx, creds, account, nil, &rules.SignData{Domain: domain, Data: data})
	return sig, res
}

func recoverAndVerify(sigs map[uint64][]byte, ids []uint64, composite []byte, root [32]byte) bool {
	if len(ids) == 0 {
		return false
	}
	bs := make([]bls.Sign, len(ids))
	bi := make([]bls.ID, len(ids))
	for i, id := range ids {
		if err := bs[i].Deserialize(sigs[id]); err != nil {
			return false
		}
		bi[i] = *util.BLSID(id)
	}
	var comp bls.Sign
	if err := comp.Recover(bs, bi); err != nil {
		return false
	}
	var pk bls.PublicKey
	if err := pk.Deserialize(composite); err != nil {
		return false
	}
	msg := append([]byte{}, root[:]...)
	return comp.VerifyByte(&pk, msg)
}

// verifyGeneration applies the consistency oracle to a generation that reported success.
func verifyGeneration(c *rig.Cluster, account string, pubKey []byte, participants []*core.Endpoint, t uint32, subsetCap int) []string {
	var probs []string
	var ids []uint64
	for _, p := range participants {
		ids = append(ids, p.ID)
	}
	sort.Slice(ids, func(i, j int) bool { return ids[i] < ids[j] })
	var refVVec [][]byte
	for _, id := range ids {
		n, ok := c.Nodes[id]
		if !ok {
			probs = append(probs, fmt.Sprintf("participant %d is not an instance of the cluster", id))
			continue
		}
		_, acc, err := n.Rig.RealFetch.FetchAccount(n.Rig.Ctx, account)
		if err != nil {
			probs = append(probs, fmt.Sprintf("participant %d does not hold %s after a successful generation: %v", id, account, err))
			continue
		}
		da, ok := acc.(interface {
			e2wtypes.AccountCompositePublicKeyProvider
			e2wtypes.AccountSigningThresholdProvider
			e2wtypes.AccountVerificationVectorProvider
			e2wtypes.AccountParticipantsProvider
			e2wtypes.AccountPublicKeyProvider
		})
		if !ok {
			probs = append(probs, fmt.Sprintf("participant %d holds %s but it is not a distributed account", id, account))
			continue
		}
		if !bytes.Equal(da.CompositePublicKey().Marshal(), pubKey) {
			probs = append(probs, fmt.Sprintf("participant %d holds composite key %x, the client was given %x", id, da.CompositePublicKey().Marshal()[:6], pubKey[:6]))
		}
		if da.SigningThreshold() != t {
			probs = append(probs, fmt.Sprintf("participant %d holds threshold %d, requested %d", id, da.SigningThreshold(), t))
		}
		var vv [][]byte
		var bv []bls.PublicKey
		for _, k := range da.VerificationVector() {
			vv = append(vv, k.Marshal())
			var pk bls.PublicKey
			if err := pk.Deserialize(k.Marshal()); err != nil {
				probs = append(probs, fmt.Sprintf("participant %d: verification vector entry does not decode", id))
			}
			bv = append(bv, pk)
		}
		if len(vv) != int(t) {
			probs = append(probs, fmt.Sprintf("participant %d holds a verification vector of %d entries for threshold %d", id, len(vv), t))
		}
		if len(vv) > 0 && !bytes.Equal(vv[0], pubKey) {
			probs = append(probs, fmt.Sprintf("participant %d: first verification vector entry is not the composite key", id))
		}
		if refVVec == nil {
			refVVec = vv
		} else if fmt.Sprintf("%x", refVVec) != fmt.Sprintf("%x", vv) {
			probs = append(probs, fmt.Sprintf("participant %d holds a different verification vector than participant %d", id, ids[0]))
		}
		var pl []uint64
		for pid := range da.Participants() {
			pl = append(pl, pid)
		}
		sort.Slice(pl, func(i, j int) bool { return pl[i] < pl[j] })
		if fmt.Sprint(pl) != fmt.Sprint(ids) {
			probs = append(probs, fmt.Sprintf("participant %d holds participant list %v, generation used %v", id, pl, ids))
		}
		// The private share must be consistent with the vector: share*G == eval(vvec, id).
		var want bls.PublicKey
		if err := want.Set(bv, util.BLSID(id)); err != nil {
			probs = append(probs, fmt.Sprintf("participant %d: cannot evaluate verification vector: %v", id, err))
		} else if !bytes.Equal(want.Serialize(), da.PublicKey().Marshal()) {
			probs = append(probs, fmt.Sprintf("participant %d: share public key does not equal the verification vector evaluated at its identifier", id))
		}
	}
	if len(probs) > 0 {
		return probs
	}
	// Threshold signatures: usable immediately through each participant's own signer, without restart.
	domain := make([]byte, 32)
	domain[0] = 7
	data := pat(0x5a)
	root := model.SigningRoot(b32x(data), domain)
	sigs := map[uint64][]byte{}
	for _, id := range ids {
		sig, res := partialSign(c, id, account, data, domain)
		if len(sig) == 0 {
			probs = append(probs, fmt.Sprintf("participant %d cannot sign with %s right after generation (result %s)", id, account, resLetter(res)))
			continue
		}
		sigs[id] = sig
		n := c.Nodes[id]
		creds := &checker.Credentials{Client: rig.DefaultClient, RequestID: "l"}
		// The same through the other addressing mode: by the share's public key.
		if _, acc, err := n.Rig.RealFetch.FetchAccount(n.Rig.Ctx, account); err == nil {
			res2, sig2 := n.Rig.Signer.SignGeneric(n.Rig.Ctx, &checker.Credentials{Client: rig.DefaultClient, RequestID: "s", IP: "10.0.0.1"}, "", acc.PublicKey().Marshal(),
				&rules.SignData{Domain: domain, Data: data})
			if !bytes.Equal(sig2, sig) {
				probs = append(probs, fmt.Sprintf("participant %d signs with %s addressed by name but not addressed by its share public key right after generation (result %s)", id, account, resLetter(res2)))
			}
		}
		// Listing.
		_, list := n.Rig.Lister.ListAccounts(n.Rig.Ctx, creds, []string{account})
		found := false
		for _, a := range list {
			if rig.DistWallet+"/"+a.Name() == account {
				found = true
			}
		}
		if !found {
			probs = append(probs, fmt.Sprintf("participant %d does not list %s right after generation", id, account))
		}
	}
	if len(probs) > 0 {
		return probs
	}
	ts := subsets(ids, int(t))
	if subsetCap > 0 && len(ts) > subsetCap {
		ts = ts[:subsetCap]
	}
	for _, sub := range ts {
		if !recoverAndVerify(sigs, sub, pubKey, root) {
			probs = append(probs, fmt.Sprintf("signatures of participants %v (threshold %d) do not combine into a signature valid under the composite key", sub, t))
			break
		}
	}
	if t > 1 {
		fs := subsets(ids, int(t)-1)
		if subsetCap > 0 && len(fs) > subsetCap {
			fs = fs[:subsetCap]
		}
		for _, sub := range fs {
			if recoverAndVerify(sigs, sub, pubKey, root) {
				probs = append(probs, fmt.Sprintf("signatures of only %d participants %v combine into a valid signature although the threshold is %d", len(sub), sub, t))
				break
			}
		}
	}
	return probs
}

func idSets(n int, tier string) [][]uint64 {
	small := make([]uint64, n)
	large := make([]uint64, n)
	top := make([]uint64, n)
	mixed := make([]uint64, n)
	for i := 0; i < n; i++ {
		small[i] = uint64(i + 1)
		large[i] = uint64(1000000 + i)
		top[i] = ^uint64(0) - uint64(i)
		switch i % 3 {
		case 0:
			mixed[i] = uint64(i + 1)
		case 1:
			mixed[i] = uint64(1)<<40 + uint64(i)
		default:
			mixed[i] = ^uint64(0) - uint64(i)
		}
	}
	if tier == "thorough" || n <= 3 {
		return [][]uint64{small, large, top, mixed}
	}
	return [][]uint64{small, top}
}

func endpointsOf(all map[uint64]*core.Endpoint, order []uint64) []*core.Endpoint {
	l := make([]*core.Endpoint, len(order))
	for i, id := range order {
		l[i] = all[id]
	}
	return l
}

func orderings(ids []uint64, full bool) [][]uint64 {
	if full {
		var res [][]uint64
		for _, p := range permutations(len(ids)) {
			o := make([]uint64, len(ids))
			for i, j := range p {
				o[i] = ids[j]
			}
			res = append(res, o)
		}
		return res
	}
	// rotations and the reversal
	var res [][]uint64
	for r := 0; r < len(ids); r++ {
		o := append(append([]uint64{}, ids[r:]...), ids[:r]...)
		res = append(res, o)
	}
	rev := make([]uint64, len(ids))
	for i := range ids {
		rev[i] = ids[len(ids)-1-i]
	}
	return append(res, rev)
}

// C12 checks successful generations over the (n, t, ids, initiator, orders) grid.
func C12(tier string) int {
	run := ev.NewRun("C12", tier, "exploration")
	maxN := 4
	budget := 150 * time.Second
	if tier == "thorough" {
		maxN = 7
		budget = 20 * time.Minute
	}
	deadline := time.Now().Add(budget)
	cells, successes, refusals := 0, 0, 0
	perNT := map[string]int{}
	samples := ev.NewSamples(5)
	capped := false
	acct := 0
	for n := 2; n <= maxN && !capped; n++ {
		for _, ids := range idSets(n, tier) {
			c, err := rig.NewCluster(rig.ClusterOpts{IDs: ids})
			if err != nil {
				run.HarnessErr = err
				return run.Finish()
			}
			var sorder, corder []uint64
			tamper := ""
			var tamperAt uint64
			c.SuitableOrder = func(_ uint64, k uint32, all map[uint64]*core.Endpoint) []*core.Endpoint {
				if int(k) != len(sorder) {
					return nil
				}
				return endpointsOf(all, sorder)
			}
			c.CommitReply = func(_ uint64, to uint64, pk, sig []byte) ([]byte, []byte) {
				if to != tamperAt {
					return pk, sig
				}
				switch tamper {
				case "pubkey":
					o := rig.NewKey().PublicKey().Marshal()
					return o, sig
				case "signature":
					o := append([]byte{}, sig...)
					o[len(o)-1] ^= 1
					return pk, o
				case "othersig":
					k := rig.NewKey()
					return pk, k.Sign(pat(1)).Marshal()
				case "empty":
					return nil, sig
				}
				return pk, sig
			}
			gen := func(initiator uint64, t uint32, so, co []uint64, tm string, at uint64) ([]byte, []*core.Endpoint, error, string) {
				acct++
				name := fmt.Sprintf("%s/dkg-%d", rig.DistWallet, acct)
				sorder, corder, tamper, tamperAt = so, co, tm, at
				c.ResetCommitOrder(corder)
				pk, parts, err := c.Generate(initiator, name, t, uint32(n))
				return pk, parts, err, name
			}
			// (a) every t in 0..n+1 from every initiator (default orders).
			for t := uint32(0); t <= uint32(n)+1; t++ {
				for _, init := range ids {
					cells++
					pk, parts, err, name := gen(init, t, ids, nil, "", 0)
					valid := t > uint32(n)/2 && t <= uint32(n)
					key := fmt.Sprintf("n=%d,t=%d", n, t)
					rp := map[string]any{"check": "C12", "n": n, "t": t, "ids": ids, "initiator": init}
					if err == nil {
						successes++
						perNT[key]++
						if !valid {
							run.Violate(fmt.Sprintf("invalid-threshold-accepted:n=%d:t=%d", n, t), fmt.Sprintf("generation with %d participants and threshold %d succeeded (must be refused unless n/2 < t <= n)", n, t), rp)
						}
						for _, p := range verifyGeneration(c, name, pk, parts, t, 0) {
							run.Violate(fmt.Sprintf("inconsistent:n=%d:t=%d:%s", n, t, firstWords(p, 7)), fmt.Sprintf("n=%d t=%d ids=%v initiator=%d: %s", n, t, ids, init, p), rp)
						}
						samples.Add(map[string]any{"n": n, "t": t, "ids": ids, "initiator": init, "composite_key": fmt.Sprintf("%x", pk[:8]), "messages": len(c.Log)})
					} else {
						refusals++
						if h := holders(c, name); len(h) > 0 && !valid {
							run.Violate(fmt.Sprintf("refused-but-held:n=%d:t=%d", n, t), fmt.Sprintf("generation n=%d t=%d was refused but instances %v hold the account", n, t, h), rp)
						}
					}
				}
			}
			// (b) a valid threshold under every participant order and commit completion order, and tampered commit replies.
			t := uint32(n)/2 + 1
			full := n <= 3 || (tier == "thorough" && n <= 4)
			for _, so := range orderings(ids, full) {
				for _, co := range orderings(ids, full) {
					if time.Now().After(deadline) {
						capped = true
						break
					}
					cells++
					pk, parts, err, name := gen(ids[0], t, so, co, "", 0)
					rp := map[string]any{"check": "C12", "n": n, "t": t, "ids": ids, "participant_order": so, "commit_order": co}
					if err != nil {
						refusals++
						continue
					}
					successes++
					perNT[fmt.Sprintf("n=%d,t=%d", n, t)]++
					for _, p := range verifyGeneration(c, name, pk, parts, t, 12) {
						run.Violate(fmt.Sprintf("inconsistent-order:n=%d:%s", n, firstWords(p, 7)), fmt.Sprintf("n=%d t=%d participant order %v commit order %v: %s", n, t, so, co, p), rp)
					}
				}
			}
			for _, tm := range []string{"pubkey", "signature", "othersig", "empty"} {
				for _, at := range ids {
					cells++
					_, _, err, _ := gen(ids[len(ids)-1], t, ids, nil, tm, at)
					if err == nil {
						run.Violate(fmt.Sprintf("tampered-commit-accepted:%s:n=%d", tm, n), fmt.Sprintf("n=%d t=%d: commit reply of participant %d tampered (%s) and generation still reported success", n, t, at, tm),
							map[string]any{"check": "C12", "n": n, "t": t, "ids": ids, "tamper": tm, "at": at})
					} else {
						refusals++
					}
				}
			}
			c.Close()
			if capped {
				break
			}
		}
	}
	// A name that some instances already hold: whoever starts the second generation (a participant that holds the name,
	// or an instance outside the participant set that does not), a reported success must still mean that every
	// participant holds the returned key.
	reuse := 0
	{
		all := []uint64{1, 2, 3, 4}
		c, err := rig.NewCluster(rig.ClusterOpts{IDs: all})
		if err != nil {
			run.HarnessErr = err
			return run.Finish()
		}
		part := []uint64{1, 2, 3}
		c.SuitableOrder = func(_ uint64, n uint32, allp map[uint64]*core.Endpoint) []*core.Endpoint {
			return endpointsOf(allp, part[:n])
		}
		for _, second := range all {
			for _, nt := range [][2]uint32{{3, 2}, {3, 3}, {2, 2}} {
				reuse++
				name := fmt.Sprintf("%s/held-%d-%d-%d", rig.DistWallet, second, nt[0], nt[1])
				pk1, parts1, err1 := c.Generate(1, name, nt[1], nt[0])
				if err1 != nil {
					run.HarnessErr = fmt.Errorf("first generation of %s failed: %v", name, err1)
					c.Close()
					return run.Finish()
				}
				pk2, parts2, err2 := c.Generate(second, name, nt[1], nt[0])
				cells++
				rp := map[string]any{"check": "C12", "name_already_held": true, "second_initiator": second, "n": nt[0], "t": nt[1]}
				if err2 == nil {
					for _, pr := range verifyGeneration(c, name, pk2, parts2, nt[1], 4) {
						run.Violate(fmt.Sprintf("held-name:initiator=%d:n=%d:t=%d:%s", second, nt[0], nt[1], firstWords(pr, 6)),
							fmt.Sprintf("%s already exists on participants %v; a second generation of that name started on instance %d (n=%d t=%d) reported success with key %x, but %s", name, part[:nt[0]], second, nt[0], nt[1], pk2[:6], pr), rp)
					}
					successes++
				} else {
					refusals++
					// The first account must be untouched.
					for _, pr := range verifyGeneration(c, name, pk1, parts1, nt[1], 4) {
						run.Violate(fmt.Sprintf("held-name-damaged:initiator=%d:n=%d:t=%d:%s", second, nt[0], nt[1], firstWords(pr, 6)),
							fmt.Sprintf("%s already existed; a second generation of that name started on instance %d was refused (%v) but afterwards %s", name, second, err2, pr), rp)
					}
				}
			}
		}
		c.Close()
	}
	// A first attempt that fails while the participants are being prepared (the prepare message to one of them is lost; the
	// client used another passphrase then), and the same name tried again: whatever the first attempt left behind on the
	// participants it had reached, a reported success must mean what it always means.
	retries := 0
	{
		ids := []uint64{1, 2, 3}
		c, err := rig.NewCluster(rig.ClusterOpts{IDs: ids})
		if err != nil {
			run.HarnessErr = err
			return run.Finish()
		}
		c.SuitableOrder = func(_ uint64, n uint32, allp map[uint64]*core.Endpoint) []*core.Endpoint {
			return endpointsOf(allp, ids[:n])
		}
		for _, lost := range ids {
			for _, initiator := range ids {
				if lost == initiator {
					continue
				}
				retries++
				name := fmt.Sprintf("%s/retry-%d-%d", rig.DistWallet, lost, initiator)
				c.Intercept = func(m *rig.Msg) rig.Action {
					if m.Kind == "prepare" && m.To == lost {
						return rig.Drop
					}
					return rig.Deliver
				}
				_, _, err1 := c.GenerateWith(initiator, name, []byte("the passphrase of the first attempt"), 2, 3)
				c.Intercept = nil
				if err1 == nil {
					run.HarnessErr = fmt.Errorf("a generation whose prepare message to %d is lost reported success", lost)
					c.Close()
					return run.Finish()
				}
				pk2, parts2, err2 := c.Generate(initiator, name, 2, 3)
				cells++
				if err2 != nil {
					refusals++
					continue
				}
				successes++
				for _, pr := range verifyGeneration(c, name, pk2, parts2, 2, 4) {
					run.Violate(fmt.Sprintf("retry-after-failed-prepare:lost=%d:initiator=%d:%s", lost, initiator, firstWords(pr, 6)),
						fmt.Sprintf("a generation of %s started on instance %d failed because the prepare message to %d was lost; the same name tried again (other passphrase) reported success with key %x, but %s", name, initiator, lost, pk2[:6], pr),
						map[string]any{"check": "C12", "retry_after_failed_prepare": true, "lost": lost, "initiator": initiator})
				}
			}
		}
		c.Close()
	}
	// Instances with generation passphrases of their own and a client that supplies none: every participant must be able to
	// use its share with what its own unlocker knows.
	ownPass := 0
	{
		c, err := rig.NewCluster(rig.ClusterOpts{IDs: []uint64{1, 2, 3}, OwnPassphrases: true})
		if err != nil {
			run.HarnessErr = err
			return run.Finish()
		}
		for _, initiator := range []uint64{1, 2, 3} {
			for _, nt := range [][2]uint32{{3, 2}, {3, 3}} {
				ownPass++
				cells++
				name := fmt.Sprintf("%s/own-%d-%d-%d", rig.DistWallet, initiator, nt[0], nt[1])
				pk, parts, err := c.GenerateWith(initiator, name, nil, nt[1], nt[0])
				rp := map[string]any{"check": "C12", "own_passphrases": true, "initiator": initiator, "n": nt[0], "t": nt[1]}
				if err != nil {
					run.Violate(fmt.Sprintf("own-passphrases-refused:n=%d:t=%d", nt[0], nt[1]),
						fmt.Sprintf("instances with generation passphrases of their own, no client passphrase: a generation with n=%d t=%d started on instance %d failed: %v", nt[0], nt[1], initiator, err), rp)
					refusals++
					continue
				}
				successes++
				for _, pr := range verifyGeneration(c, name, pk, parts, nt[1], 4) {
					run.Violate(fmt.Sprintf("own-passphrases:n=%d:t=%d:%s", nt[0], nt[1], firstWords(pr, 4)),
						fmt.Sprintf("instances with generation passphrases of their own, no client passphrase, generation n=%d t=%d started on instance %d: %s", nt[0], nt[1], initiator, pr), rp)
				}
			}
		}
		c.Close()
	}
	// The same over the real transport: four real instances with the real gRPC API server and the real gRPC sender on
	// loopback addresses; every (n, t) a cluster of four admits, started on every instance.
	overNet := 0
	{
		nc, err := rig.NewNetCluster([]uint64{1, 2, 3, 4})
		if err != nil {
			run.HarnessErr = err
			return run.Finish()
		}
		view := nc.View()
		for _, initiator := range nc.IDs {
			for _, nt := range [][2]uint32{{2, 2}, {3, 2}, {3, 3}, {4, 3}, {4, 4}} {
				overNet++
				cells++
				name := fmt.Sprintf("%s/net-%d-%d-%d", rig.DistWallet, initiator, nt[0], nt[1])
				pk, parts, err := nc.GenerateParts(initiator, name, nt[1], nt[0])
				rp := map[string]any{"check": "C12", "over_grpc": true, "initiator": initiator, "n": nt[0], "t": nt[1]}
				if err != nil {
					run.Violate(fmt.Sprintf("over-grpc-refused:n=%d:t=%d", nt[0], nt[1]),
						fmt.Sprintf("four instances over the real gRPC transport: a generation with n=%d t=%d started on instance %d failed: %v", nt[0], nt[1], initiator, err), rp)
					refusals++
					continue
				}
				successes++
				var probs []string
				if len(parts) != int(nt[0]) {
					probs = append(probs, fmt.Sprintf("%d participants were reported for a request for %d", len(parts), nt[0]))
				}
				if h := holders(view, name); len(h) != int(nt[0]) {
					probs = append(probs, fmt.Sprintf("instances %v hold the account although %d participants were requested", h, nt[0]))
				}
				probs = append(probs, verifyGeneration(view, name, pk, parts, nt[1], 4)...)
				for _, pr := range probs {
					run.Violate(fmt.Sprintf("over-grpc:n=%d:t=%d:%s", nt[0], nt[1], firstWords(pr, 4)),
						fmt.Sprintf("four instances over the real gRPC transport, generation n=%d t=%d started on instance %d: %s", nt[0], nt[1], initiator, pr), rp)
				}
			}
		}
		nc.Close()
	}
	// More configured peers than requested participants: exactly the requested number of instances takes part and holds
	// the account.
	larger := 0
	{
		all := []uint64{1, 2, 3, 4, 5}
		c, err := rig.NewCluster(rig.ClusterOpts{IDs: all})
		if err != nil {
			run.HarnessErr = err
			return run.Finish()
		}
		for _, initiator := range all {
			for _, nt := range [][2]uint32{{2, 2}, {3, 2}, {3, 3}, {4, 3}, {4, 4}, {2, 3}, {3, 4}, {3, 5}, {4, 5}, {2, 1}, {4, 2}, {3, 1}, {3, 0}} {
				larger++
				cells++
				name := fmt.Sprintf("%s/larger-%d-%d-%d", rig.DistWallet, initiator, nt[0], nt[1])
				pk, parts, err := c.Generate(initiator, name, nt[1], nt[0])
				rp := map[string]any{"check": "C12", "cluster_of": len(all), "initiator": initiator, "n": nt[0], "t": nt[1]}
				if nt[1] > nt[0] || 2*nt[1] <= nt[0] {
					// Not a threshold a key of n shares can have (more signatures than shares, or no majority).
					if err == nil {
						run.Violate(fmt.Sprintf("larger-cluster-bad-threshold-accepted:n=%d:t=%d", nt[0], nt[1]),
							fmt.Sprintf("cluster of %d configured instances: a generation with n=%d t=%d started on instance %d reported success (key %x, holders %v)", len(all), nt[0], nt[1], initiator, pk[:6], holders(c, name)), rp)
						successes++
					} else {
						refusals++
						if h := holders(c, name); len(h) > 0 {
							run.Violate(fmt.Sprintf("larger-cluster-bad-threshold-left-account:n=%d:t=%d", nt[0], nt[1]),
								fmt.Sprintf("cluster of %d configured instances: the refused generation n=%d t=%d left an account on %v", len(all), nt[0], nt[1], h), rp)
						}
					}
					continue
				}
				if err != nil {
					run.Violate(fmt.Sprintf("larger-cluster-refused:n=%d:t=%d", nt[0], nt[1]),
						fmt.Sprintf("cluster of %d configured instances: a generation with n=%d t=%d started on instance %d failed: %v", len(all), nt[0], nt[1], initiator, err), rp)
					refusals++
					continue
				}
				successes++
				var probs []string
				if len(parts) != int(nt[0]) {
					probs = append(probs, fmt.Sprintf("%d participants were reported for a request for %d", len(parts), nt[0]))
				}
				if h := holders(c, name); len(h) != int(nt[0]) {
					probs = append(probs, fmt.Sprintf("instances %v hold the account although %d participants were requested", h, nt[0]))
				}
				probs = append(probs, verifyGeneration(c, name, pk, parts, nt[1], 4)...)
				for _, pr := range probs {
					run.Violate(fmt.Sprintf("larger-cluster:n=%d:t=%d:%s", nt[0], nt[1], firstWords(pr, 4)),
						fmt.Sprintf("cluster of %d configured instances, generation n=%d t=%d started on instance %d: %s", len(all), nt[0], nt[1], initiator, pr), rp)
				}
			}
		}
		c.Close()
	}
	// Generations that share a participant and reach their commit step at the same time.
	concBudget := 120 * time.Second
	if tier == "thorough" {
		concBudget = 6 * time.Minute
	}
	conc, err := c12Concurrent(run, time.Now().Add(concBudget))
	if err != nil {
		run.HarnessErr = err
		return run.Finish()
	}
	vacuous := []string{}
	for n := 2; n <= maxN; n++ {
		for t := n/2 + 1; t <= n; t++ {
			if perNT[fmt.Sprintf("n=%d,t=%d", n, t)] == 0 {
				vacuous = append(vacuous, fmt.Sprintf("n=%d,t=%d", n, t))
			}
		}
	}
	run.Coverage = map[string]any{
		"evaluations":                       cells,
		"distinct_nontrivial":               len(perNT),
		"rule":                              "clusters of n real instances wired through their real receiver handlers (messages marshalled and unmarshalled); after every successful generation each participant must at once sign with the new account addressed by name and addressed by its share public key, and list it; grid: n in 2..max, every t in 0..n+1, identifier sets (small, 10^6+i, 2^64-i, mixed), every initiator; for a valid t every order of participants returned by the peer selection and every commit completion order (all n! for small n, rotations+reversal above), and one tampered commit reply per participant and kind; oracle on success: every participant holds the account with the returned composite key, same vector/threshold/participants, share consistent with the vector, immediate signing and listing through its own services, every t-subset of partial signatures recovers a valid composite signature and no (t-1)-subset does; plus generations without a client passphrase on instances whose generation passphrases differ (each participant must use its share with what its own unlocker knows); plus 20 generations on four instances that talk over the real gRPC transport (real API servers, real sender), judged by the same oracle; plus generations in a cluster of 5 configured instances for every n < 5 and every t incl. thresholds above n and without majority (exactly n participants reported, exactly n holders; impossible thresholds refused); plus second generations of a name the participants already hold, started on a participant and on an instance outside the participant set: a reported success is judged by the same oracle, a refusal must leave the first account intact; plus retries of a name whose first attempt failed because the prepare message to one participant was lost (other passphrase then): a reported success is judged by the same oracle; distinct = (n,t) cells with at least one successful generation",
		"samples":                           samples.List(),
		"exhaustive":                        !capped && len(vacuous) == 0,
		"max_n":                             maxN,
		"successful":                        successes,
		"refused":                           refusals,
		"successes_per_n_t":                 perNT,
		"second_generations_of_a_held_name": reuse,
		"retries_after_a_failed_prepare":    retries,
		"generations_in_a_larger_cluster":   larger,
		"generations_with_own_passphrases":  ownPass,
		"generations_over_the_real_grpc_transport": overNet,
		"vacuous_cells": vacuous,
		"commits_of_different_generations_at_the_same_time": conc,
	}
	run.Assumptions = []string{"the grid, the tampering and the ordering cases run on the in-memory cluster (messages marshalled and handed to the real receiver handlers); services/sender/grpc and TLS between peers are exercised by the 20 generations over the real transport only", "the BLS library is correct"}
	return run.Finish()
}

func init() {
	Registry["C12"] = C12
	Replayers["C12"] = func(raw json.RawMessage) int {
		var rp struct {
			Concurrent *c12ConcScenario `json:"concurrent"`
			Choices    []int            `json:"choices"`
			PerG       bool             `json:"goroutine_mode"`
		}
		if err := json.Unmarshal(raw, &rp); err != nil {
			fmt.Println(err)
			return 2
		}
		if rp.Concurrent != nil {
			return c12ReplayConcurrent(*rp.Concurrent, rp.Choices, rp.PerG)
		}
		// A cell of the sequential grid: re-found by re-running the check.
		return C12("quick")
	}
}
