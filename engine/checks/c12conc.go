//go:build verifsched

package checks

import (
	"bytes"
	"fmt"
	"runtime"
	"sort"
	"strings"
	"time"

	"verif/ev"
	"verif/rig"
	"verif/sched"

	"github.com/attestantio/dirk/core"
	"github.com/herumi/bls-eth-go-binary/bls"
	distributed "github.com/wealdtech/go-eth2-wallet-distributed"
	e2wtypes "github.com/wealdtech/go-eth2-wallet-types/v2"
)

// c12ConcScenario: generations of different account names (same wallet) that share this participant reach their commit
// step at the same time.
type c12ConcScenario struct {
	Name     string `json:"name"`
	Accounts int    `json:"accounts"` // one thread per account, each delivers the commit of its generation
}

func c12ConcScenarios(thorough bool) []c12ConcScenario {
	if thorough {
		return []c12ConcScenario{{"commit A || commit B", 2}, {"commit A || commit B || commit C", 3}}
	}
	return []c12ConcScenario{{"commit A || commit B", 2}}
}

type c12ConcEnv struct {
	c      *rig.Cluster
	parts  []*core.Endpoint
	serial int
}

func newC12ConcEnv() (*c12ConcEnv, error) {
	e := &c12ConcEnv{}
	for _, id := range c17Participants {
		e.parts = append(e.parts, &core.Endpoint{ID: id, Name: rig.PeerName(id), Port: uint32(8000 + id)})
	}
	return e, e.newCluster()
}

func (e *c12ConcEnv) newCluster() error {
	if e.c != nil {
		e.c.Close()
	}
	extra := map[uint64]string{}
	for _, id := range []uint64{1, 3, 4} {
		extra[id] = fmt.Sprintf("%s:%d", rig.PeerName(id), 8000+id)
	}
	var err error
	e.c, err = rig.NewCluster(rig.ClusterOpts{IDs: []uint64{c17Self}, ExtraPeers: extra, PointStore: true})
	return err
}

func (e *c12ConcEnv) close() { e.c.Close() }

func (e *c12ConcEnv) scenario(scn c12ConcScenario, class *string) sched.Scenario {
	return func() ([]func(s *sched.Sched), func(x *sched.Exec) []sched.Finding) {
		e.serial++
		if e.serial%100 == 0 {
			if err := e.newCluster(); err != nil {
				panic(err)
			}
		}
		c := e.c
		node := c.Nodes[c17Self]
		node.Rig.RealProcess.VerifClearSessions()
		accts := make([]string, scn.Accounts)
		polys := map[string]*rig.Poly{}
		poly := func(account string, peer uint64) *rig.Poly {
			k := fmt.Sprintf("%s#%d", account, peer)
			if polys[k] == nil {
				polys[k] = rig.NewPoly(2)
			}
			return polys[k]
		}
		c.Virtual = func(from, to uint64, account string, _ bls.SecretKey, _ []bls.PublicKey) (bls.SecretKey, []bls.PublicKey, error) {
			p := poly(account, to)
			return p.Share(from), p.VVec, nil
		}
		// Outside the scheduler: every generation is brought to the point where its commit succeeds.
		for i := range accts {
			accts[i] = fmt.Sprintf("%s/conc-%d-%c", rig.DistWallet, e.serial, 'A'+i)
			if err := node.RecvPrepare(rig.PeerName(1), accts[i], 2, e.parts); err != nil {
				panic(fmt.Sprintf("prepare: %v", err))
			}
			if err := node.RecvExecute(rig.PeerName(1), accts[i]); err != nil {
				panic(fmt.Sprintf("execute: %v", err))
			}
			for _, from := range []uint64{1, 3} {
				p := poly(accts[i], from)
				if _, _, err := node.RecvContribute(rig.PeerName(from), accts[i], p.Share(c17Self), p.VVec); err != nil {
					panic(fmt.Sprintf("contribute from %d: %v", from, err))
				}
			}
		}
		oks := make([]bool, len(accts))
		pubs := make([][]byte, len(accts))
		var bodies []func(s *sched.Sched)
		for i := range accts {
			i := i
			bodies = append(bodies, func(_ *sched.Sched) {
				pk, _, err := node.RecvCommit(rig.PeerName(1), accts[i], pat(0x77))
				oks[i], pubs[i] = err == nil, pk
			})
		}
		check := func(x *sched.Exec) []sched.Finding {
			var fs []sched.Finding
			if x.Deadlock || x.Stuck {
				if class != nil {
					*class = "deadlock"
				}
				return []sched.Finding{{Key: "c12-concurrent-deadlock:" + scn.Name, What: fmt.Sprintf("commits of different generations delivered at the same time (%s) wait on each other forever: %s", scn.Name, strings.Join(x.Blocked, "; "))}}
			}
			for id, p := range x.Panics {
				fs = append(fs, sched.Finding{Key: "c12-concurrent-panic:" + scn.Name, What: fmt.Sprintf("%s: thread %d panicked: %s", scn.Name, id, p)})
			}
			for _, m := range x.Misuse {
				fs = append(fs, sched.Finding{Key: "c12-concurrent-misuse:" + scn.Name, What: fmt.Sprintf("%s: the instance would end with 'fatal error: sync: %s'", scn.Name, m)})
			}
			if len(fs) > 0 || x.Uncontrolled {
				return fs
			}
			// What the store holds, read the way a restarted instance reads it.
			var cl []string
			w, err := distributed.OpenWallet(node.Rig.Ctx, rig.DistWallet, node.Rig.WStore, rig.PlainEncryptor{})
			if err != nil {
				return []sched.Finding{{Key: "c12-concurrent-wallet:" + scn.Name, What: fmt.Sprintf("%s: the wallet no longer opens: %v", scn.Name, err)}}
			}
			for i, a := range accts {
				cl = append(cl, fmt.Sprintf("%v", oks[i]))
				if !oks[i] {
					continue
				}
				_, name := splitWalletAccount(a)
				var problem string
				if acc, err := w.(e2wtypes.WalletAccountByNameProvider).AccountByName(node.Rig.Ctx, name); err != nil {
					problem = fmt.Sprintf("the wallet store has no account of that name (%v)", err)
				} else if cp, ok := acc.(e2wtypes.AccountCompositePublicKeyProvider); !ok || !bytes.Equal(cp.CompositePublicKey().Marshal(), pubs[i]) {
					problem = "the stored account's composite key is not the one the commit returned"
				}
				if problem == "" {
					if _, _, err := node.Rig.RealFetch.FetchAccount(node.Rig.Ctx, a); err != nil {
						problem = fmt.Sprintf("the instance cannot use the account (%v)", err)
					}
				}
				if problem != "" {
					fs = append(fs, sched.Finding{Key: "c12-concurrent-lost:" + scn.Name,
						What: fmt.Sprintf("generations whose commits reach this participant at the same time (%s): the commit for %s succeeded, but %s", scn.Name, a, problem)})
				}
			}
			if class != nil {
				*class = strings.Join(cl, " ")
			}
			return fs
		}
		return bodies, check
	}
}

func splitWalletAccount(path string) (string, string) {
	i := strings.IndexByte(path, '/')
	if i < 0 {
		return path, ""
	}
	return path[:i], path[i+1:]
}

// c12Concurrent explores every interleaving (generations-table lock and wallet-store operations) of the scenarios.
func c12Concurrent(run *ev.Run, deadline time.Time) (map[string]any, error) {
	old := runtime.GOMAXPROCS(1)
	defer runtime.GOMAXPROCS(old)
	env, err := newC12ConcEnv()
	if err != nil {
		return nil, err
	}
	defer env.close()
	per := map[string]any{}
	execsTotal, allDone := 0, 0
	for _, scn := range c12ConcScenarios(time.Until(deadline) > 3*time.Minute) {
		var class string
		mk := env.scenario(scn, &class)
		d := deadline
		st, viols, err := sched.ExploreAll(mk, d, func(x *sched.Exec) string { return class })
		if err != nil {
			return nil, fmt.Errorf("scenario %s: %w", scn.Name, err)
		}
		for _, v := range viols {
			xs, fs, rerr := sched.Replay(mk, v.Choices, 3, v.PerG)
			same := rerr == nil
			for k := range xs {
				found := false
				for _, f := range fs[k] {
					if f.Key == v.Key {
						found = true
					}
				}
				same = same && found
			}
			if !same {
				return nil, fmt.Errorf("scenario %s: violation %s did not reproduce on replay (harness nondeterminism)", scn.Name, v.Key)
			}
			run.Violate(v.Key, v.What, map[string]any{"check": "C12", "concurrent": scn, "choices": v.Choices, "schedule": v.Schedule, "goroutine_mode": v.PerG})
		}
		var outs []string
		for o, n := range st.Outcomes {
			outs = append(outs, fmt.Sprintf("%dx %s", n, o))
		}
		sort.Strings(outs)
		per[scn.Name] = map[string]any{"executions": st.Executions, "all_interleavings": st.AllInterleavings, "max_preemptions": st.MaxPreemptions, "max_points": st.MaxPoints, "outcomes": outs, "goroutine_mode": st.GoroutineMode}
		execsTotal += st.Executions
		if st.AllInterleavings {
			allDone++
		}
	}
	return map[string]any{"scenarios": len(per), "scenarios_with_all_interleavings_explored": allDone, "executions": execsTotal, "per_scenario": per,
		"rule": "two (thorough tier: also three) generations of different account names in one wallet are brought to the point where their commit succeeds on a real instance; the commits are delivered at the same time, every interleaving at the granularity of the generations-table lock (sync.RWMutex routed through the scheduler's shim) and of the wallet store's operations; every commit that succeeds must leave the account in the wallet store under its name with the returned composite key, and usable by the instance"}, nil
}

// c12ReplayConcurrent re-executes one recorded schedule.
func c12ReplayConcurrent(scn c12ConcScenario, choices []int, perG bool) int {
	old := runtime.GOMAXPROCS(1)
	defer runtime.GOMAXPROCS(old)
	env, err := newC12ConcEnv()
	if err != nil {
		fmt.Println(err)
		return 2
	}
	defer env.close()
	xs, fs, err := sched.Replay(env.scenario(scn, nil), choices, 2, perG)
	if err != nil {
		fmt.Println(err)
		return 2
	}
	fmt.Printf("  schedule: %s\n", xs[0].Schedule())
	for _, f := range fs[0] {
		fmt.Printf("  VIOLATED: %s\n", f.What)
	}
	if len(fs[0]) > 0 {
		return 1
	}
	fmt.Println("  no violation on replay")
	return 0
}
