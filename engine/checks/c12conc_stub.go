//go:build !verifsched

package checks

import (
	"time"

	"verif/ev"
)

// c12Concurrent needs the scheduler build (bin/check builds C12 with it).
func c12Concurrent(_ *ev.Run, _ time.Time) (map[string]any, error) { return nil, nil }

type c12ConcScenario struct {
	Name     string `json:"name"`
	Accounts int    `json:"accounts"`
}

func c12ReplayConcurrent(_ c12ConcScenario, _ []int, _ bool) int { return 2 }
