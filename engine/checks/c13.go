package checks

import (
	"bufio"
	"encoding/json"
	"fmt"
	"github.com/attestantio/dirk/core"
	"math/big"
	"os"
	"os/exec"
	"runtime"
	"sort"
	"strings"
	"sync"

	"verif/dfs"
	"verif/ev"
	"verif/rig"

	"github.com/herumi/bls-eth-go-binary/bls"
)

type c13Config struct {
	N, T int
}

var c13Configs = []c13Config{{2, 2}, {3, 2}, {3, 3}, {4, 3}}

var c13CtlFaults = []string{"pass", "lost", "error-reply", "duplicate", "duplicate-first-reply-seen"}
var c13ContribFaults = []string{"pass", "lost", "error-reply", "share-random", "share-for-other-id", "commitment-altered", "vector-short", "vector-long", "vector-empty", "share-zero", "duplicate", "duplicate-first-reply-seen", "resend-commitment-altered", "resend-vector-short", "resend-vector-long", "resend-vector-empty"}
var c13ReplyFaults = []string{"pass", "lost", "share-random", "share-for-other-id", "commitment-altered", "vector-short", "vector-long", "vector-empty", "share-zero", "share-offset-compensated"}

// c13Negate returns -d in the scalar field of BLS12-381.
func c13Negate(d *bls.SecretKey) *bls.SecretKey {
	order, _ := new(big.Int).SetString("73eda753299d7d483339d80809a1d80553bda402fffe5bfeffffffff00000001", 16)
	v := new(big.Int).SetBytes(d.Serialize())
	v.Sub(order, v)
	v.Mod(v, order)
	b := v.Bytes()
	buf := make([]byte, 32)
	copy(buf[32-len(b):], b)
	var n bls.SecretKey
	if err := n.Deserialize(buf); err != nil {
		panic(err)
	}
	return &n
}

// tamper applies a contribution fault; secret/vvec are for recipient `to`; ids are all participant ids.
func c13Tamper(fault string, to uint64, ids []uint64, t int, secret *bls.SecretKey, vvec *[]bls.PublicKey) {
	switch fault {
	case "share-random":
		secret.SetByCSPRNG()
	case "share-for-other-id":
		// A share that is valid for another participant's identifier under a fresh polynomial with the same vector length:
		// replace the whole contribution by a consistent one made for a different id.
		p := rig.NewPoly(t)
		other := ids[0]
		if other == to {
			other = ids[1]
		}
		*secret = p.Share(other)
		*vvec = p.VVec
	case "commitment-altered":
		v := append([]bls.PublicKey{}, (*vvec)...)
		var r bls.SecretKey
		r.SetByCSPRNG()
		v[len(v)-1] = *r.GetPublicKey()
		*vvec = v
	case "vector-short":
		n := t - 1
		if n < 1 {
			n = 1
		}
		p := rig.NewPoly(n)
		if t-1 < 1 {
			// threshold 1 cannot be shortened meaningfully; alter instead
			p = rig.NewPoly(1)
		}
		*secret = p.Share(to)
		*vvec = p.VVec
	case "vector-long":
		p := rig.NewPoly(t + 1)
		*secret = p.Share(to)
		*vvec = p.VVec
	case "vector-empty":
		*vvec = []bls.PublicKey{}
	case "share-zero":
		*secret = bls.SecretKey{}
	}
}

type c13Result struct {
	Config   c13Config      `json:"config"`
	Execs    int            `json:"executions"`
	Sites    []string       `json:"sites"`
	Faults   []string       `json:"site_faults"`
	Outcomes map[string]int `json:"outcomes"`
	Viols    []c13Viol      `json:"viols"`
	Err      string         `json:"err,omitempty"`
}

type c13Viol struct {
	Key  string         `json:"key"`
	What string         `json:"what"`
	Dev  map[string]int `json:"faults"`
}

// c13Child explores one configuration inside a worker process; prints CASE lines so that a crash can be attributed.
func c13Child(cfg c13Config, bound int, skip map[string]bool) c13Result {
	res := c13Result{Config: cfg, Outcomes: map[string]int{}}
	ids := make([]uint64, cfg.N)
	for i := range ids {
		ids[i] = uint64(i + 1)
	}
	c, err := rig.NewCluster(rig.ClusterOpts{IDs: ids})
	if err != nil {
		res.Err = err.Error()
		return res
	}
	defer c.Close()
	acct := 0
	seen := map[string]bool{}
	out := bufio.NewWriter(os.Stdout)
	st, err := dfs.ExploreKeyed(bound, func(ch *dfs.KChooser) error {
		// Announce the case before anything can crash.
		fmt.Fprintf(out, "CASE %s\n", mustJSON(ch.Dev))
		out.Flush()
		if skip[mustJSON(ch.Dev)] {
			// This exact fault set crashed the instances in an earlier worker; it is already reported.
			return nil
		}
		acct++
		name := fmt.Sprintf("%s/c13-%d-%d", rig.DistWallet, os.Getpid(), acct)
		var applied []string
		rejecting := false
		c.Intercept = func(m *rig.Msg) rig.Action {
			var menu []string
			switch m.Kind {
			case "prepare", "execute":
				menu = c13CtlFaults
			case "contribute":
				menu = c13ContribFaults
			default:
				return rig.Deliver
			}
			k := ch.Choose(fmt.Sprintf("%s %d->%d", m.Kind, m.From, m.To), len(menu))
			f := menu[k]
			if f != "pass" {
				applied = append(applied, fmt.Sprintf("%s %d->%d: %s", m.Kind, m.From, m.To, f))
			}
			switch f {
			case "pass":
				return rig.Deliver
			case "lost":
				rejecting = true
				return rig.Drop
			case "error-reply":
				rejecting = true
				return rig.DeliverThenError
			case "duplicate":
				return rig.DeliverTwice
			case "duplicate-first-reply-seen":
				return rig.DeliverTwiceFirstReply
			case "resend-commitment-altered", "resend-vector-short", "resend-vector-long", "resend-vector-empty":
				// The genuine contribution arrives, then a second copy with the same share and another vector.
				rejecting = true
				kind := strings.TrimPrefix(f, "resend-")
				to := m.To
				m.Again = func(secret *bls.SecretKey, vvec *[]bls.PublicKey) {
					keep := *secret
					c13Tamper(kind, to, ids, cfg.T, secret, vvec)
					*secret = keep
				}
				return rig.DeliverThenAgain
			default:
				rejecting = true
				c13Tamper(f, m.To, ids, cfg.T, m.Secret, &m.VVec)
				return rig.Deliver
			}
		}
		// share-offset-compensated: this reply's share is raised by a random d, and the next reply to the same instance is
		// lowered by d (one departure from the default, two invalid replies whose errors cancel in any sum).
		pendingOffset := map[uint64]*bls.SecretKey{}
		c.ContributeReply = func(from, to uint64, secret *bls.SecretKey, vvec *[]bls.PublicKey) rig.Action {
			if d := pendingOffset[from]; d != nil {
				delete(pendingOffset, from)
				neg := c13Negate(d)
				secret.Add(neg)
				applied = append(applied, fmt.Sprintf("contribute-reply %d->%d: share lowered by the offset", to, from))
				return rig.Deliver
			}
			k := ch.Choose(fmt.Sprintf("contribute-reply %d->%d", to, from), len(c13ReplyFaults))
			f := c13ReplyFaults[k]
			if f != "pass" {
				applied = append(applied, fmt.Sprintf("contribute-reply %d->%d: %s", to, from, f))
				rejecting = true
			}
			switch f {
			case "pass":
				return rig.Deliver
			case "lost":
				return rig.Drop
			case "share-offset-compensated":
				var d bls.SecretKey
				d.SetByCSPRNG()
				secret.Add(&d)
				pendingOffset[from] = &d
				return rig.Deliver
			default:
				// The reply is meant for the initiator of the swap (from).
				c13Tamper(f, from, ids, cfg.T, secret, vvec)
				return rig.Deliver
			}
		}
		pk, parts, gerr := c.Generate(ids[0], name, uint32(cfg.T), uint32(cfg.N))
		c.Intercept, c.ContributeReply = nil, nil
		held := holders(c, name)
		// Clean sessions left behind by a failed generation so that they do not pile up.
		for _, id := range ids {
			_ = c.Nodes[id].RecvAbort(rig.PeerName(ids[0]), name)
		}
		var viols []string
		if rejecting {
			if gerr == nil {
				viols = append(viols, "the generation reported success to the client")
			}
			if len(held) > 0 {
				viols = append(viols, fmt.Sprintf("instances %v hold an account under the name", held))
			}
		} else if len(applied) > 0 {
			// Only duplicate deliveries: nothing is demanded beyond all-or-nothing.
			if gerr != nil && len(held) > 0 {
				viols = append(viols, fmt.Sprintf("the generation failed (%v) but instances %v hold the account", gerr, held))
			}
		}
		_, _ = pk, parts
		oc := "failed-no-account"
		if gerr == nil {
			oc = "succeeded"
		} else if len(held) > 0 {
			oc = "failed-with-account"
		}
		res.Outcomes[oc]++
		for _, v := range viols {
			key := fmt.Sprintf("n=%d,t=%d:%s:%s", cfg.N, cfg.T, strings.Join(faultKinds(applied), "+"), firstWords(v, 6))
			if !seen[key] {
				seen[key] = true
				res.Viols = append(res.Viols, c13Viol{Key: key, What: fmt.Sprintf("n=%d t=%d, faults [%s]: %s", cfg.N, cfg.T, strings.Join(applied, "; "), v), Dev: ch.Dev})
			}
		}
		return nil
	})
	if err != nil {
		res.Err = err.Error()
	}
	res.Execs = st.Executions
	for s := range st.Sites {
		res.Sites = append(res.Sites, s)
	}
	for s := range st.SiteFaults {
		res.Faults = append(res.Faults, s)
	}
	sort.Strings(res.Sites)
	sort.Strings(res.Faults)
	return res
}

func faultKinds(applied []string) []string {
	var l []string
	for _, a := range applied {
		parts := strings.SplitN(a, ": ", 2)
		kind := strings.Fields(a)[0]
		if len(parts) == 2 {
			l = append(l, kind+":"+parts[1])
		} else {
			l = append(l, a)
		}
	}
	return l
}

func mustJSON(v any) string {
	b, _ := json.Marshal(v)
	return string(b)
}

// C13 enumerates faults in the prepare/execute/contribute exchange.
func C13(tier string) int {
	bound := 1
	if tier == "thorough" {
		bound = 2
	}
	if os.Getenv("VERIF_C13_WIRE") != "" {
		// Worker for the phase over the real gRPC transport.
		sub := ev.NewRun("C13", tier, "fault_enumeration")
		cells, err := c13OverTheWire(sub)
		if err != nil {
			fmt.Println("TABLES-ERROR " + err.Error())
			return 3
		}
		for _, v := range sub.Violations() {
			b, _ := json.Marshal(v)
			fmt.Println("TABLES-VIOLATION " + string(b))
		}
		fmt.Printf("TABLES-CELLS %d\n", cells)
		return 0
	}
	if os.Getenv("VERIF_C13_TABLES") != "" {
		// Worker for the peer-table phase: violations go to stdout, one JSON object per line.
		sub := ev.NewRun("C13", tier, "fault_enumeration")
		cells, err := c13PeerTables(sub)
		if err != nil {
			fmt.Println("TABLES-ERROR " + err.Error())
			return 3
		}
		for _, v := range sub.Violations() {
			b, _ := json.Marshal(v)
			fmt.Println("TABLES-VIOLATION " + string(b))
		}
		fmt.Printf("TABLES-CELLS %d\n", cells)
		return 0
	}
	if v := os.Getenv("VERIF_C13_CONFIG"); v != "" {
		var cfg c13Config
		_ = json.Unmarshal([]byte(v), &cfg)
		skip := map[string]bool{}
		var sl []string
		_ = json.Unmarshal([]byte(os.Getenv("VERIF_C13_SKIP")), &sl)
		for _, s := range sl {
			skip[s] = true
		}
		runtime.GOMAXPROCS(2)
		r := c13Child(cfg, bound, skip)
		fmt.Printf("SHARD-RESULT %s\n", mustJSON(r))
		return 0
	}
	run := ev.NewRun("C13", tier, "fault_enumeration")
	exe, err := os.Executable()
	if err != nil {
		run.HarnessErr = err
		return run.Finish()
	}
	var mu sync.Mutex
	var results []c13Result
	crashes := 0
	var wg sync.WaitGroup
	var firstErr error
	for _, cfg := range c13Configs {
		wg.Add(1)
		go func(cfg c13Config) {
			defer wg.Done()
			var skip []string
			for attempt := 0; attempt < 40; attempt++ {
				cmd := exec.Command(exe, "C13", tier)
				cmd.Env = append(os.Environ(), "VERIF_C13_CONFIG="+mustJSON(cfg), "VERIF_C13_SKIP="+mustJSON(skip))
				outb, _ := cmd.StdoutPipe()
				var stderr strings.Builder
				cmd.Stderr = &stderr
				if err := cmd.Start(); err != nil {
					mu.Lock()
					firstErr = err
					mu.Unlock()
					return
				}
				sc := bufio.NewScanner(outb)
				sc.Buffer(make([]byte, 1<<20), 1<<26)
				lastCase := ""
				var got *c13Result
				for sc.Scan() {
					line := sc.Text()
					if strings.HasPrefix(line, "CASE ") {
						lastCase = line[5:]
					}
					if strings.HasPrefix(line, "SHARD-RESULT ") {
						var r c13Result
						if err := json.Unmarshal([]byte(line[13:]), &r); err == nil {
							got = &r
						}
					}
				}
				werr := cmd.Wait()
				if got != nil {
					mu.Lock()
					results = append(results, *got)
					mu.Unlock()
					return
				}
				// The worker died: an instance crashed while handling the announced case.
				tail := stderr.String()
				if i := strings.Index(tail, "panic:"); i >= 0 {
					tail = tail[i:]
				}
				if len(tail) > 400 {
					tail = tail[:400]
				}
				var choices map[string]int
				_ = json.Unmarshal([]byte(lastCase), &choices)
				mu.Lock()
				crashes++
				run.Violate(fmt.Sprintf("crash:n=%d,t=%d:choices=%s", cfg.N, cfg.T, lastCase),
					fmt.Sprintf("n=%d t=%d: the process hosting the instances died (%v) while handling fault choices %s: %s", cfg.N, cfg.T, werr, lastCase, strings.ReplaceAll(tail, "\n", " | ")),
					map[string]any{"check": "C13", "config": cfg, "faults": choices})
				mu.Unlock()
				if lastCase == "" {
					mu.Lock()
					firstErr = fmt.Errorf("worker for %+v died before its first case: %s", cfg, tail)
					mu.Unlock()
					return
				}
				skip = append(skip, lastCase)
			}
		}(cfg)
	}
	wg.Wait()
	if firstErr != nil {
		run.HarnessErr = firstErr
		return run.Finish()
	}
	execs := 0
	sites, faults := map[string]bool{}, map[string]bool{}
	outcomes := map[string]int{}
	samples := ev.NewSamples(4)
	for _, r := range results {
		if r.Err != "" {
			run.HarnessErr = fmt.Errorf("config %+v: %s", r.Config, r.Err)
			return run.Finish()
		}
		execs += r.Execs
		for _, s := range r.Sites {
			sites[s] = true
		}
		for _, s := range r.Faults {
			faults[s] = true
		}
		for k, v := range r.Outcomes {
			outcomes[fmt.Sprintf("n=%d,t=%d:%s", r.Config.N, r.Config.T, k)] += v
		}
		samples.Add(map[string]any{"config": r.Config, "executions": r.Execs, "outcomes": r.Outcomes})
		for _, v := range r.Viols {
			run.Violate(v.Key, v.What, map[string]any{"check": "C13", "config": r.Config, "faults": v.Dev})
		}
	}
	var fl []string
	for f := range faults {
		fl = append(fl, f)
	}
	sort.Strings(fl)
	// (In worker processes: a change that makes an instance die must not take this check with it.)
	tables, stop := c13InWorker(run, tier, "VERIF_C13_TABLES", "peer-table", "a generation on a cluster in which one instance does not know one of the participants")
	if stop {
		return run.Finish()
	}
	wire, stop := c13InWorker(run, tier, "VERIF_C13_WIRE", "over-the-wire", "a generation over the real gRPC transport in which a contribution is refused")
	if stop {
		return run.Finish()
	}
	run.Coverage = map[string]any{
		"generations_with_an_instance_that_does_not_know_a_participant":   tables,
		"generations_over_the_real_transport_with_a_refused_contribution": wire,
		"evaluations":         execs,
		"distinct_nontrivial": len(outcomes),
		"rule":                fmt.Sprintf("for (n,t) in {(2,2),(3,2),(3,3),(4,3)} every execution of a full generation on real instances with at most %d faults, where every prepare and execute message (lost, error reply, duplicate with the sender seeing the second reply, duplicate with the sender seeing the first), every contribution request (lost, error reply, random share, contribution made for another identifier, altered commitment, vector one entry short, vector one entry long with a consistent share, vector with no entries, all-zero share, duplicate, and the genuine contribution followed by a second copy with the same share and an altered, short, long or empty vector) and every contribution reply (lost, random share, other identifier, altered commitment, short, long, empty, zero share, and a share raised by a random offset with the next reply to the same instance lowered by it) is a choice point; run in worker processes so that a crash is observed; oracle: after a rejecting fault the client gets an error and no instance holds the account; duplicates are all-or-nothing; no worker dies; distinct = (config, outcome) pairs", bound),
		"samples":             samples.List(),
		"exhaustive":          true,
		"deviation_bound":     bound,
		"configs":             len(c13Configs),
		"site_fault_pairs":    fl,
		"outcomes":            outcomes,
		"worker_crashes":      crashes,
	}
	run.Assumptions = []string{"commit and abort messages are not faulted (the property speaks of prepare, execute and contributions)", "the gRPC sender and TLS are replaced by direct delivery to the real receiver handlers with marshalled messages"}
	return run.Finish()
}

func init() {
	Registry["C13"] = C13
}

// c13PeerTables: one instance has not been told of one of the other participants (peer tables are rolled out one instance
// at a time). Its execute step cannot reach that participant and has to fail; the generation then ends with an error and
// nobody holds the account. Every (instance, unknown participant, initiator) with three instances, threshold 2.
func c13PeerTables(run *ev.Run) (int, error) {
	ids := []uint64{1, 2, 3}
	cells := 0
	for _, k := range ids {
		for _, j := range ids {
			if j == k {
				continue
			}
			c, err := rig.NewCluster(rig.ClusterOpts{IDs: ids, Unknown: map[uint64][]uint64{k: {j}}})
			if err != nil {
				return cells, err
			}
			c.SuitableOrder = func(_ uint64, n uint32, all map[uint64]*core.Endpoint) []*core.Endpoint {
				return endpointsOf(all, ids[:n])
			}
			for _, initiator := range ids {
				if initiator == k {
					continue // its own table must hold every participant it selects
				}
				cells++
				name := fmt.Sprintf("%s/tables-%d-%d-%d", rig.DistWallet, k, j, initiator)
				pk, parts, gerr := c.Generate(initiator, name, 2, 3)
				held := holders(c, name)
				rp := map[string]any{"check": "C13", "peer_tables": true, "instance": k, "unknown": j, "initiator": initiator}
				if gerr != nil && len(held) > 0 {
					run.Violate(fmt.Sprintf("peer-table:failed-with-account:instance=%d:unknown=%d", k, j),
						fmt.Sprintf("instance %d does not know participant %d; a generation (2 of 3) started on instance %d failed (%v) but instances %v hold the account", k, j, initiator, gerr, held), rp)
				}
				if gerr == nil {
					for _, pr := range verifyGeneration(c, name, pk, parts, 2, 4) {
						run.Violate(fmt.Sprintf("peer-table:success-inconsistent:instance=%d:unknown=%d:%s", k, j, firstWords(pr, 5)),
							fmt.Sprintf("instance %d does not know participant %d; a generation (2 of 3) started on instance %d reported success, but %s", k, j, initiator, pr), rp)
					}
				}
				for _, id := range ids {
					_ = c.Nodes[id].RecvAbort(rig.PeerName(initiator), name)
				}
			}
			c.Close()
		}
	}
	return cells, nil
}

// c13InWorker runs one phase of this check in a worker process (env selects it) and copies its violations; a worker that
// dies inside Dirk's code is a finding. stop is true if a harness error was recorded.
func c13InWorker(run *ev.Run, tier, env, label, whatDies string) (cells int, stop bool) {
	exe, err := os.Executable()
	if err != nil {
		run.HarnessErr = err
		return 0, true
	}
	cmd := exec.Command(exe, "C13", tier)
	cmd.Env = append(os.Environ(), env+"=1")
	out, cerr := cmd.CombinedOutput()
	text := string(out)
	for _, line := range strings.Split(text, "\n") {
		switch {
		case strings.HasPrefix(line, "TABLES-VIOLATION "):
			var v ev.Violation
			if json.Unmarshal([]byte(strings.TrimPrefix(line, "TABLES-VIOLATION ")), &v) == nil {
				run.Violate(v.Key, v.What, v.Replay)
			}
		case strings.HasPrefix(line, "TABLES-CELLS "):
			fmt.Sscanf(line, "TABLES-CELLS %d", &cells)
		case strings.HasPrefix(line, "TABLES-ERROR "):
			run.HarnessErr = fmt.Errorf("%s phase: %s", label, strings.TrimPrefix(line, "TABLES-ERROR "))
			return cells, true
		}
	}
	if cerr != nil {
		i := strings.Index(text, "fatal error: ")
		if i < 0 {
			i = strings.Index(text, "panic: ")
		}
		if i < 0 || !strings.Contains(text[i:], "github.com/attestantio/dirk/") {
			if len(text) > 1200 {
				text = text[len(text)-1200:]
			}
			run.HarnessErr = fmt.Errorf("%s phase: worker: %v: %s", label, cerr, text)
			return cells, true
		}
		tail := text[i:]
		if len(tail) > 1500 {
			tail = tail[:1500]
		}
		run.Violate(label+":crash", whatDies+" makes the process that hosts the instances die: "+strings.ReplaceAll(tail, "\n", " | "), map[string]any{"check": "C13", "phase": label})
	}
	return cells, false
}

// c13OverTheWire: three real instances that talk over the real gRPC transport (real API servers, real sender). Instance
// k does not know participant j, so the contribution j sends to k during its execute step is refused ("unknown sender")
// and comes back to j's sender as a transport-level error. The generation ends with an error, nobody holds the account,
// and no instance dies. Every (k, j) with j < k (contributions go from lower to higher identifiers), every initiator
// whose own table is complete.
func c13OverTheWire(run *ev.Run) (int, error) {
	ids := []uint64{1, 2, 3}
	cells := 0
	for _, k := range ids {
		for _, j := range ids {
			if j >= k {
				continue
			}
			nc, err := rig.NewNetClusterUnknown(ids, map[uint64][]uint64{k: {j}})
			if err != nil {
				return cells, err
			}
			for _, initiator := range ids {
				if initiator == k {
					continue
				}
				cells++
				name := fmt.Sprintf("%s/wire-%d-%d-%d", rig.DistWallet, k, j, initiator)
				_, gerr := nc.Generate(initiator, name, 2, 3)
				held := holders(nc.View(), name)
				if gerr == nil {
					run.Violate(fmt.Sprintf("wire:success-with-refused-contribution:instance=%d:unknown=%d", k, j),
						fmt.Sprintf("over the real transport: instance %d does not know participant %d (its contribution is refused), yet a generation (2 of 3) started on instance %d reported success", k, j, initiator), map[string]any{"check": "C13", "phase": "over-the-wire"})
				} else if len(held) > 0 {
					run.Violate(fmt.Sprintf("wire:failed-with-account:instance=%d:unknown=%d", k, j),
						fmt.Sprintf("over the real transport: instance %d does not know participant %d; a generation (2 of 3) started on instance %d failed (%v) but instances %v hold the account", k, j, initiator, gerr, held), map[string]any{"check": "C13", "phase": "over-the-wire"})
				}
			}
			nc.Close()
		}
	}
	return cells, nil
}
