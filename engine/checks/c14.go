//go:build verifsched

package checks

import (
	"context"
	"fmt"
	"runtime"
	"sync"
	"time"

	"verif/ev"
	"verif/model"
	"verif/rig"

	"github.com/attestantio/dirk/rules"
	"github.com/attestantio/dirk/services/checker"
	"github.com/herumi/bls-eth-go-binary/bls"
)

// duty is one of two conflicting duties.
type duty struct {
	prop bool
	e    Ent
}

type dutyPair struct {
	name string
	a, b duty
}

func c14Pairs() []dutyPair {
	return []dutyPair{
		{"double-vote-same-source", duty{e: Ent{S: 1, T: 2, Root: 1}}, duty{e: Ent{S: 1, T: 2, Root: 2}}},
		{"double-vote-other-source", duty{e: Ent{S: 0, T: 2, Root: 1}}, duty{e: Ent{S: 1, T: 2, Root: 1}}},
		{"surround", duty{e: Ent{S: 1, T: 2, Root: 1}}, duty{e: Ent{S: 0, T: 3, Root: 1}}},
		{"double-proposal", duty{prop: true, e: Ent{Slot: 5, Root: 1}}, duty{prop: true, e: Ent{Slot: 5, Root: 2}}},
		// The same at the lowest legal values: the genesis attestation, the first epoch, slot 0.
		{"double-vote-genesis", duty{e: Ent{S: 0, T: 0, Root: 1}}, duty{e: Ent{S: 0, T: 0, Root: 2}}},
		{"double-vote-first-epoch", duty{e: Ent{S: 0, T: 1, Root: 1}}, duty{e: Ent{S: 0, T: 1, Root: 2}}},
		{"double-proposal-slot-0", duty{prop: true, e: Ent{Slot: 0, Root: 1}}, duty{prop: true, e: Ent{Slot: 0, Root: 2}}},
		// ... and at the highest: 2^63-1 is the largest value that can be recorded, 2^63 the first that cannot (whatever an
		// instance signs it must be able to remember).
		{"double-vote-top-epoch", duty{e: Ent{S: 1<<63 - 2, T: 1<<63 - 1, Root: 1}}, duty{e: Ent{S: 1<<63 - 2, T: 1<<63 - 1, Root: 2}}},
		{"double-vote-beyond-top-epoch", duty{e: Ent{S: 1, T: 1 << 63, Root: 1}}, duty{e: Ent{S: 1, T: 1 << 63, Root: 2}}},
		{"surround-from-beyond-top-epoch", duty{e: Ent{S: 1, T: 2, Root: 1}}, duty{e: Ent{S: 0, T: 1 << 63, Root: 1}}},
		{"double-proposal-top-slot", duty{prop: true, e: Ent{Slot: 1<<63 - 1, Root: 1}}, duty{prop: true, e: Ent{Slot: 1<<63 - 1, Root: 2}}},
		{"double-proposal-beyond-top-slot", duty{prop: true, e: Ent{Slot: 1 << 63, Root: 1}}, duty{prop: true, e: Ent{Slot: 1 << 63, Root: 2}}},
	}
}

func (d duty) root() [32]byte {
	if d.prop {
		return model.SigningRoot(PropRoot(d.e), PropDomain(0))
	}
	return model.SigningRoot(AttRoot(d.e), AttDomain(0))
}

// Routes by which a duty can reach an instance.
const (
	routeSingleName = 0 // single request, account addressed by name
	routeSingleKey  = 1 // single request, account addressed by (share) public key
	routeBatch1Name = 2 // batch of one, by name
	routeBatch2Key  = 3 // batch of two (with an unrelated plain account of the same instance), by public key
	routeBatch2Last = 4 // batch of two by public key, the duty first and a companion entry that is refused last
	routeDecoy      = 6 // the duty's own data travels in the batch entry of an unrelated plain account; the entry for the
	// account is a harmless later attestation that shares slot and committee index with it. The signature returned for
	// the account counts as a release of the duty if it is a valid partial signature over the duty.
	routeBatch2Pad = 7 // as routeBatch2Key, the account addressed by its share public key followed by one more byte (the
	// account lookup uses the first 48 bytes)
	routeBatch2KeyFault   = 8  // as routeBatch2Key, while every write to this instance's slashing-protection store fails
	routeSingleFault      = 9  // as routeSingleName, while every write to this instance's slashing-protection store fails
	routeBatch2SameTarget = 10 // batch of two by public key: a fresh plain account's attestation with the duty's target
	// epoch and source 0 first, the duty second (what is recorded for one entry must not borrow from its neighbour)
	routeWarmSingle = 11 // not a duty at all: an older attestation (source 0, target 1) for the account by the single
	// path, before anything else (whatever one path remembers about a key, the other paths' writes must reach it)
	routeStale = 5 // not a duty at all: a batch of two whose entry for the account is an older attestation (source 0,
	// target 1), which is refused once anything later has been signed; neither duty may become signable through it
)

// A sequence element: duty (0 = first, 1 = second of the conflicting pair) + 2*route.
func symDuty(sym int) int  { return sym % 2 }
func symRoute(sym int) int { return sym / 2 }

// signDuty asks instance id for a partial signature on the duty through the given route.
func signDuty(c *rig.Cluster, id uint64, account string, d duty, route int) []byte {
	n := c.Nodes[id]
	creds := &checker.Credentials{Client: rig.DefaultClient, RequestID: "s", IP: "10.0.0.1"}
	name, key := account, []byte(nil)
	ctx := n.Rig.Ctx
	switch route {
	case routeBatch2KeyFault, routeSingleFault:
		// The store of this instance cannot be written while the request is served (reads work).
		InstallSigFaults()
		ctx = context.WithValue(ctx, sigFaultKey{}, "write")
		route = map[int]int{routeBatch2KeyFault: routeBatch2Key, routeSingleFault: routeSingleName}[route]
	}
	if route == routeSingleKey || route == routeBatch2Key || route == routeBatch2Last || route == routeBatch2Pad || route == routeBatch2SameTarget {
		_, acc, err := n.Rig.RealFetch.FetchAccount(n.Rig.Ctx, account)
		if err != nil {
			return nil
		}
		name, key = "", acc.PublicKey().Marshal()
	}
	if d.prop {
		_, sig := n.Rig.Signer.SignBeaconProposal(ctx, creds, name, key, PropData(d.e))
		return sig
	}
	var data *rules.SignBeaconAttestationData = AttData(d.e)
	switch route {
	case routeBatch1Name:
		_, sigs := n.Rig.Signer.SignBeaconAttestations(ctx, creds, []string{name}, nil, []*rules.SignBeaconAttestationData{data})
		if len(sigs) > 0 {
			return sigs[0]
		}
		return nil
	case routeBatch2Pad:
		comp := n.Rig.AddSymAccount("Wallet 1", "", "pass", true)
		_, sigs := n.Rig.Signer.SignBeaconAttestations(ctx, creds, []string{"", ""}, [][]byte{comp.PubBytes(), append(append([]byte{}, key...), 0)},
			[]*rules.SignBeaconAttestationData{AttData(Ent{S: 0, T: 1, Root: 1}), data})
		if len(sigs) > 1 {
			return sigs[1]
		}
		return nil
	case routeBatch2SameTarget:
		comp := n.Rig.AddSymAccount("Wallet 1", "", "pass", true)
		_, sigs := n.Rig.Signer.SignBeaconAttestations(ctx, creds, []string{"", ""}, [][]byte{comp.PubBytes(), key},
			[]*rules.SignBeaconAttestationData{AttData(Ent{S: 0, T: d.e.T, Root: 1}), data})
		if len(sigs) > 1 {
			return sigs[1]
		}
		return nil
	case routeBatch2Key:
		// The companion is a fresh plain account each time, so its entry is always approved.
		comp := n.Rig.AddSymAccount("Wallet 1", "", "pass", true)
		_, sigs := n.Rig.Signer.SignBeaconAttestations(ctx, creds, []string{"", ""}, [][]byte{comp.PubBytes(), key},
			[]*rules.SignBeaconAttestationData{AttData(Ent{S: 0, T: 1, Root: 1}), data})
		if len(sigs) > 1 {
			return sigs[1]
		}
		return nil
	case routeBatch2Last:
		// The companion has already voted for a later target, so its entry, which comes last, is refused.
		comp := n.Rig.AddSymAccount("Wallet 1", "", "pass", true)
		n.Rig.Signer.SignBeaconAttestation(n.Rig.Ctx, creds, "", comp.PubBytes(), AttData(Ent{S: 3, T: 4, Root: 1}))
		_, sigs := n.Rig.Signer.SignBeaconAttestations(ctx, creds, []string{"", ""}, [][]byte{key, comp.PubBytes()},
			[]*rules.SignBeaconAttestationData{data, AttData(Ent{S: 0, T: 1, Root: 1})})
		if len(sigs) > 0 {
			return sigs[0]
		}
		return nil
	}
	_, sig := n.Rig.Signer.SignBeaconAttestation(ctx, creds, name, key, data)
	return sig
}

// signDecoy sends instance id a batch of two: the duty's data for a fresh plain account, and for the distributed account
// an attestation with the duty's slot and committee index but another block root and a target ten epochs later. It
// returns the signature the account's entry got if (and only if) that signature is a valid partial signature over the
// duty itself.
func signDecoy(c *rig.Cluster, id uint64, account string, d duty) []byte {
	n := c.Nodes[id]
	creds := &checker.Credentials{Client: rig.DefaultClient, RequestID: "s", IP: "10.0.0.1"}
	_, acc, err := n.Rig.RealFetch.FetchAccount(n.Rig.Ctx, account)
	if err != nil {
		return nil
	}
	comp := n.Rig.AddSymAccount("Wallet 1", "", "pass", true)
	real := AttData(d.e)
	decoy := AttData(Ent{S: d.e.S, T: d.e.T + 10, Root: 7})
	decoy.Slot, decoy.CommitteeIndex = real.Slot, real.CommitteeIndex
	_, sigs := n.Rig.Signer.SignBeaconAttestations(n.Rig.Ctx, creds, []string{"", ""}, [][]byte{comp.PubBytes(), acc.PublicKey().Marshal()},
		[]*rules.SignBeaconAttestationData{real, decoy})
	if len(sigs) < 2 || len(sigs[1]) == 0 {
		return nil
	}
	var sig bls.Sign
	var pk bls.PublicKey
	if sig.Deserialize(sigs[1]) != nil || pk.Deserialize(acc.PublicKey().Marshal()) != nil {
		return nil
	}
	root := d.root()
	if !sig.VerifyByte(&pk, append([]byte{}, root[:]...)) {
		return nil
	}
	return sigs[1]
}

// signStale sends instance id a batch of two: an approved entry for a fresh plain account and, for the distributed
// account, an attestation older than both duties of any pair with targets >= 2.
func signStale(c *rig.Cluster, id uint64, account string) {
	n := c.Nodes[id]
	creds := &checker.Credentials{Client: rig.DefaultClient, RequestID: "s", IP: "10.0.0.1"}
	_, acc, err := n.Rig.RealFetch.FetchAccount(n.Rig.Ctx, account)
	if err != nil {
		return
	}
	comp := n.Rig.AddSymAccount("Wallet 1", "", "pass", true)
	n.Rig.Signer.SignBeaconAttestations(n.Rig.Ctx, creds, []string{"", ""}, [][]byte{comp.PubBytes(), acc.PublicKey().Marshal()},
		[]*rules.SignBeaconAttestationData{AttData(Ent{S: 0, T: 1, Root: 1}), AttData(Ent{S: 0, T: 1, Root: 9})})
}

// c14RoutedSequences: every sequence of length <= 2 over the routed duties (5 routes for attestations, the two
// single routes for proposals), plus every sequence of length 3 over the plain single-by-name duties.
func c14RoutedSequences(prop bool) [][]int {
	routes := []int{routeSingleName, routeSingleKey, routeBatch1Name, routeBatch2Key, routeBatch2Last, routeBatch2Pad, routeBatch2SameTarget}
	if prop {
		routes = []int{routeSingleName, routeSingleKey}
	}
	var syms []int
	for _, r := range routes {
		syms = append(syms, 2*r, 2*r+1)
	}
	res := [][]int{{}}
	for _, a := range syms {
		res = append(res, []int{a})
		for _, b := range syms {
			res = append(res, []int{a, b})
		}
	}
	for _, s := range c14Sequences(3) {
		if len(s) == 3 {
			res = append(res, s)
		}
	}
	// A duty that arrives while the instance's store cannot be written, followed by the other (or the same) duty by any
	// route once the store works again: whatever was signed during the fault still counts.
	faulty := []int{routeSingleFault, routeBatch2KeyFault}
	if prop {
		faulty = []int{routeSingleFault}
	}
	for _, r := range faulty {
		for a := 0; a < 2; a++ {
			res = append(res, []int{2*r + a})
			for _, b := range syms {
				res = append(res, []int{2*r + a, b})
			}
		}
	}
	if !prop {
		// An older attestation for the account, inside a batch, between (and before, and after) the two duties.
		// The other duty smuggled as a decoy after the first was signed, in both directions, and in both orders.
		for a := 0; a < 2; a++ {
			res = append(res, []int{a, 2*routeDecoy + (1 - a)}, []int{2*routeDecoy + a, 1 - a}, []int{2*routeDecoy + a, 2*routeDecoy + (1 - a)})
		}
		// An older attestation by the single path first, then one duty inside a batch, then the other by any path.
		warm := 2 * routeWarmSingle
		for a := 0; a < 2; a++ {
			for _, r := range []int{routeBatch2Key, routeBatch2Last, routeBatch2SameTarget} {
				res = append(res, []int{warm, 2*r + a, 1 - a}, []int{warm, 2*r + a, 2*routeBatch2Key + (1 - a)}, []int{warm, 2*r + a, 2*routeBatch1Name + (1 - a)})
			}
		}
		stale := 2 * routeStale
		for a := 0; a < 2; a++ {
			for b := 0; b < 2; b++ {
				res = append(res, []int{a, stale, b}, []int{stale, a, b}, []int{a, b, stale}, []int{2*routeSingleKey + a, stale, 2*routeBatch1Name + b})
			}
		}
	}
	return res
}

func c14Sequences(maxLen int) [][]int {
	res := [][]int{{}}
	frontier := [][]int{{}}
	for l := 1; l <= maxLen; l++ {
		var next [][]int
		for _, s := range frontier {
			for d := 0; d < 2; d++ {
				ns := append(append([]int{}, s...), d)
				next = append(next, ns)
				res = append(res, ns)
			}
		}
		frontier = next
	}
	return res
}

// runAssignment: on a freshly generated account, instance ids[i] performs sequence seqs[i]; returns violations.
func runAssignment(c *rig.Cluster, ids []uint64, t uint32, pair dutyPair, seqs [][]int, serial *int) (string, []string, error) {
	*serial++
	account := fmt.Sprintf("%s/c14-%d", rig.DistWallet, *serial)
	pk, parts, err := c.Generate(ids[0], account, t, uint32(len(ids)))
	if err != nil {
		return "", nil, fmt.Errorf("generation n=%d t=%d failed: %w", len(ids), t, err)
	}
	_ = parts
	before := len(c.Log)
	sigsA, sigsB := map[uint64][]byte{}, map[uint64][]byte{}
	var probs []string
	outcome := ""
	for i, id := range ids {
		ra, rb := false, false
		for _, d := range seqs[i] {
			if symRoute(d) == routeStale {
				if !pair.a.prop && pair.a.e.T >= 2 && pair.b.e.T >= 2 {
					signStale(c, id, account)
				}
				continue
			}
			if symRoute(d) == routeWarmSingle {
				if !pair.a.prop && pair.a.e.T >= 2 && pair.b.e.T >= 2 && pair.a.e.T < 1<<62 && pair.b.e.T < 1<<62 {
					n := c.Nodes[id]
					n.Rig.Signer.SignBeaconAttestation(n.Rig.Ctx, &checker.Credentials{Client: rig.DefaultClient, RequestID: "s", IP: "10.0.0.1"}, account, nil, AttData(Ent{S: 0, T: 1, Root: 9}))
				}
				continue
			}
			if symRoute(d) == routeDecoy {
				du := pair.a
				if symDuty(d) == 1 {
					du = pair.b
				}
				if du.prop {
					continue
				}
				if sig := signDecoy(c, id, account, du); len(sig) > 0 {
					if symDuty(d) == 0 {
						sigsA[id], ra = sig, true
					} else {
						sigsB[id], rb = sig, true
					}
				}
				continue
			}
			if symDuty(d) == 0 {
				if sig := signDuty(c, id, account, pair.a, symRoute(d)); len(sig) > 0 {
					sigsA[id] = sig
					ra = true
				}
			} else {
				if sig := signDuty(c, id, account, pair.b, symRoute(d)); len(sig) > 0 {
					sigsB[id] = sig
					rb = true
				}
			}
		}
		if ra && rb {
			probs = append(probs, fmt.Sprintf("instance %d released partial signatures for both conflicting duties (sequence %v)", id, seqs[i]))
		}
		switch {
		case ra && rb:
			outcome += "X"
		case ra:
			outcome += "A"
		case rb:
			outcome += "B"
		default:
			outcome += "-"
		}
	}
	if len(c.Log) != before {
		probs = append(probs, "instances exchanged messages while signing (outcomes would not compose)")
	}
	// Real recovery: can A reach the threshold? can B?
	reach := func(sigs map[uint64][]byte, root [32]byte) bool {
		var have []uint64
		for _, id := range ids {
			if _, ok := sigs[id]; ok {
				have = append(have, id)
			}
		}
		if len(have) < int(t) {
			return false
		}
		for _, sub := range subsets(have, int(t)) {
			if recoverAndVerify(sigs, sub, pk, root) {
				return true
			}
		}
		return false
	}
	ra, rb := reach(sigsA, pair.a.root()), reach(sigsB, pair.b.root())
	if ra && rb {
		probs = append(probs, fmt.Sprintf("both conflicting duties collected %d valid partial signatures and recover to valid composite signatures", t))
	}
	if ra {
		outcome += "|A-reaches"
	}
	if rb {
		outcome += "|B-reaches"
	}
	return outcome, probs, nil
}

// C14 checks that two conflicting duties can never both reach the signing threshold.
func C14(tier string) int {
	// Concurrent part (A || B on one instance) uses the scheduler shards.
	bound := 2
	var jobs []concJob
	for _, cs := range []CScenario{
		{Name: "A||B double vote", Threads: [][]CReq{{att1(0, 1, 2)}, {att1(0, 1, 2)}}},
		{Name: "A||B double vote other source", Threads: [][]CReq{{att1(0, 0, 2)}, {att1(0, 1, 2)}}},
		{Name: "A||B surround", Threads: [][]CReq{{att1(0, 1, 2)}, {att1(0, 0, 3)}}},
		{Name: "A||B double proposal", Threads: [][]CReq{{prop1(0, 5)}, {prop1(0, 5)}}},
		{Name: "A||B||A double vote", Threads: [][]CReq{{att1(0, 1, 2)}, {att1(0, 1, 2)}, {att1(0, 1, 2)}}},
		{Name: "A;B||B;A surround", Threads: [][]CReq{{att1(0, 1, 2), att1(0, 0, 3)}, {att1(0, 0, 3), att1(0, 1, 2)}}},
		// One duty arrives alone, the other inside a batch beside another account's entry (and both inside batches).
		{Name: "A||[B,x] double vote", Threads: [][]CReq{{att1(0, 1, 2)}, {attsN([]int{0, 1}, 1, 2)}}},
		{Name: "A||[x,B] surround", Threads: [][]CReq{{att1(0, 1, 2)}, {attsN([]int{1, 0}, 0, 3)}}},
		{Name: "[A,x]||[x,B] double vote", Threads: [][]CReq{{attsN([]int{0, 1}, 1, 2)}, {attsN([]int{1, 0}, 1, 2)}}},
	} {
		jobs = append(jobs, concJob{cs: cs, linear: true, bound: bound})
	}
	if sh, n, ok := parseShard(); ok {
		runConcShard(jobs, sh, n, time.Now().Add(10*time.Minute))
		return 0
	}
	run := ev.NewRun("C14", tier, "exploration")
	results, err := runConcParent("C14", tier, len(jobs))
	if err != nil {
		run.HarnessErr = err
		return run.Finish()
	}
	schedExecs := 0
	for _, r := range results {
		if r.Err != "" {
			run.HarnessErr = fmt.Errorf("scenario %s: %s", r.Scenario, r.Err)
			return run.Finish()
		}
		schedExecs += r.Stats.Executions
		for _, v := range r.Violations {
			run.Violate("concurrent:"+v.Key, v.What, map[string]any{"check": "C14", "scenario": r.Def, "choices": v.Choices, "schedule": v.Schedule})
		}
	}

	// Sequential part on real clusters with real DKG-generated accounts.
	maxN := 4
	menuFor := func(n int) [][]int {
		all := c14Sequences(3)
		five := [][]int{{}, {0}, {1}, {0, 1}, {1, 0, 1}}
		three := [][]int{{}, {0, 1}, {1, 0}}
		switch {
		case n <= 2:
			return all
		case n == 3 && tier == "thorough":
			return all
		case n == 3:
			return five
		case n == 4 && tier == "thorough":
			return five
		default:
			return three
		}
	}
	if tier == "thorough" {
		maxN = 5
	}
	deadline := time.Now().Add(150 * time.Second)
	if tier == "thorough" {
		deadline = time.Now().Add(30 * time.Minute)
	}
	type unit struct {
		n      int
		t      uint32
		pair   dutyPair
		routed bool // per-instance exhaustive part: instance 1 runs every routed sequence, the others nothing
	}
	var units []unit
	for _, pair := range c14Pairs() {
		units = append(units, unit{n: 2, t: 2, pair: pair, routed: true})
	}
	for n := 2; n <= maxN; n++ {
		for t := uint32(n/2 + 1); t <= uint32(n); t++ {
			for _, pair := range c14Pairs() {
				units = append(units, unit{n: n, t: t, pair: pair})
			}
		}
	}
	cells := 0
	outcomes := map[string]int{}
	samples := ev.NewSamples(5)
	capped := false
	var mu sync.Mutex
	var firstErr error
	next := 0
	var wg sync.WaitGroup
	for wk := 0; wk < 8; wk++ {
		wg.Add(1)
		go func() {
			defer wg.Done()
			for {
				mu.Lock()
				if next >= len(units) || firstErr != nil {
					mu.Unlock()
					return
				}
				u := units[next]
				next++
				mu.Unlock()
				ids := make([]uint64, u.n)
				for i := range ids {
					ids[i] = uint64(i + 1)
				}
				c, err := rig.NewCluster(rig.ClusterOpts{IDs: ids})
				if err != nil {
					mu.Lock()
					firstErr = err
					mu.Unlock()
					return
				}
				menu := menuFor(u.n)
				if u.routed {
					menu = c14RoutedSequences(u.pair.a.prop)
				}
				idx := make([]int, u.n)
				serial := 0
				local := 0
				for {
					if time.Now().After(deadline) {
						mu.Lock()
						capped = true
						mu.Unlock()
						break
					}
					as := make([][]int, u.n)
					for i := range as {
						as[i] = menu[idx[i]]
					}
					local++
					if local%300 == 0 {
						// The scratch wallet store deadlocks beyond 1024 accounts per wallet (a producer goroutine keeps its
						// read lock while blocked on a full channel): start a fresh cluster well before that.
						c.Close()
						c, err = rig.NewCluster(rig.ClusterOpts{IDs: ids})
						if err != nil {
							mu.Lock()
							firstErr = err
							mu.Unlock()
							return
						}
					}
					oc, probs, err := runAssignment(c, ids, u.t, u.pair, as, &serial)
					mu.Lock()
					if err != nil && firstErr == nil {
						firstErr = err
					}
					cells++
					outcomes[fmt.Sprintf("n=%d,t=%d,%s:%s", u.n, u.t, u.pair.name, oc)]++
					if cells%211 == 1 {
						samples.Add(map[string]any{"n": u.n, "t": u.t, "pair": u.pair.name, "sequences": as, "outcome": oc})
					}
					for _, p := range probs {
						run.Violate(fmt.Sprintf("%s:n=%d:t=%d:%s", u.pair.name, u.n, u.t, firstWords(p, 6)), fmt.Sprintf("n=%d t=%d %s, sequences %v (0 = first duty, 1 = second): %s", u.n, u.t, u.pair.name, as, p),
							map[string]any{"check": "C14", "n": u.n, "t": u.t, "pair": u.pair.name, "sequences": as})
					}
					mu.Unlock()
					if err != nil {
						break
					}
					k := 0
					if u.routed {
						// Only the first instance varies.
						idx[0]++
						if idx[0] >= len(menu) {
							break
						}
						continue
					}
					for k < u.n {
						idx[k]++
						if idx[k] < len(menu) {
							break
						}
						idx[k] = 0
						k++
					}
					if k == u.n {
						break
					}
				}
				c.Close()
			}
		}()
	}
	wg.Wait()
	if firstErr != nil {
		run.HarnessErr = firstErr
		return run.Finish()
	}
	// The routed sequences that contain a batch of two, once more with a single processor: util.Scatter then hands the
	// whole batch to one worker (with more processors than entries every entry has a worker of its own).
	oneProc := 0
	{
		old := runtime.GOMAXPROCS(1)
		ids := []uint64{1, 2}
		serial := 0
		for _, pair := range c14Pairs() {
			if pair.a.prop {
				continue
			}
			c, err := rig.NewCluster(rig.ClusterOpts{IDs: ids})
			if err != nil {
				runtime.GOMAXPROCS(old)
				run.HarnessErr = err
				return run.Finish()
			}
			for _, seq := range c14RoutedSequences(false) {
				hasBatch2 := false
				for _, sym := range seq {
					if r := symRoute(sym); r == routeBatch2Key || r == routeBatch2Last || r == routeStale || r == routeDecoy || r == routeBatch2Pad || r == routeBatch2KeyFault || r == routeBatch2SameTarget {
						hasBatch2 = true
					}
				}
				if !hasBatch2 || time.Now().After(deadline) {
					continue
				}
				as := [][]int{seq, {}}
				oc, probs, err := runAssignment(c, ids, 2, pair, as, &serial)
				if err != nil {
					runtime.GOMAXPROCS(old)
					run.HarnessErr = err
					return run.Finish()
				}
				cells++
				oneProc++
				outcomes[fmt.Sprintf("n=2,t=2,%s,GOMAXPROCS=1:%s", pair.name, oc)]++
				for _, p := range probs {
					run.Violate(fmt.Sprintf("%s:n=2:t=2:GOMAXPROCS=1:%s", pair.name, firstWords(p, 6)), fmt.Sprintf("n=2 t=2 %s, GOMAXPROCS=1, sequences %v (0 = first duty, 1 = second): %s", pair.name, as, p),
						map[string]any{"check": "C14", "n": 2, "t": 2, "pair": pair.name, "sequences": as, "gomaxprocs": 1})
				}
			}
			c.Close()
		}
		runtime.GOMAXPROCS(old)
	}
	fullN := 2
	if tier == "thorough" {
		fullN = 3
	}
	run.Coverage = map[string]any{
		"evaluations":                         cells + schedExecs,
		"distinct_nontrivial":                 len(outcomes),
		"rule":                                fmt.Sprintf("for every accepted (n,t) with n <= %d and every conflicting pair (double vote with same and with other source, surround, double proposal, and double votes / double proposal at the lowest legal values 0->0, 0->1, slot 0): every assignment of request sequences over the two duties to the instances (all 15 sequences of length <= 3 per instance for n <= %d, five representative sequences above), each on a freshly DKG-generated account on real instances; on a 2-of-2 account one instance additionally receives every sequence of length <= 2 over duty x route (single by name, single by share key, batch of one, batch of two after an approved companion, batch of two before a refused companion, batch of two with the share key followed by an extra byte) and sequences with a refused older attestation for the account, sent inside a batch, before, between and after the duties, and sequences in which a duty's data travels in another account's batch entry while the account's own entry shares slot and committee index with it; the sequences containing a batch of two also with GOMAXPROCS=1 so that one Scatter worker handles the whole batch; per assignment no instance may release partial signatures for both duties, and real threshold recovery over every t-subset must not succeed for both duties; plus both duties delivered concurrently to one instance under the cooperative scheduler (preemption bound %d); distinct = (n,t,pair,outcome vector) classes", maxN, fullN, bound),
		"samples":                             samples.List(),
		"routed_sequences_with_one_processor": oneProc,
		"exhaustive":                          !capped,
		"assignments":                         cells,
		"scheduler_executions":                schedExecs,
		"outcomes":                            len(outcomes),
	}
	run.Assumptions = []string{"instances share no state on the signing path (checked: no inter-instance message while signing)", "the BLS library is correct"}
	return run.Finish()
}

func init() {
	Registry["C14"] = C14
	Replayers["C14"] = replayConc
}
