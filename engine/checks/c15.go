//go:build verifsched

package checks

import (
	"encoding/json"
	"fmt"
	"time"

	"verif/ev"
)

// bigBatchSizes are the sizes of the large batches of C04 and C15.
func bigBatchSizes(tier string) []int {
	if tier == "thorough" {
		return []int{200, 300, 600}
	}
	return []int{200, 300}
}

func c15Scenarios(tier string) (rulesSc, lockSc []CScenario) {
	// Ordered selections of >= 2 keys from {k0,k1,k2}.
	lists := [][]int{{0, 1}, {1, 0}, {0, 2}, {2, 0}, {1, 2}, {2, 1}, {0, 1, 2}, {0, 2, 1}, {1, 0, 2}, {1, 2, 0}, {2, 0, 1}, {2, 1, 0}}
	name := func(l []int) string { return fmt.Sprint(l) }
	// All unordered pairs of lists (incl. a list with itself): attest batches.
	for i := range lists {
		for j := i; j < len(lists); j++ {
			cs := CScenario{Name: "atts" + name(lists[i]) + "||atts" + name(lists[j]), Threads: [][]CReq{{attsN(lists[i], 0, 1)}, {attsN(lists[j], 1, 2)}}}
			lockSc = append(lockSc, cs)
			if tier == "thorough" || (i < 6 && j < 8) || (i+j)%5 == 0 {
				rulesSc = append(rulesSc, cs)
			}
		}
	}
	// The same pairs with the bytewise order of the keys reversed (lock acquisition may be ordered by key bytes).
	for i := 6; i < len(lists); i++ {
		for j := i; j < len(lists); j++ {
			lockSc = append(lockSc, CScenario{Name: "desc:atts" + name(lists[i]) + "||atts" + name(lists[j]), Threads: [][]CReq{{attsN(lists[i], 0, 1)}, {attsN(lists[j], 1, 2)}}, DescKeys: true})
		}
	}
	// Multisign batches against attest batches in opposite order.
	for i := 0; i < 6; i++ {
		lockSc = append(lockSc, CScenario{Name: "signs" + name(lists[i]) + "||atts" + name(lists[(i+1)%6]), Threads: [][]CReq{{signsN(lists[i]...)}, {attsN(lists[(i+1)%6], 0, 1)}}})
	}
	// Multisign batches against each other in every pair of orders (generic signing goes through the same locker).
	for i := 0; i < len(lists); i++ {
		for j := i; j < len(lists); j++ {
			if i < 6 && j < 6 || (i+j)%4 == 0 || tier == "thorough" {
				lockSc = append(lockSc, CScenario{Name: "signs" + name(lists[i]) + "||signs" + name(lists[j]), Threads: [][]CReq{{signsN(lists[i]...)}, {signsN(lists[j]...)}}})
			}
		}
	}
	// Triples containing an opposite-order pair, and singles arriving while batches are in progress.
	triples := [][3]int{{0, 1, 2}, {0, 1, 7}, {6, 9, 11}, {0, 3, 5}, {2, 3, 4}, {6, 11, 1}}
	if tier == "thorough" {
		for i := 0; i < len(lists); i++ {
			for j := i + 1; j < len(lists); j++ {
				for k := j + 1; k < len(lists); k++ {
					if (i+j+k)%4 == 0 {
						triples = append(triples, [3]int{i, j, k})
					}
				}
			}
		}
	}
	for _, t := range triples {
		cs := CScenario{Name: fmt.Sprintf("atts%v||atts%v||atts%v", lists[t[0]], lists[t[1]], lists[t[2]]),
			Threads: [][]CReq{{attsN(lists[t[0]], 0, 1)}, {attsN(lists[t[1]], 1, 2)}, {attsN(lists[t[2]], 2, 3)}}}
		lockSc = append(lockSc, cs)
		if tier == "thorough" {
			rulesSc = append(rulesSc, cs)
		}
	}
	// Requests that are refused early (a key named twice - also with its second spelling one byte longer -, an entry without
	// a public key, an entry without data) must
	// not leave anything locked: ordinary requests on the same keys, concurrent and afterwards, still complete.
	bad := func(kind string, keys []int) CReq {
		r := attsN(keys, 0, 1)
		r.Kind = kind
		return r
	}
	for _, b := range []CReq{attsN([]int{0, 0}, 0, 1), attsN([]int{0, 1, 0}, 0, 1), bad("atts-nokey", []int{0, 1}), bad("atts-nildata", []int{0, 1}), signsN(1, 1), bad("atts-longkey", []int{0, 0}), bad("atts-longkey", []int{1, 0, 1}),
		CReq{Kind: "signs-longkey", Keys: []int{0, 0}}} {
		cs := CScenario{Name: "refused-early " + b.String() + ";att(0)||atts[1 0]", Threads: [][]CReq{{b, att1(0, 1, 2)}, {attsN([]int{1, 0}, 2, 3)}}}
		lockSc = append(lockSc, cs)
		rulesSc = append(rulesSc, cs)
	}
	// A key named twice far apart in a longer batch (whatever the duplicate check does for the first entries and for the
	// later ones, it must see both mentions).
	for _, pos := range [][2]int{{3, 18}, {0, 64}, {10, 129}, {5, 257}} {
		keys := keyRange(0, pos[1]+2)
		keys[pos[1]] = pos[0]
		cs := CScenario{Name: fmt.Sprintf("refused-early atts[%d keys, k%d again at position %d];att(0)||atts[1 0]", len(keys), pos[0], pos[1]), Bound: 1,
			Threads: [][]CReq{{attsN(keys, 0, 1), att1(0, 1, 2)}, {attsN([]int{1, 0}, 2, 3)}}}
		lockSc = append(lockSc, cs)
	}
	// Callers that give up: a request whose context is already cancelled, or is cancelled at any moment while it waits or
	// runs, must neither block nor leave anything locked.
	for _, b := range []CReq{att1(0, 0, 1), attsN([]int{0, 1}, 0, 1), attsN([]int{1, 0}, 0, 1), prop1(0, 5), signsN(0, 1)} {
		pre := CScenario{Name: "given-up-before " + b.String() + ";att(0)||atts[1 0]", Threads: [][]CReq{{withCtx(b, "pre"), att1(0, 1, 2)}, {attsN([]int{1, 0}, 2, 3)}}}
		ext := CScenario{Name: "given-up-during " + b.String() + "||cancel||atts[1 0];att(0)", Threads: [][]CReq{{withCtx(b, "ext")}, {cancelOf(0, 0)}, {attsN([]int{1, 0}, 2, 3), att1(0, 3, 4)}}}
		lockSc = append(lockSc, pre, ext)
		rulesSc = append(rulesSc, pre, ext)
	}
	// Batches of several hundred distinct keys (alone they must complete; any fixed-size per-key structure or "large
	// batch" treatment is passed), and the same against requests on keys from their start, middle and end.
	var big []CScenario
	for _, n := range bigBatchSizes(tier) {
		big = append(big,
			CScenario{Name: fmt.Sprintf("atts[%d keys]", n), Bound: 1, Threads: [][]CReq{{attsN(keyRange(0, n), 0, 1)}}},
			CScenario{Name: fmt.Sprintf("atts[%d keys]||att(%d);atts[%d 0]", n, n/2, n-1), Bound: 1, Threads: [][]CReq{{attsN(keyRange(0, n), 0, 1)}, {att1(n/2, 1, 2), attsN([]int{n - 1, 0}, 2, 3)}}},
			CScenario{Name: fmt.Sprintf("atts[%d keys]||att(1)", n), Bound: 1, Threads: [][]CReq{{attsN(keyRange(0, n), 0, 1)}, {att1(1, 1, 2)}}},
		)
	}
	lockSc = append(lockSc, big...)
	// A damaged record: the batch that names its key fails as a whole, and everybody (the batch included) still gets an answer.
	rulesSc = append(rulesSc,
		CScenario{Name: "atts[0 1] with a damaged record for k1||att(2);att(0)", Garbage: []int{1}, Threads: [][]CReq{{attsN([]int{0, 1}, 0, 1)}, {att1(2, 0, 1), att1(0, 1, 2)}}},
		CScenario{Name: "atts[1 0] with a damaged record for k1||atts[0 2]", Garbage: []int{1}, Threads: [][]CReq{{attsN([]int{1, 0}, 0, 1)}, {attsN([]int{0, 2}, 1, 2)}}},
	)
	// Accounts of two wallets in one request, the wallets named in opposite orders by two requests.
	for _, cs := range []CScenario{
		{Name: "two wallets: atts[0 1]||atts[1 0]", TwoWallets: true, Threads: [][]CReq{{attsN([]int{0, 1}, 0, 1)}, {attsN([]int{1, 0}, 1, 2)}}},
		{Name: "two wallets: atts[0 1 2]||atts[1 2 0]||att(1)", TwoWallets: true, Threads: [][]CReq{{attsN([]int{0, 1, 2}, 0, 1)}, {attsN([]int{1, 2, 0}, 1, 2)}, {att1(1, 2, 3)}}},
		{Name: "two wallets: signs[0 1]||atts[1 0]", TwoWallets: true, Threads: [][]CReq{{signsN(0, 1)}, {attsN([]int{1, 0}, 1, 2)}}},
	} {
		// (In front: a request that blocks outside the scheduler's sight costs a watchdog period per execution, and these
		// scenarios must not be the ones that a budget eaten that way never reaches.)
		lockSc = append([]CScenario{cs}, lockSc...)
	}
	// An instance that has already served thousands of other keys.
	lockSc = append(lockSc, CScenario{Name: "att(0)||att(0)||atts[1 0] after many other keys", WarmKeys: warmKeys(tier), Threads: [][]CReq{{att1(0, 0, 1)}, {att1(0, 1, 2)}, {attsN([]int{1, 0}, 2, 3)}}})
	rulesSc = append(rulesSc, big[1]) // with the real rules and store: the smallest size only (the locks are what matters)
	rulesSc = append(rulesSc,
		CScenario{Name: "atts[0 1]||atts[1 0]||att(1)", Threads: [][]CReq{{attsN([]int{0, 1}, 0, 1)}, {attsN([]int{1, 0}, 1, 2)}, {att1(1, 2, 3)}}},
		CScenario{Name: "atts[0 1 2]||prop(2)||att(0)", Threads: [][]CReq{{attsN([]int{0, 1, 2}, 0, 1)}, {prop1(2, 5)}, {att1(0, 1, 2)}}},
		CScenario{Name: "atts[0 1];atts[1 0]||atts[1 0];atts[0 1]", Threads: [][]CReq{{attsN([]int{0, 1}, 0, 1), attsN([]int{1, 0}, 1, 2)}, {attsN([]int{1, 0}, 2, 3), attsN([]int{0, 1}, 3, 4)}}},
	)
	lockSc = append(lockSc,
		CScenario{Name: "atts[0 1];atts[1 0]||atts[1 0];atts[0 1]", Threads: [][]CReq{{attsN([]int{0, 1}, 0, 1), attsN([]int{1, 0}, 1, 2)}, {attsN([]int{1, 0}, 2, 3), attsN([]int{0, 1}, 3, 4)}}},
		CScenario{Name: "4 threads ring", Threads: [][]CReq{{attsN([]int{0, 1}, 0, 1)}, {attsN([]int{1, 2}, 0, 1)}, {attsN([]int{2, 0}, 0, 1)}, {att1(1, 5, 6)}}},
	)
	return rulesSc, lockSc
}

// C15 explores interleavings and checks that no execution deadlocks and every request completes.
func C15(tier string) int {
	b1, b2 := 2, 3
	budget := 300 * time.Second
	if tier == "thorough" {
		b1, b2 = 3, 4
		budget = 25 * time.Minute
	}
	rulesSc, lockSc := c15Scenarios(tier)
	var jobs []concJob
	// Interleave cheap and expensive jobs so that shards are balanced.
	// Two-thread scenarios: every interleaving; larger ones: preemption bound (thorough tries without a bound first).
	allCap := 30 * time.Second
	if tier == "thorough" {
		allCap = 3 * time.Minute
	}
	for _, cs := range lockSc {
		b := b2
		if len(cs.Threads) > 3 {
			b = b2 - 1
		}
		jobs = append(jobs, concJob{cs: cs, lockOnly: true, bound: b, all: len(cs.Threads) == 2 || tier == "thorough", allCap: allCap})
	}
	for _, cs := range rulesSc {
		jobs = append(jobs, concJob{cs: cs, bound: b1, all: len(cs.Threads) == 2 || tier == "thorough", allCap: allCap})
	}
	if sh, n, ok := parseShard(); ok {
		runConcShard(jobs, sh, n, time.Now().Add(budget))
		return 0
	}
	run := ev.NewRun("C15", tier, "exploration")
	results, err := runConcParent("C15", tier, len(jobs))
	if err == nil {
		concExtraCoverage = map[string]any{"batch_sizes_by_processors": c15BatchSizes(run)}
	}
	run.Assumptions = []string{
		"scheduling points: every Mutex.Lock / sync.Map operation of services/locker/syncmap (overlay shim) and every storage operation; a thread at Lock is enabled iff the mutex is free; 'no enabled thread while some thread is unfinished' is a deadlock",
		"blocking outside the shim is caught by a per-step watchdog and classified by free-running the execution (uncontrolled executions are reported, never alarmed unless they do not finish)",
		"the 'sustained random load' clause of the property is sampling and is not decided here",
	}
	return concFinish(run, results, err, fmt.Sprintf("every interleaving (scenarios marked all_interleavings in per_scenario, i.e. all with two threads: without any bound; the others: with at most the stated number of preemptions; lock-only mode with an approve-all rules stub: bound %d; real rules and store: bound %d) of 2-4 concurrent requests whose key lists are ordered selections from {k0,k1,k2}; oracle: no deadlock state and every request returns; a scenario is non-trivial if it has more than one execution (lock-only) or more than one verdict vector", b2, b1))
}

func init() {
	Registry["C15"] = C15
	prev := Replayers["C15"] // set by c04.go's init, which runs first (file name order)
	Replayers["C15"] = func(raw json.RawMessage) int {
		var rp struct {
			BatchSizes bool `json:"batch_sizes"`
		}
		if json.Unmarshal(raw, &rp) == nil && rp.BatchSizes {
			run := ev.NewRun("C15", "replay", "exploration")
			fmt.Printf("  %v\n", c15BatchSizes(run))
			for _, v := range run.Violations() {
				fmt.Println("  VIOLATED:", v.What)
			}
			if len(run.Violations()) > 0 {
				return 1
			}
			fmt.Println("  no violation on replay")
			return 0
		}
		return prev(raw)
	}
}
