//go:build verifsched

package checks

import (
	"fmt"
	"runtime"
	"strings"
	"time"

	"verif/ev"
	"verif/rig"
)

// c15BatchSizes: a batch of every size from 1 to 36 (attestations) and 1 to 24 (multisign) completes for every listed number
// of processors. The explorers run with one processor, where util.Scatter uses one worker; how a batch is cut into extents
// for several workers depends on the size and on GOMAXPROCS together, and a batch that never returns keeps its key locks,
// so that every later request for one of its keys waits behind it. Free-running, with a watchdog of two minutes per batch
// (a batch takes milliseconds); the phase ends at the first batch that does not return (its instance is stuck).
func c15BatchSizes(run *ev.Run) map[string]any {
	old := runtime.GOMAXPROCS(0)
	defer runtime.GOMAXPROCS(old)
	cells := 0
	procs := []int{2, 3, 4, 5, 8, 16}
	for _, p := range procs {
		r, err := rig.NewSignerRig(rig.SignerOpts{})
		if err != nil {
			run.HarnessErr = err
			return nil
		}
		for _, kind := range []string{"atts", "multisign"} {
			maxN := 36
			if kind == "multisign" {
				maxN = 24
			}
			for n := 1; n <= maxN; n++ {
				done := make(chan string, 1)
				runtime.GOMAXPROCS(p)
				go func() {
					its, problem, err := c08Batch(r, kind, n, false, false)
					switch {
					case err != nil:
						done <- "harness: " + err.Error()
					case problem != "":
						done <- problem
					case len(its) != n:
						done <- fmt.Sprintf("%d results for %d entries", len(its), n)
					default:
						done <- ""
					}
				}()
				select {
				case res := <-done:
					runtime.GOMAXPROCS(old)
					cells++
					if strings.HasPrefix(res, "harness: ") {
						run.HarnessErr = fmt.Errorf("%s", res)
						return nil
					}
				case <-time.After(2 * time.Minute):
					runtime.GOMAXPROCS(old)
					run.Violate(fmt.Sprintf("batch-never-completes:%s:n=%d:procs=%d", kind, n, p),
						fmt.Sprintf("a %s batch of %d entries with GOMAXPROCS=%d has not returned after two minutes (a batch takes milliseconds): it keeps its key locks and every later request for one of its keys waits behind it", kind, n, p),
						map[string]any{"check": "C15", "batch_sizes": true, "kind": kind, "n": n, "procs": p})
					return map[string]any{"cells": cells, "stopped_at": fmt.Sprintf("%s n=%d procs=%d", kind, n, p)}
				}
			}
		}
		r.Close()
	}
	return map[string]any{"cells": cells, "procs": procs, "sizes": "atts 1..36, multisign 1..24"}
}
