package checks

import (
	"context"
	"fmt"
	pb "github.com/wealdtech/eth2-signer-api/pb/v1"
	"google.golang.org/grpc"
	"sort"
	"strings"
	"sync/atomic"
	"time"

	"verif/bfs"
	"verif/ev"
	"verif/rig"

	"github.com/attestantio/dirk/core"
	"github.com/attestantio/dirk/util"
	"github.com/herumi/bls-eth-go-binary/bls"
)

// POp is a protocol event of a three-instance cluster (account a).
type POp struct {
	Kind string `json:"kind"` // prepare-all, execute, commit-all, abort-all
	At   uint64 `json:"at,omitempty"`
}

func (o POp) String() string {
	if o.At != 0 {
		return fmt.Sprintf("%s@%d", o.Kind, o.At)
	}
	return o.Kind
}

var c16IDs = []uint64{1, 2, 3}

type c16Worker struct {
	c      *rig.Cluster
	nruns  int
	serial *atomic.Uint64
}

func (w *c16Worker) reset() error {
	if w.c != nil {
		w.c.Close()
	}
	c, err := rig.NewCluster(rig.ClusterOpts{IDs: c16IDs, ExtraPeers: map[uint64]string{4: rig.PeerName(4) + ":8004", 0: rig.PeerName(0) + ":8000"}})
	if err != nil {
		return err
	}
	w.c = c
	return nil
}

func (w *c16Worker) Close() { w.c.Close() }

func c16Parts() []*core.Endpoint {
	var l []*core.Endpoint
	for _, id := range c16IDs {
		l = append(l, &core.Endpoint{ID: id, Name: rig.PeerName(id), Port: uint32(8000 + id)})
	}
	return l
}

func (w *c16Worker) clusterState(account string) string {
	var sb strings.Builder
	for _, id := range c16IDs {
		_, d := sessionOf(w.c.Nodes[id], account)
		fmt.Fprintf(&sb, "%d:[%s] ", id, d)
	}
	fmt.Fprintf(&sb, "holders=%v", holders(w.c, account))
	return sb.String()
}

func (w *c16Worker) apply(account string, op POp) error {
	switch op.Kind {
	case "prepare-all":
		for _, id := range c16IDs {
			if err := w.c.Nodes[id].RecvPrepare(rig.PeerName(1), account, 2, c16Parts()); err != nil {
				return err
			}
		}
	case "prepare-all-readdressed":
		// The participant list sent by peer 1 gives identifier 3 the address of instance 1. The share an instance computes
		// for identifier 3 still belongs to the instance configured as 3.
		parts := c16Parts()
		parts[2] = &core.Endpoint{ID: 3, Name: rig.PeerName(1), Port: 8001}
		for _, id := range c16IDs {
			if err := w.c.Nodes[id].RecvPrepare(rig.PeerName(1), account, 2, parts); err != nil {
				return err
			}
		}
	case "execute":
		return w.c.Nodes[op.At].RecvExecute(rig.PeerName(1), account)
	case "commit-all":
		var first error
		for _, id := range c16IDs {
			if _, _, err := w.c.Nodes[id].RecvCommit(rig.PeerName(1), account, pat(0x33)); err != nil && first == nil {
				first = err
			}
		}
		return first
	case "abort-all":
		var first error
		for _, id := range c16IDs {
			if err := w.c.Nodes[id].RecvAbort(rig.PeerName(1), account); err != nil && first == nil {
				first = err
			}
		}
		return first
	}
	return nil
}

// deliver sends one protocol message to node 2 under the given authenticated name.
func (w *c16Worker) deliver(as string, msg string, account string) error {
	n := w.c.Nodes[2]
	switch msg {
	case "prepare":
		return n.RecvPrepare(as, account, 2, c16Parts())
	case "prepare-listing-the-caller":
		// The participant list of the message itself names the caller (under each configured identifier in turn, here
		// the first): what a message says about its sender is not what the transport authenticated.
		parts := c16Parts()
		mine := *parts[0]
		mine.Name = as
		parts[0] = &mine
		return n.RecvPrepare(as, account, 2, parts)
	case "execute":
		return n.RecvExecute(as, account)
	case "contribute":
		p := rig.NewPoly(2)
		_, _, err := n.RecvContribute(as, account, p.Share(2), p.VVec)
		return err
	case "commit":
		_, _, err := n.RecvCommit(as, account, pat(0x44))
		return err
	case "abort":
		return n.RecvAbort(as, account)
	}
	return fmt.Errorf("unknown message %s", msg)
}

var c16NonPeers = []string{rig.DefaultClient, "", "zz", "SIGNER-1", "signer-1 ", "signer-5"}
var c16Msgs = []string{"prepare", "prepare-listing-the-caller", "execute", "contribute", "commit", "abort"}

func (w *c16Worker) Run(path []POp) (bfs.Outcome, error) {
	w.nruns++
	if w.nruns%150 == 0 {
		if err := w.reset(); err != nil {
			return bfs.Outcome{}, err
		}
	}
	for _, n := range w.c.Nodes {
		n.Rig.RealProcess.VerifClearSessions()
	}
	account := fmt.Sprintf("%s/c16-%d", rig.DistWallet, w.serial.Add(1))
	out := bfs.Outcome{}
	w.c.Misrouted = nil
	for _, op := range path {
		if err := w.apply(account, op); err != nil {
			out.Obs = append(out.Obs, "err")
		} else {
			out.Obs = append(out.Obs, "ok")
		}
	}
	for _, mr := range w.c.Misrouted {
		out.Viol = append(out.Viol, bfs.Viol{Key: "share-misrouted", What: "a secret share went to another instance than its owner: " + mr})
	}
	state := w.clusterState(account)
	out.Canon = strings.ReplaceAll(state, account, "a")
	// The session summary shows participant identifiers only; which addresses the last accepted participant list carried
	// is part of the state as well.
	for i := len(path) - 1; i >= 0; i-- {
		if strings.HasPrefix(path[i].Kind, "prepare-all") && out.Obs[i] == "ok" {
			out.Canon += " list=" + path[i].Kind
			break
		}
	}
	// Non-peer identities x every message: refused, nothing changes.
	for _, who := range c16NonPeers {
		for _, msg := range c16Msgs {
			err := w.deliver(who, msg, account)
			after := w.clusterState(account)
			if err == nil {
				out.Viol = append(out.Viol, bfs.Viol{Key: fmt.Sprintf("non-peer-accepted:%s:as=%q", msg, who), What: fmt.Sprintf("in state {%s} a %s message from caller %q (not a configured peer) was accepted", out.Canon, msg, who)})
			}
			if after != state {
				out.Viol = append(out.Viol, bfs.Viol{Key: fmt.Sprintf("non-peer-changed-state:%s:as=%q", msg, who), What: fmt.Sprintf("a %s message from caller %q changed the state from {%s} to {%s}", msg, who, state, after)})
				state = after
			}
		}
	}
	// Share ownership in every state in which instance 2 has an active session.
	if present, _ := sessionOf(w.c.Nodes[2], account); present {
		// The contributions are handled one after the other; the replies are serialised only after all of them have
		// been handled (a server serialises a reply after its handler has returned, beside whatever else it handles).
		late := map[uint64]func() (*bls.SecretKey, []bls.PublicKey, error){}
		sent := map[uint64]*rig.Poly{}
		for _, j := range []uint64{1, 3, 4} {
			p := rig.NewPoly(2)
			if f, err := w.c.Nodes[2].RecvContributeLate(rig.PeerName(j), account, p.Share(2), p.VVec); err == nil {
				late[j] = f
				sent[j] = p
			}
		}
		for _, j := range []uint64{1, 3, 4} {
			if late[j] == nil {
				continue
			}
			rs, rv, err := late[j]()
			if err != nil {
				out.Viol = append(out.Viol, bfs.Viol{Key: fmt.Sprintf("reply-undecodable:to=%d", j), What: fmt.Sprintf("the reply to participant %d's contribution cannot be decoded once the other contributions have been handled: %v", j, err)})
				continue
			}
			shareOf := func(k uint64) []byte {
				var pk bls.PublicKey
				if err := pk.Set(rv, util.BLSID(k)); err != nil {
					return nil
				}
				return pk.Serialize()
			}
			got := rs.GetPublicKey().Serialize()
			isPart := j != 4
			if isPart && string(got) != string(shareOf(j)) {
				out.Viol = append(out.Viol, bfs.Viol{Key: fmt.Sprintf("wrong-share:to=%d", j), What: fmt.Sprintf("the reply to participant %d's contribution is not the share of the reply's verification vector at identifier %d", j, j)})
			}
			for _, k := range c16IDs {
				if k != j && string(got) == string(shareOf(k)) {
					out.Viol = append(out.Viol, bfs.Viol{Key: fmt.Sprintf("foreign-share:to=%d:of=%d", j, k), What: fmt.Sprintf("the reply to the contribution authenticated as peer %d contains the secret share of participant %d", j, k)})
				}
			}
			// The same contribution once more (a retransmission): refused, or answered like the first time; never with
			// somebody else's share.
			if rs2, rv2, err := w.c.Nodes[2].RecvContribute(rig.PeerName(j), account, sent[j].Share(2), sent[j].VVec); err == nil {
				got2 := rs2.GetPublicKey().Serialize()
				for _, k := range c16IDs {
					var pk bls.PublicKey
					if k != j && pk.Set(rv2, util.BLSID(k)) == nil && string(got2) == string(pk.Serialize()) {
						out.Viol = append(out.Viol, bfs.Viol{Key: fmt.Sprintf("foreign-share-on-repeat:to=%d:of=%d", j, k), What: fmt.Sprintf("the reply to a repeated contribution authenticated as peer %d contains the secret share of participant %d", j, k)})
					}
				}
			}
		}
	}
	return out, nil
}

// c16Completion: after non-peer messages in every intermediate state a generation still completes.
func c16Completion(run *ev.Run) (int, error) {
	c, err := rig.NewCluster(rig.ClusterOpts{IDs: c16IDs, ExtraPeers: map[uint64]string{4: rig.PeerName(4) + ":8004"}})
	if err != nil {
		return 0, err
	}
	defer c.Close()
	n := 0
	// Baseline: an undisturbed generation on this cluster. If that fails the comparison below is vacuous.
	if _, parts, err := c.Generate(1, rig.DistWallet+"/c16c-baseline", 2, 3); err != nil || len(holders(c, rig.DistWallet+"/c16c-baseline")) != len(parts) {
		return 0, nil
	}
	for _, who := range c16NonPeers {
		for _, msg := range c16Msgs {
			for _, phase := range []string{"prepare", "execute", "commit"} {
				n++
				fired := false
				w := &c16Worker{c: c}
				var account string
				c.Intercept = func(m *rig.Msg) rig.Action {
					if !fired && m.Kind == phase && m.To == 2 {
						fired = true
						_ = w.deliver(who, msg, account)
					}
					return rig.Deliver
				}
				account = fmt.Sprintf("%s/c16c-%d", rig.DistWallet, n)
				pk, parts, err := c.Generate(1, account, 2, 3)
				c.Intercept = nil
				if err != nil {
					run.Violate(fmt.Sprintf("non-peer-disturbs-generation:%s:as=%q:before=%s", msg, who, phase),
						fmt.Sprintf("a %s message from non-peer %q delivered to instance 2 just before its %s made the generation fail: %v", msg, who, phase, err),
						map[string]any{"check": "C16", "msg": msg, "as": who, "phase": phase})
					continue
				}
				// What a successful generation must look like is C12's statement; here only "the non-peer message
				// changed nothing": the generation succeeds as the undisturbed baseline did and every instance holds it.
				_ = pk
				if h := holders(c, account); len(h) != len(parts) {
					run.Violate(fmt.Sprintf("non-peer-disturbs-generation:%s:as=%q:before=%s:holders", msg, who, phase),
						fmt.Sprintf("a %s message from non-peer %q before %s: the generation reported success but only instances %v hold the account", msg, who, phase, h),
						map[string]any{"check": "C16", "msg": msg, "as": who, "phase": phase})
				}
			}
		}
	}
	return n, nil
}

// C16 checks that protocol messages are honoured only from peers and shares go to their owner.
func C16(tier string) int {
	run := ev.NewRun("C16", tier, "model_checking")
	depth := 6
	budget := 150 * time.Second
	if tier == "thorough" {
		depth = 9
		budget = 15 * time.Minute
	}
	ops := []POp{{Kind: "prepare-all"}, {Kind: "prepare-all-readdressed"}, {Kind: "execute", At: 1}, {Kind: "execute", At: 2}, {Kind: "execute", At: 3}, {Kind: "commit-all"}, {Kind: "abort-all"}}
	var serial atomic.Uint64
	samples := ev.NewSamples(5)
	r, err := bfs.Explore(bfs.Config[POp]{
		NewWorker: func() (bfs.Worker[POp], error) {
			w := &c16Worker{serial: &serial}
			if err := w.reset(); err != nil {
				return nil, err
			}
			return w, nil
		},
		Ops:      func([]POp) []POp { return ops },
		MaxDepth: depth,
		Budget:   budget,
		Workers:  8,
		OnViolation: func(path []POp, v bfs.Viol) {
			var pt []string
			for _, o := range path {
				pt = append(pt, o.String())
			}
			run.Violate(v.Key, fmt.Sprintf("after [%s]: %s", strings.Join(pt, ", "), v.What), map[string]any{"check": "C16", "path": path})
		},
		OnTransition: func(path []POp, out bfs.Outcome, isNew bool) {
			if isNew {
				var pt []string
				for _, o := range path {
					pt = append(pt, o.String())
				}
				samples.Add(map[string]any{"path": pt, "state": out.Canon})
			}
		},
	})
	if err != nil {
		run.HarnessErr = err
		return run.Finish()
	}
	nc, err := c16Completion(run)
	if err != nil {
		run.HarnessErr = err
		return run.Finish()
	}
	wire, err := c16OverTheWire(run)
	if err != nil {
		run.HarnessErr = err
		return run.Finish()
	}
	run.Coverage = map[string]any{
		"over_the_wire":                 wire,
		"states":                        r.States,
		"transitions":                   r.Transitions,
		"traces_validated_against_impl": r.Transitions,
		"evaluations":                   r.Transitions*(len(c16NonPeers)*len(c16Msgs)+3) + nc,
		"distinct_nontrivial":           r.States,
		"rule":                          "BFS over protocol events (prepare on all, execute on each instance, commit on all, abort on all) of a real three-instance cluster (plus configured peer 4 that is not a participant); a state is the session table of the three instances and account existence; in every reachable state every non-peer identity (a client with full permissions, empty, unknown, case variant, trailing-space variant, unconfigured signer name) sends every protocol message to instance 2 through its real receiver handler: it must be refused and the state must not change; in every state with an active session the reply to a contribution authenticated as peer j must be the share at j's identifier and nobody else's; plus: a generation still completes consistently when a non-peer message arrives just before each phase; plus, over mutual TLS against a real API server: callers whose certificates (from the configured authority) are not a peer's (an ordinary client's; no common name and a peer's name as first DNS name; a client's with a peer's name as DNS name; a client's followed by a peer's public certificate; a peer's name with a letter added) send every message with and without a session prepared by a genuine peer",
		"samples":                       samples.List(),
		"exhaustive":                    !r.BudgetHit,
		"depth_completed":               r.DepthDone,
		"frontier_empty":                r.FrontierEmpty,
		"states_by_depth":               r.StatesByDepth,
		"identity_message_cells":        r.Transitions * len(c16NonPeers) * len(c16Msgs),
		"completion_cells":              nc,
	}
	run.Assumptions = []string{"in the BFS the identity is what ClientInfoInterceptor puts in the context; the over-the-wire phase goes through the interceptor with five kinds of certificate (C19 checks more)"}
	return run.Finish()
}

func init() {
	Registry["C16"] = C16
}

// c16OverTheWire: the same refusal, from the certificate to the session table. Three real instances with real API
// servers (own authority, mutual TLS); callers hold certificates issued by that authority which are not a peer's:
// an ordinary client's, one without a common name whose first DNS name is a peer's name, and an ordinary client's
// followed by a peer's public certificate. Each sends every protocol message to instance 1, with no session and with a
// session that a genuine peer has prepared; it must be refused and the session table must not change. A genuine peer's
// prepare is the control.
func c16OverTheWire(run *ev.Run) (map[string]any, error) {
	nc, err := rig.NewNetCluster([]uint64{1, 2, 3})
	if err != nil {
		return nil, err
	}
	defer nc.Close()
	node := nc.Nodes[1]
	peerName := nc.Nodes[2].Name
	var parts []*pb.Endpoint
	for _, id := range nc.IDs {
		parts = append(parts, &pb.Endpoint{Id: id, Name: nc.Nodes[id].Name, Port: uint32(nc.Nodes[id].Port)})
	}
	sessions := func() string {
		var l []string
		for _, s := range node.Rig.RealProcess.VerifSessions() {
			l = append(l, fmt.Sprintf("%s t=%d contributed=%v", s.Account, s.Threshold, s.Contributed))
		}
		sort.Strings(l)
		return strings.Join(l, ";")
	}
	callers := []struct {
		name string
		cert rig.CallerCert
	}{
		{"a certificate CN=" + rig.DefaultClient + " (an ordinary client with full permissions)", rig.CallerCert{CommonName: rig.DefaultClient}},
		{"a certificate without a common name whose first DNS name is peer 2's name", rig.CallerCert{DNS: []string{peerName, "client"}}},
		{"a certificate CN=" + rig.DefaultClient + " whose DNS name is peer 2's name", rig.CallerCert{CommonName: rig.DefaultClient, DNS: []string{peerName}}},
		{"a certificate CN=" + rig.DefaultClient + " presented with peer 2's public certificate behind it", rig.CallerCert{CommonName: rig.DefaultClient, AppendCertOf: 2}},
		{"a certificate CN=" + peerName + "x (a peer's name with a letter added)", rig.CallerCert{CommonName: peerName + "x"}},
	}
	cells := 0
	acct := func(i int) string { return fmt.Sprintf("%s/wire-%d", rig.DistWallet, i) }
	call := func(cc *grpc.ClientConn, msg, account, callerName string) error {
		ctx, cancel := context.WithTimeout(context.Background(), 20*time.Second)
		defer cancel()
		d := pb.NewDKGClient(cc)
		var err error
		switch msg {
		case "prepare":
			_, err = d.Prepare(ctx, &pb.PrepareRequest{Account: account, Threshold: 2, Participants: parts, Passphrase: []byte("pass")})
		case "prepare-listing-the-caller":
			mine := append([]*pb.Endpoint{}, parts...)
			mine[1] = &pb.Endpoint{Id: parts[1].GetId(), Name: callerName, Port: parts[1].GetPort()}
			_, err = d.Prepare(ctx, &pb.PrepareRequest{Account: account, Threshold: 2, Participants: mine, Passphrase: []byte("pass")})
		case "execute":
			_, err = d.Execute(ctx, &pb.ExecuteRequest{Account: account})
		case "contribute":
			p := rig.NewPoly(2)
			sh := p.Share(1)
			_, err = d.Contribute(ctx, &pb.ContributeRequest{Account: account, Secret: sh.Serialize(), VerificationVector: [][]byte{p.VVec[0].Serialize(), p.VVec[1].Serialize()}})
		case "commit":
			_, err = d.Commit(ctx, &pb.CommitRequest{Account: account, ConfirmationData: pat(1)})
		case "abort":
			_, err = d.Abort(ctx, &pb.AbortRequest{Account: account})
		}
		return err
	}
	// Control: a genuine peer prepares a session.
	peer, err := nc.DialAsNode(1, 2)
	if err != nil {
		return nil, err
	}
	defer peer.Close()
	if err := call(peer, "prepare", acct(0), peerName); err != nil {
		return nil, fmt.Errorf("over the wire: the prepare of a genuine peer was refused: %v", err)
	}
	if !strings.Contains(sessions(), acct(0)) {
		return nil, fmt.Errorf("over the wire: a genuine peer's prepare left no session")
	}
	for ci, c := range callers {
		cc, err := nc.DialAs(1, c.cert)
		if err != nil {
			return nil, err
		}
		for _, target := range []string{acct(0), acct(100 + ci)} {
			for _, msg := range c16Msgs {
				before := sessions()
				callerName := c.cert.CommonName
				if callerName == "" && len(c.cert.DNS) > 0 {
					callerName = c.cert.DNS[0]
				}
				err := call(cc, msg, target, callerName)
				after := sessions()
				cells++
				what := "with no session for the name"
				if target == acct(0) {
					what = "for the name of a session that peer 2 has prepared"
				}
				if err == nil {
					run.Violate(fmt.Sprintf("wire-non-peer-accepted:%s:caller=%d", msg, ci), fmt.Sprintf("over mutual TLS, a %s message %s from a caller holding %s was accepted", msg, what, c.name), map[string]any{"check": "C16", "over_the_wire": true})
				}
				if before != after {
					run.Violate(fmt.Sprintf("wire-non-peer-changed-state:%s:caller=%d", msg, ci), fmt.Sprintf("over mutual TLS, a %s message %s from a caller holding %s changed the session table from {%s} to {%s}", msg, what, c.name, before, after), map[string]any{"check": "C16", "over_the_wire": true})
				}
			}
		}
		cc.Close()
	}
	return map[string]any{"callers": len(callers), "cells": cells}, nil
}
