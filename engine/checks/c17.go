package checks

import (
	"encoding/json"
	"fmt"
	"sort"
	"strings"
	"sync/atomic"
	"time"

	"verif/bfs"
	"verif/ev"
	"verif/rig"

	"github.com/attestantio/dirk/core"
	"github.com/herumi/bls-eth-go-binary/bls"
)

// LOp is a lifecycle event delivered to the instance under test (id 2).
type LOp struct {
	Kind string `json:"kind"` // prepare, execute, contribute, commit, abort, tick
	Acct int    `json:"acct"` // 0 = a, 1 = b
	From uint64 `json:"from,omitempty"`
}

func (o LOp) String() string {
	if d, ok := c17Ticks[o.Kind]; ok {
		return fmt.Sprintf("%s(+%s)", o.Kind, d)
	}
	return fmt.Sprintf("%s(%c,from %d)", o.Kind, 'a'+o.Acct, o.From)
}

const c17Self = 2

// c17Timeout is the generation timeout the instance is configured with.
const c17Timeout = time.Hour

// c17Ticks are the clock advances of the alphabet: far past the timeout, just past it (the session has certainly expired: its
// age is the advance plus real elapsed time), and well short of it (10 minutes of real time would have to pass inside one
// path for the session to expire; two of them add up to more than the timeout).
var c17Ticks = map[string]time.Duration{
	"tick":  2 * c17Timeout,
	"tick+": c17Timeout + 300*time.Millisecond,
	"tick-": c17Timeout - 10*time.Minute,
}

var c17Participants = []uint64{1, 2, 3}

type c17Worker struct {
	c        *rig.Cluster
	node     *rig.Node
	nruns    int
	poisoned bool // a handler panicked: the instance is rebuilt before the next path
	serial   *atomic.Uint64
}

func newC17Worker(serial *atomic.Uint64) (*c17Worker, error) {
	w := &c17Worker{serial: serial}
	if err := w.reset(); err != nil {
		return nil, err
	}
	return w, nil
}

func (w *c17Worker) reset() error {
	if w.c != nil {
		w.c.Close()
	}
	extra := map[uint64]string{}
	for _, id := range []uint64{1, 3, 4} {
		extra[id] = fmt.Sprintf("%s:%d", rig.PeerName(id), 8000+id)
	}
	c, err := rig.NewCluster(rig.ClusterOpts{IDs: []uint64{c17Self}, ExtraPeers: extra})
	if err != nil {
		return err
	}
	w.c, w.node = c, c.Nodes[c17Self]
	return nil
}

func (w *c17Worker) Close() { w.c.Close() }

// deliver hands one message to the instance; a panic in the handler (which ends a real daemon: there is no recovery
// interceptor) is returned as text.
func deliver(f func() error) (err error, crash string) {
	defer func() {
		if r := recover(); r != nil {
			crash = fmt.Sprint(r)
		}
	}()
	return f(), ""
}

type c17Model struct {
	active      bool
	age         time.Duration // sum of the clock advances since the session was prepared
	tableAge    time.Duration // the same sum for whatever entry is still in the session table, expired or not
	contributed map[uint64]bool
}

func sessionOf(node *rig.Node, account string) (bool, string) {
	for _, s := range node.Rig.RealProcess.VerifSessions() {
		if s.Account == account {
			return true, fmt.Sprintf("t=%d parts=%v contributed=%v", s.Threshold, s.Participants, s.Contributed)
		}
	}
	return false, "none"
}

func (w *c17Worker) Run(path []LOp) (bfs.Outcome, error) {
	w.nruns++
	if w.nruns%250 == 0 || w.poisoned {
		w.poisoned = false
		if err := w.reset(); err != nil {
			return bfs.Outcome{}, err
		}
	}
	// Every path starts from an empty session table: a change that couples sessions of different names must show up
	// inside one path, not as interference between paths.
	w.node.Rig.RealProcess.VerifClearSessions()
	serial := w.serial.Add(1)
	names := []string{fmt.Sprintf("%s/a-%d", rig.DistWallet, serial), fmt.Sprintf("%s/b-%d", rig.DistWallet, serial)}
	parts := make([]*core.Endpoint, len(c17Participants))
	for i, id := range c17Participants {
		parts[i] = &core.Endpoint{ID: id, Name: rig.PeerName(id), Port: uint32(8000 + id)}
	}
	// Polynomials of the virtual peers, per account.
	polys := map[string]*rig.Poly{}
	poly := func(peer uint64, acct string) *rig.Poly {
		k := fmt.Sprintf("%d|%s", peer, acct)
		if polys[k] == nil {
			polys[k] = rig.NewPoly(2)
		}
		return polys[k]
	}
	var virtualContributed []string
	w.c.Virtual = func(from, to uint64, account string, _ bls.SecretKey, _ []bls.PublicKey) (bls.SecretKey, []bls.PublicKey, error) {
		p := poly(to, account)
		virtualContributed = append(virtualContributed, fmt.Sprintf("%d|%s", to, account))
		return p.Share(from), p.VVec, nil
	}
	models := []*c17Model{{contributed: map[uint64]bool{}}, {contributed: map[uint64]bool{}}}
	out := bfs.Outcome{}
	for step, op := range path {
		last := step == len(path)-1
		acct := names[op.Acct]
		other := names[1-op.Acct]
		m := models[op.Acct]
		_, beforeSelf := sessionOf(w.node, acct)
		_, beforeOther := sessionOf(w.node, other)
		heldBefore := len(holders(w.c, acct)) > 0
		viol := func(key, what string) {
			if last {
				out.Viol = append(out.Viol, bfs.Viol{Key: key, What: what})
			}
		}
		var err error
		var obs string
		switch op.Kind {
		case "tick", "tick+", "tick-":
			d := c17Ticks[op.Kind]
			w.node.Rig.RealProcess.VerifAdvanceClock(d)
			for _, mm := range models {
				if mm.tableAge += d; mm.tableAge > 4*c17Timeout {
					mm.tableAge = 4 * c17Timeout // saturate: the state space stays finite
				}
				if !mm.active {
					continue
				}
				mm.age += d
				if mm.age > c17Timeout {
					mm.active = false
					mm.age = 0
					mm.contributed = map[uint64]bool{}
				}
			}
			obs = "ok"
		case "exists":
			// The account name is already taken on this instance: a complete generation is run for it (outside the
			// alphabet's bookkeeping); afterwards nothing is active.
			for _, e := range []error{
				w.node.RecvPrepare(rig.PeerName(1), acct, 2, parts),
				w.node.RecvExecute(rig.PeerName(1), acct),
			} {
				if e != nil {
					return out, fmt.Errorf("cannot create the pre-existing account: %v", e)
				}
			}
			for _, from := range []uint64{1, 3} {
				p := poly(from, acct)
				if _, _, e := w.node.RecvContribute(rig.PeerName(from), acct, p.Share(c17Self), p.VVec); e != nil {
					return out, fmt.Errorf("cannot create the pre-existing account: %v", e)
				}
			}
			if _, _, e := w.node.RecvCommit(rig.PeerName(1), acct, pat(0x77)); e != nil {
				return out, fmt.Errorf("cannot create the pre-existing account: %v", e)
			}
			delete(polys, fmt.Sprintf("%d|%s", 1, acct))
			delete(polys, fmt.Sprintf("%d|%s", 3, acct))
			obs = "ok"
		case "prepare":
			var crash string
			err, crash = deliver(func() error { return w.node.RecvPrepare(rig.PeerName(op.From), acct, 2, parts) })
			if crash != "" {
				w.poisoned = true
				out.Viol = append(out.Viol, bfs.Viol{Key: "message-crashes-instance:" + op.Kind, What: fmt.Sprintf("after %v the instance does not answer %s: it panics (%s); a message is refused or acted on, and a daemon that panics is gone", path[:step], op, crash)})
				return out, nil
			}
			if m.active {
				if err == nil {
					viol("prepare-on-active-accepted", fmt.Sprintf("%s while a generation for that name is active was accepted", op))
				}
				if _, after := sessionOf(w.node, acct); after != beforeSelf {
					viol("prepare-on-active-changed-session", fmt.Sprintf("%s while active changed the session from [%s] to [%s]", op, beforeSelf, after))
				}
			} else {
				if err != nil {
					viol("prepare-refused-when-free", fmt.Sprintf("%s refused although no generation for that name is active: %v", op, err))
				} else {
					m.active = true
					m.age, m.tableAge = 0, 0
					m.contributed = map[uint64]bool{c17Self: true}
				}
			}
		case "execute", "contribute", "commit", "abort":
			var pk []byte
			virtualContributed = nil
			var crash string
			err, crash = deliver(func() error {
				var e error
				switch op.Kind {
				case "execute":
					e = w.node.RecvExecute(rig.PeerName(op.From), acct)
				case "contribute":
					p := poly(op.From, acct)
					_, _, e = w.node.RecvContribute(rig.PeerName(op.From), acct, p.Share(c17Self), p.VVec)
				case "commit":
					pk, _, e = w.node.RecvCommit(rig.PeerName(op.From), acct, pat(0x77))
				case "abort":
					e = w.node.RecvAbort(rig.PeerName(op.From), acct)
				}
				return e
			})
			if crash != "" {
				w.poisoned = true
				out.Viol = append(out.Viol, bfs.Viol{Key: "message-crashes-instance:" + op.Kind, What: fmt.Sprintf("after %v the instance does not answer %s: it panics (%s); a message is refused or acted on, and a daemon that panics is gone", path[:step], op, crash)})
				return out, nil
			}
			if !m.active {
				if err == nil {
					viol(op.Kind+"-without-session-accepted", fmt.Sprintf("%s was accepted although no generation for that name is active", op))
				}
				if _, after := sessionOf(w.node, acct); after != beforeSelf && beforeSelf == "none" {
					viol(op.Kind+"-without-session-changed-state", fmt.Sprintf("%s without an active generation changed the session table: [%s] -> [%s]", op, beforeSelf, after))
				}
				if !heldBefore && len(holders(w.c, acct)) > 0 {
					viol(op.Kind+"-without-session-created-account", fmt.Sprintf("%s without an active generation created the account", op))
				}
			} else {
				switch op.Kind {
				case "execute":
					for _, vc := range virtualContributed {
						var peer uint64
						fmt.Sscanf(vc, "%d|", &peer)
						if err == nil {
							m.contributed[peer] = true
						}
					}
				case "contribute":
					if err == nil {
						m.contributed[op.From] = true
					}
				case "commit":
					if err == nil {
						var missing []uint64
						for _, id := range c17Participants {
							if !m.contributed[id] {
								missing = append(missing, id)
							}
						}
						if len(missing) > 0 {
							var have []uint64
							for id := range m.contributed {
								have = append(have, id)
							}
							sort.Slice(have, func(i, j int) bool { return have[i] < have[j] })
							viol(fmt.Sprintf("commit-without-all-participants:missing=%v:have=%v", missing, have),
								fmt.Sprintf("%s succeeded (key %x...) although listed participants %v never contributed (contributions came from %v, listed participants are %v)", op, pk[:4], missing, have, c17Participants))
						}
						if present, _ := sessionOf(w.node, acct); present {
							viol("session-survives-commit", fmt.Sprintf("after the successful %s the generation is still in the session table", op))
						}
						m.active = false
						m.contributed = map[uint64]bool{}
					} else {
						if !heldBefore && len(holders(w.c, acct)) > 0 {
							viol("failed-commit-created-account", fmt.Sprintf("%s failed (%v) but the account exists afterwards", op, err))
						}
						// A generation ends by a successful commit, an abort or the timeout, and by nothing else: after a
						// failed commit it is still the one generation of its name.
						if present, _ := sessionOf(w.node, acct); !present {
							viol("failed-commit-ended-generation", fmt.Sprintf("%s failed (%v) and the generation is gone from the session table although it was neither committed nor aborted nor timed out", op, err))
							m.active = false
							m.contributed = map[uint64]bool{}
						}
					}
				case "abort":
					if err != nil {
						viol("abort-of-active-refused", fmt.Sprintf("%s refused although a generation is active: %v", op, err))
					} else {
						if present, _ := sessionOf(w.node, acct); present {
							viol("session-survives-abort", fmt.Sprintf("after %s the generation is still in the session table", op))
						}
						m.active = false
						m.contributed = map[uint64]bool{}
					}
				}
			}
		}
		if _, isTick := c17Ticks[op.Kind]; !isTick && op.Kind != "exists" {
			if _, afterOther := sessionOf(w.node, other); afterOther != beforeOther {
				viol("other-account-affected", fmt.Sprintf("%s changed the session of the other account name: [%s] -> [%s]", op, beforeOther, afterOther))
			}
			if err != nil {
				obs = "err"
			} else {
				obs = "ok"
			}
		}
		out.Obs = append(out.Obs, obs)
	}
	var sb strings.Builder
	for i, n := range names {
		present, desc := sessionOf(w.node, n)
		if present {
			// An expired entry that has not been collected yet is part of the state: entries of different age merge only
			// if the implementation treats them alike, which is what is being checked.
			desc += fmt.Sprintf(" advanced=%s", models[i].tableAge)
			// ... and so is the age the implementation itself counts for the entry (in steps of ten minutes; the real time a
			// path takes is milliseconds): two histories with the same advances but another idea of when the clock
			// started are different states.
			for _, vs := range w.node.Rig.RealProcess.VerifSessions() {
				if vs.Account == n {
					age := vs.Age
					if age > 4*c17Timeout {
						age = 4 * c17Timeout
					}
					desc += fmt.Sprintf(" counted=%dm", int(age/(10*time.Minute))*10)
				}
			}
		}
		var have []uint64
		for id := range models[i].contributed {
			have = append(have, id)
		}
		sort.Slice(have, func(a, b int) bool { return have[a] < have[b] })
		fmt.Fprintf(&sb, "%c: session[%s] account=%v model(active=%v,age=%s,contributed=%v); ", 'a'+i, desc, len(holders(w.c, n)) > 0, models[i].active, models[i].age, have)
	}
	out.Canon = sb.String()
	return out, nil
}

// c17RealClock lets real time pass instead of moving the recorded start of the sessions: whatever the instance has
// scheduled on the real clock for a generation that has ended must not touch the next generation of the same name. With
// a timeout of 2 s: prepare, abort, prepare again after 1.2 s, and 1.2 s later (the first generation's deadline has
// passed, the second one is 1.2 s old) the second generation must still be there. The verdict is given only if the
// process was scheduled on time (the second generation is then well inside its own timeout); otherwise the run is
// recorded as inconclusive.
func c17RealClock(run *ev.Run) (map[string]any, error) {
	const timeout = 2 * time.Second
	extra := map[uint64]string{}
	for _, id := range []uint64{1, 3} {
		extra[id] = fmt.Sprintf("%s:%d", rig.PeerName(id), 8000+id)
	}
	c, err := rig.NewCluster(rig.ClusterOpts{IDs: []uint64{c17Self}, ExtraPeers: extra, GenTimeout: timeout})
	if err != nil {
		return nil, err
	}
	defer c.Close()
	node := c.Nodes[c17Self]
	parts := make([]*core.Endpoint, len(c17Participants))
	for i, id := range c17Participants {
		parts[i] = &core.Endpoint{ID: id, Name: rig.PeerName(id), Port: uint32(8000 + id)}
	}
	res := map[string]any{"timeout": timeout.String()}
	for _, end := range []string{"abort"} {
		acct := fmt.Sprintf("%s/real-%s", rig.DistWallet, end)
		t0 := time.Now()
		if err := node.RecvPrepare(rig.PeerName(1), acct, 2, parts); err != nil {
			return nil, fmt.Errorf("real clock: first prepare refused: %v", err)
		}
		if err := node.RecvAbort(rig.PeerName(1), acct); err != nil {
			return nil, fmt.Errorf("real clock: abort refused: %v", err)
		}
		time.Sleep(time.Until(t0.Add(1200 * time.Millisecond)))
		t1 := time.Now()
		if err := node.RecvPrepare(rig.PeerName(1), acct, 2, parts); err != nil {
			return nil, fmt.Errorf("real clock: second prepare refused: %v", err)
		}
		time.Sleep(time.Until(t0.Add(2400 * time.Millisecond)))
		probeStart := time.Since(t0)
		present, _ := sessionOf(node, acct)
		err := node.RecvAbort(rig.PeerName(1), acct)
		// Judged only if, measured after the probe has returned, the second generation was still well inside its own
		// timeout, and the probe started after the first generation's deadline.
		age := time.Since(t1)
		judged := age < timeout-300*time.Millisecond && probeStart > timeout+100*time.Millisecond
		res["second_generation_age_at_probe"] = age.String()
		res["judged"] = judged
		if judged && (!present || err != nil) {
			run.Violate("real-clock:young-generation-gone",
				fmt.Sprintf("timeout %s: prepare, abort, prepare again 1.2 s later; %s after the second prepare (the first generation's deadline has passed) the second generation is gone (in the session table: %v; abort: %v) although nothing ended it and it is younger than the timeout", timeout, age.Round(time.Millisecond), present, err),
				map[string]any{"check": "C17", "real_clock": true})
		}
	}
	return res, nil
}

// c17ManyNames: generations for n different account names are prepared on one instance and left to time out; afterwards
// a new generation must be able to start for each of these names and for a name never seen. (How many generations may be
// active at once is not this property's business: only the prepares after the timeout are judged.)
func c17ManyNames(run *ev.Run, n int) (map[string]any, error) {
	extra := map[uint64]string{}
	for _, id := range []uint64{1, 3, 4} {
		extra[id] = fmt.Sprintf("%s:%d", rig.PeerName(id), 8000+id)
	}
	c, err := rig.NewCluster(rig.ClusterOpts{IDs: []uint64{c17Self}, ExtraPeers: extra, GenTimeout: c17Timeout})
	if err != nil {
		return nil, err
	}
	defer c.Close()
	node := c.Nodes[c17Self]
	parts := make([]*core.Endpoint, len(c17Participants))
	for i, id := range c17Participants {
		parts[i] = &core.Endpoint{ID: id, Name: rig.PeerName(id), Port: uint32(8000 + id)}
	}
	name := func(i int) string { return fmt.Sprintf("%s/many-%d", rig.DistWallet, i) }
	started := 0
	for i := 0; i < n; i++ {
		if err := node.RecvPrepare(rig.PeerName(1), name(i), 2, parts); err == nil {
			started++
		}
	}
	node.Rig.RealProcess.VerifAdvanceClock(2 * c17Timeout)
	restarted := 0
	for i := 0; i <= n; i++ {
		if err := node.RecvPrepare(rig.PeerName(1), name(i), 2, parts); err != nil {
			what := "whose generation has timed out"
			if i == n {
				what = "that was never used"
			}
			run.Violate("many-names:prepare-after-timeout-refused",
				fmt.Sprintf("%d generations (different account names) were prepared on one instance (%d started) and left to time out; after the timeout a prepare for the name %s (%s) is refused: %v", n, started, name(i), what, err),
				map[string]any{"check": "C17", "many_names": n})
			break
		}
		restarted++
	}
	return map[string]any{"names": n, "started": started, "started_again_after_timeout": restarted}, nil
}

// c17Unpreparable: a prepare that cannot succeed (threshold 0: the instance cannot make its own contribution) is sent by a
// peer. Whatever it is answered, it is answered, and so are an abort for that name and a prepare for another name
// afterwards (judged: answers, not their content). The watchdog is minutes long; a request takes milliseconds.
func c17Unpreparable(run *ev.Run) (map[string]any, error) {
	extra := map[uint64]string{}
	for _, id := range []uint64{1, 3, 4} {
		extra[id] = fmt.Sprintf("%s:%d", rig.PeerName(id), 8000+id)
	}
	c, err := rig.NewCluster(rig.ClusterOpts{IDs: []uint64{c17Self}, ExtraPeers: extra})
	if err != nil {
		return nil, err
	}
	node := c.Nodes[c17Self]
	parts := make([]*core.Endpoint, len(c17Participants))
	for i, id := range c17Participants {
		parts[i] = &core.Endpoint{ID: id, Name: rig.PeerName(id), Port: uint32(8000 + id)}
	}
	steps := []struct {
		what string
		f    func() error
	}{
		{"prepare with threshold 0", func() error { return node.RecvPrepare(rig.PeerName(1), rig.DistWallet+"/unpreparable", 0, parts) }},
		{"abort for that name", func() error { return node.RecvAbort(rig.PeerName(1), rig.DistWallet+"/unpreparable") }},
		{"prepare for another name", func() error { return node.RecvPrepare(rig.PeerName(1), rig.DistWallet+"/after-unpreparable", 2, parts) }},
	}
	answered := 0
	for _, st := range steps {
		done := make(chan string, 1)
		go func() {
			_, crash := deliver(st.f)
			done <- crash
		}()
		select {
		case crash := <-done:
			if crash != "" {
				run.Violate("unpreparable:crash", fmt.Sprintf("a %s from a peer makes the instance panic: %s", st.what, crash), map[string]any{"check": "C17", "unpreparable": true})
				return map[string]any{"answered": answered}, nil
			}
			answered++
		case <-time.After(3 * time.Minute):
			run.Violate("unpreparable:no-answer", fmt.Sprintf("after a prepare with threshold 0 from a peer, the %s is never answered (waited three minutes; a request takes milliseconds): the instance no longer follows any lifecycle", st.what),
				map[string]any{"check": "C17", "unpreparable": true})
			// The instance is stuck: it is left behind (closing it would wait for the same lock).
			return map[string]any{"answered": answered}, nil
		}
	}
	c.Close()
	return map[string]any{"answered": answered}, nil
}

// C17 explores the session lifecycle of one instance.
func C17(tier string) int {
	run := ev.NewRun("C17", tier, "model_checking")
	depth := 7
	budget := 150 * time.Second
	if tier == "thorough" {
		depth = 12
		budget = 15 * time.Minute
	}
	var ops []LOp
	for acct := 0; acct < 2; acct++ {
		ops = append(ops,
			LOp{Kind: "prepare", Acct: acct, From: 1},
			LOp{Kind: "execute", Acct: acct, From: 1},
			LOp{Kind: "contribute", Acct: acct, From: 1},
			LOp{Kind: "contribute", Acct: acct, From: 3},
			LOp{Kind: "contribute", Acct: acct, From: 4},
			LOp{Kind: "commit", Acct: acct, From: 1},
			LOp{Kind: "abort", Acct: acct, From: 1},
		)
	}
	ops = append(ops, LOp{Kind: "tick"}, LOp{Kind: "tick+"}, LOp{Kind: "tick-"})
	var serial atomic.Uint64
	samples := ev.NewSamples(6)
	outcomes := map[string]int{}
	r, err := bfs.Explore(bfs.Config[LOp]{
		NewWorker: func() (bfs.Worker[LOp], error) { return newC17Worker(&serial) },
		Ops: func(path []LOp) []LOp {
			if len(path) == 0 {
				// A history may start with the name of account a already taken (a later commit then fails when the key is
				// stored, not for want of contributions).
				return append(append([]LOp{}, ops...), LOp{Kind: "exists", Acct: 0})
			}
			return ops
		},
		MaxDepth: depth,
		Budget:   budget,
		OnViolation: func(path []LOp, v bfs.Viol) {
			var pt []string
			for _, o := range path {
				pt = append(pt, o.String())
			}
			run.Violate(v.Key, fmt.Sprintf("after [%s]: %s", strings.Join(pt, ", "), v.What), map[string]any{"check": "C17", "path": path, "path_text": pt})
		},
		OnTransition: func(path []LOp, out bfs.Outcome, isNew bool) {
			outcomes[path[len(path)-1].Kind+":"+out.Obs[len(out.Obs)-1]]++
			if isNew && len(path) >= 3 {
				var pt []string
				for _, o := range path {
					pt = append(pt, o.String())
				}
				samples.Add(map[string]any{"path": pt, "observations": out.Obs, "state": out.Canon})
			}
		},
	})
	if err != nil {
		run.HarnessErr = err
		return run.Finish()
	}
	realTime, err := c17RealClock(run)
	if err != nil {
		run.HarnessErr = err
		return run.Finish()
	}
	manyN := 100
	if tier == "thorough" {
		manyN = 2000
	}
	many, err := c17ManyNames(run, manyN)
	if err != nil {
		run.HarnessErr = err
		return run.Finish()
	}
	unprep, err := c17Unpreparable(run)
	if err != nil {
		run.HarnessErr = err
		return run.Finish()
	}
	refused, err := c17RefusedContribution(run)
	if err != nil {
		run.HarnessErr = err
		return run.Finish()
	}
	conc, err := c17Concurrent(run, time.Now().Add(budget))
	if err != nil {
		run.HarnessErr = err
		return run.Finish()
	}
	concExecs := 0
	if conc != nil {
		concExecs = conc["executions"].(int)
	}
	run.Coverage = map[string]any{
		"concurrent_delivery":           conc,
		"real_clock":                    realTime,
		"many_account_names":            many,
		"prepare_that_cannot_succeed":   unprep,
		"refused_contribution":          refused,
		"states":                        r.States,
		"transitions":                   r.Transitions,
		"traces_validated_against_impl": r.Transitions,
		"evaluations":                   r.Transitions + concExecs,
		"distinct_nontrivial":           r.States,
		"rule":                          "BFS over event sequences delivered to one real instance (id 2; configured peers 1..4; listed participants 1,2,3; peer 4 is configured but not a participant) through its real receiver handler: prepare/execute/contribute(from 1,3,4)/commit/abort for two account names and clock advances of 2 h, 1 h + 300 ms and 50 min against a 1 h timeout (a session is expired exactly when the advances since its prepare exceed the timeout); peers' messages carry valid polynomials, outbound contributions are answered by virtual peers; a state is the instance's session table for the two names, account existence and the harness's own record of who contributed; lifecycle monitors from the property text are evaluated on every transition; plus: generations for many different names (see many_account_names) are left to time out, after which a generation for each of the names and for a fresh one must start",
		"samples":                       samples.List(),
		"exhaustive":                    !r.BudgetHit,
		"depth_completed":               r.DepthDone,
		"frontier_empty":                r.FrontierEmpty,
		"cap":                           r.Capped,
		"states_by_depth":               r.StatesByDepth,
		"events_per_state":              len(ops),
		"outcomes":                      outcomes,
	}
	run.Assumptions = []string{"a generation ends by a successful commit, an abort or the timeout and by nothing else (after a failed commit it is still the one generation of its name)", "threshold 2 of 3 only"}
	return run.Finish()
}

func init() {
	Registry["C17"] = C17
	Replayers["C17"] = func(raw json.RawMessage) int {
		var rp struct {
			Path       []LOp            `json:"path"`
			Concurrent *c17ConcScenario `json:"concurrent"`
			Choices    []int            `json:"choices"`
			PerG       bool             `json:"goroutine_mode"`
			ManyNames  int              `json:"many_names"`
			Refused    bool             `json:"refused_contribution"`
		}
		if err := json.Unmarshal(raw, &rp); err != nil {
			fmt.Println(err)
			return 2
		}
		if rp.Concurrent != nil {
			return c17ReplayConcurrent(*rp.Concurrent, rp.Choices, rp.PerG)
		}
		if rp.Refused {
			run := ev.NewRun("C17", "replay", "model_checking")
			if _, err := c17RefusedContribution(run); err != nil {
				fmt.Println(err)
				return 2
			}
			for _, v := range run.Violations() {
				fmt.Println("  VIOLATED:", v.What)
			}
			if len(run.Violations()) > 0 {
				return 1
			}
			fmt.Println("  no violation on replay")
			return 0
		}
		if rp.ManyNames > 0 {
			run := ev.NewRun("C17", "replay", "model_checking")
			res, err := c17ManyNames(run, rp.ManyNames)
			if err != nil {
				fmt.Println(err)
				return 2
			}
			fmt.Printf("  %v\n", res)
			if res["started_again_after_timeout"].(int) <= rp.ManyNames {
				fmt.Println("  VIOLATED: a prepare after the timeout was refused")
				return 1
			}
			fmt.Println("  no violation on replay")
			return 0
		}
		var serial atomic.Uint64
		w, err := newC17Worker(&serial)
		if err != nil {
			fmt.Println(err)
			return 2
		}
		defer w.Close()
		out, err := w.Run(rp.Path)
		if err != nil {
			fmt.Println(err)
			return 2
		}
		for i, o := range rp.Path {
			fmt.Printf("  %-28s -> %s\n", o.String(), out.Obs[i])
		}
		fmt.Println("  state:", out.Canon)
		for _, v := range out.Viol {
			fmt.Println("  VIOLATED:", v.What)
		}
		if len(out.Viol) > 0 {
			return 1
		}
		fmt.Println("  no violation on replay")
		return 0
	}
}
