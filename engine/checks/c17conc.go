//go:build verifsched

package checks

import (
	"fmt"
	"runtime"
	"sort"
	"strings"
	"time"

	"verif/ev"
	"verif/rig"
	"verif/sched"

	"github.com/attestantio/dirk/core"
	"github.com/herumi/bls-eth-go-binary/bls"
)

// c17ConcScenario: messages for one account name delivered to the instance at the same time. Pre is the state the
// session is brought to before ("none": no session; "ready": prepared, executed, every listed participant contributed).
type c17ConcScenario struct {
	Name    string     `json:"name"`
	Pre     string     `json:"pre"`
	Threads [][]string `json:"threads"` // each thread delivers its messages in order: prepare, commit, abort
}

func c17ConcScenarios() []c17ConcScenario {
	return []c17ConcScenario{
		{"ready: commit || abort", "ready", [][]string{{"commit"}, {"abort"}}},
		{"ready: commit || abort;prepare", "ready", [][]string{{"commit"}, {"abort", "prepare"}}},
		{"ready: commit || commit", "ready", [][]string{{"commit"}, {"commit"}}},
		{"ready: commit || prepare", "ready", [][]string{{"commit"}, {"prepare"}}},
		{"ready: commit;prepare || abort", "ready", [][]string{{"commit", "prepare"}, {"abort"}}},
		{"ready: abort || abort", "ready", [][]string{{"abort"}, {"abort"}}},
		{"ready: abort || prepare", "ready", [][]string{{"abort"}, {"prepare"}}},
		{"ready: commit || abort || prepare", "ready", [][]string{{"commit"}, {"abort"}, {"prepare"}}},
		{"none: prepare || prepare", "none", [][]string{{"prepare"}, {"prepare"}}},
		{"none: prepare || abort", "none", [][]string{{"prepare"}, {"abort"}}},
		{"none: prepare;abort || prepare", "none", [][]string{{"prepare", "abort"}, {"prepare"}}},
	}
}

type c17Call struct {
	thread, idx int
	op          string
	call, ret   int
	ok          bool
}

// c17Serial applies the sequential lifecycle of the property to the calls in the given order.
func c17Serial(order []*c17Call, active, complete bool) (oks []bool, finalActive, account bool) {
	for _, c := range order {
		ok := false
		switch c.op {
		case "prepare":
			if !active {
				ok, active, complete = true, true, false
			}
		case "abort":
			if active {
				ok, active = true, false
			}
		case "commit":
			if active && complete {
				ok, active, account = true, false, true
			} else if active {
				// A commit on an incomplete generation fails; what happens to the session then is not specified.
				return nil, false, false
			}
		}
		oks = append(oks, ok)
	}
	return oks, active, account
}

func c17Explains(calls []*c17Call, preActive, preComplete, finalActive, finalAccount bool) (bool, string) {
	n := len(calls)
	used := make([]bool, n)
	var order []*c17Call
	var tried []string
	var rec func() bool
	rec = func() bool {
		if len(order) == n {
			oks, fa, acc := c17Serial(order, preActive, preComplete)
			if oks == nil {
				return true // outside what the property specifies: not judged
			}
			good := fa == finalActive && acc == finalAccount
			var l []string
			for i, c := range order {
				if oks[i] != c.ok {
					good = false
				}
				l = append(l, fmt.Sprintf("%s=>%v", c.op, oks[i]))
			}
			if !good && len(tried) < 6 {
				tried = append(tried, fmt.Sprintf("%s (session %v, account %v)", strings.Join(l, " "), fa, acc))
			}
			return good
		}
		for i, c := range calls {
			if used[i] {
				continue
			}
			first := true
			for j, d := range calls {
				if !used[j] && j != i && (d.thread == c.thread && d.idx < c.idx || d.thread != c.thread && d.ret < c.call) {
					first = false
				}
			}
			if !first {
				continue
			}
			used[i] = true
			order = append(order, c)
			if rec() {
				return true
			}
			order = order[:len(order)-1]
			used[i] = false
		}
		return false
	}
	if rec() {
		return true, ""
	}
	return false, strings.Join(tried, " | ")
}

// c17ReplayConcurrent re-executes one recorded schedule of a concurrent-delivery scenario.
func c17ReplayConcurrent(scn c17ConcScenario, choices []int, perG bool) int {
	old := runtime.GOMAXPROCS(1)
	defer runtime.GOMAXPROCS(old)
	env, err := newC17ConcEnv()
	if err != nil {
		fmt.Println(err)
		return 2
	}
	defer env.close()
	xs, fs, err := sched.Replay(env.scenario(scn, nil), choices, 2, perG)
	if err != nil {
		fmt.Println(err)
		return 2
	}
	fmt.Printf("  schedule: %s\n", xs[0].Schedule())
	for _, f := range fs[0] {
		fmt.Printf("  VIOLATED: %s\n", f.What)
	}
	if len(fs[0]) > 0 {
		return 1
	}
	fmt.Println("  no violation on replay")
	return 0
}

type c17ConcEnv struct {
	c      *rig.Cluster
	parts  []*core.Endpoint
	serial int
}

func newC17ConcEnv() (*c17ConcEnv, error) {
	e := &c17ConcEnv{}
	for _, id := range c17Participants {
		e.parts = append(e.parts, &core.Endpoint{ID: id, Name: rig.PeerName(id), Port: uint32(8000 + id)})
	}
	return e, e.newCluster()
}

func (e *c17ConcEnv) newCluster() error {
	if e.c != nil {
		e.c.Close()
	}
	extra := map[uint64]string{}
	for _, id := range []uint64{1, 3, 4} {
		extra[id] = fmt.Sprintf("%s:%d", rig.PeerName(id), 8000+id)
	}
	var err error
	e.c, err = rig.NewCluster(rig.ClusterOpts{IDs: []uint64{c17Self}, ExtraPeers: extra})
	return err
}

func (e *c17ConcEnv) close() { e.c.Close() }

// scenario builds the scheduler scenario; class (optional) receives the outcome class of the last execution.
func (e *c17ConcEnv) scenario(scn c17ConcScenario, class *string) sched.Scenario {
	return func() ([]func(s *sched.Sched), func(x *sched.Exec) []sched.Finding) {
		e.serial++
		if e.serial%200 == 0 {
			if err := e.newCluster(); err != nil {
				panic(err)
			}
		}
		c := e.c
		node := c.Nodes[c17Self]
		node.Rig.RealProcess.VerifClearSessions()
		acct := fmt.Sprintf("%s/conc-%d", rig.DistWallet, e.serial)
		polys := map[uint64]*rig.Poly{}
		poly := func(peer uint64) *rig.Poly {
			if polys[peer] == nil {
				polys[peer] = rig.NewPoly(2)
			}
			return polys[peer]
		}
		c.Virtual = func(from, to uint64, account string, _ bls.SecretKey, _ []bls.PublicKey) (bls.SecretKey, []bls.PublicKey, error) {
			p := poly(to)
			return p.Share(from), p.VVec, nil
		}
		preActive, preComplete := false, false
		if scn.Pre == "ready" {
			// Outside the scheduler: bring the session to the point where a commit would succeed.
			if err := node.RecvPrepare(rig.PeerName(1), acct, 2, e.parts); err != nil {
				panic(fmt.Sprintf("prepare: %v", err))
			}
			if err := node.RecvExecute(rig.PeerName(1), acct); err != nil {
				panic(fmt.Sprintf("execute: %v", err))
			}
			for _, from := range []uint64{1, 3} {
				p := poly(from)
				if _, _, err := node.RecvContribute(rig.PeerName(from), acct, p.Share(c17Self), p.VVec); err != nil {
					panic(fmt.Sprintf("contribute from %d: %v", from, err))
				}
			}
			preActive, preComplete = true, true
		}
		var calls []*c17Call
		var bodies []func(s *sched.Sched)
		for ti, th := range scn.Threads {
			recs := make([]*c17Call, len(th))
			for i, op := range th {
				recs[i] = &c17Call{thread: ti, idx: i, op: op, call: -1, ret: -1}
				calls = append(calls, recs[i])
			}
			th := th
			bodies = append(bodies, func(s *sched.Sched) {
				for i, op := range th {
					recs[i].call = s.Now()
					var err error
					switch op {
					case "prepare":
						err = node.RecvPrepare(rig.PeerName(1), acct, 2, e.parts)
					case "abort":
						err = node.RecvAbort(rig.PeerName(1), acct)
					case "commit":
						_, _, err = node.RecvCommit(rig.PeerName(1), acct, pat(0x77))
					}
					recs[i].ok = err == nil
					recs[i].ret = s.Now()
				}
			})
		}
		setClass := func(v string) {
			if class != nil {
				*class = v
			}
		}
		check := func(x *sched.Exec) []sched.Finding {
			var fs []sched.Finding
			var l, cl []string
			for _, c := range calls {
				l = append(l, fmt.Sprintf("T%d.%d %s [%d,%d] => %v", c.thread, c.idx, c.op, c.call, c.ret, c.ok))
				cl = append(cl, fmt.Sprintf("%s=%v", c.op, c.ok))
			}
			if x.Deadlock || x.Stuck {
				setClass("deadlock")
				return []sched.Finding{{Key: "c17-concurrent-deadlock:" + scn.Name, What: fmt.Sprintf("messages delivered at the same time (%s) wait on each other forever: %s", scn.Name, strings.Join(x.Blocked, "; "))}}
			}
			for id, p := range x.Panics {
				fs = append(fs, sched.Finding{Key: "c17-concurrent-panic:" + scn.Name, What: fmt.Sprintf("%s: thread %d panicked: %s", scn.Name, id, p)})
			}
			if len(fs) > 0 || x.Uncontrolled {
				return fs
			}
			present, _ := sessionOf(node, acct)
			account := len(holders(c, acct)) > 0
			setClass(fmt.Sprintf("%s | session=%v account=%v", strings.Join(cl, " "), present, account))
			if ok, tried := c17Explains(calls, preActive, preComplete, present, account); !ok {
				fs = append(fs, sched.Finding{Key: "c17-concurrent:" + scn.Name,
					What: fmt.Sprintf("messages delivered at the same time (%s): %s; afterwards session present=%v, account exists=%v; no order of the messages explains this under the one-per-account lifecycle; serial orders give: %s", scn.Name, strings.Join(l, " ; "), present, account, tried)})
			}
			return fs
		}
		return bodies, check
	}
}

// c17Concurrent explores every interleaving (at the granularity of the generations-table lock) of the scenarios.
func c17Concurrent(run *ev.Run, deadline time.Time) (map[string]any, error) {
	old := runtime.GOMAXPROCS(1)
	defer runtime.GOMAXPROCS(old)
	env, err := newC17ConcEnv()
	if err != nil {
		return nil, err
	}
	defer env.close()
	per := map[string]any{}
	execsTotal := 0
	allDone := 0
	for _, scn := range c17ConcScenarios() {
		var class string
		mk := env.scenario(scn, &class)
		d := time.Now().Add(60 * time.Second)
		if d.After(deadline) {
			d = deadline
		}
		st, viols, err := sched.ExploreAll(mk, d, func(x *sched.Exec) string { return class })
		if err != nil {
			return nil, fmt.Errorf("scenario %s: %w", scn.Name, err)
		}
		for _, v := range viols {
			xs, fs, rerr := sched.Replay(mk, v.Choices, 3, v.PerG)
			same := rerr == nil
			for k := range xs {
				found := false
				for _, f := range fs[k] {
					if f.Key == v.Key {
						found = true
					}
				}
				same = same && found
			}
			if !same {
				return nil, fmt.Errorf("scenario %s: violation %s did not reproduce on replay (harness nondeterminism)", scn.Name, v.Key)
			}
			run.Violate(v.Key, v.What, map[string]any{"check": "C17", "concurrent": scn, "choices": v.Choices, "schedule": v.Schedule, "goroutine_mode": v.PerG})
		}
		var outs []string
		for o, n := range st.Outcomes {
			outs = append(outs, fmt.Sprintf("%dx %s", n, o))
		}
		sort.Strings(outs)
		per[scn.Name] = map[string]any{"executions": st.Executions, "all_interleavings": st.AllInterleavings, "max_preemptions": st.MaxPreemptions, "max_points": st.MaxPoints, "outcomes": outs, "goroutine_mode": st.GoroutineMode}
		execsTotal += st.Executions
		if st.AllInterleavings {
			allDone++
		}
	}
	return map[string]any{"scenarios": len(per), "scenarios_with_all_interleavings_explored": allDone, "executions": execsTotal, "per_scenario": per,
		"rule": "messages for one account name delivered to the instance at the same time (commit, abort, prepare in two or three threads, from a session that is ready to commit or from no session), every interleaving at the granularity of the generations-table lock (the service's sync.RWMutex routed through the scheduler's shim); the results, the session table and the existence of the account afterwards must be explained by some order of the messages under the sequential lifecycle"}, nil
}
