//go:build !verifsched

package checks

import (
	"time"

	"verif/ev"
)

// c17Concurrent needs the scheduler build (bin/check builds C17 with it).
func c17Concurrent(_ *ev.Run, _ time.Time) (map[string]any, error) { return nil, nil }

type c17ConcScenario struct {
	Name    string     `json:"name"`
	Pre     string     `json:"pre"`
	Threads [][]string `json:"threads"`
}

func c17ReplayConcurrent(_ c17ConcScenario, _ []int, _ bool) int { return 2 }
