package checks

import (
	"fmt"

	"verif/ev"
	"verif/rig"

	"github.com/attestantio/dirk/core"
)

// c17RefusedContribution: a listed participant whose only contribution was refused has not contributed. For each of the two
// remote participants as the one whose contribution is bad (a share taken from another polynomial than the verification
// vector it comes with, the vector of the right length), placed before or after the good contribution of the other one: the
// bad contribution is refused, a commit then fails and creates nothing, and once the good contribution has arrived the commit
// succeeds (so the refusals are not those of an instance that refuses everything).
func c17RefusedContribution(run *ev.Run) (map[string]any, error) {
	extra := map[uint64]string{}
	for _, id := range []uint64{1, 3, 4} {
		extra[id] = fmt.Sprintf("%s:%d", rig.PeerName(id), 8000+id)
	}
	c, err := rig.NewCluster(rig.ClusterOpts{IDs: []uint64{c17Self}, ExtraPeers: extra})
	if err != nil {
		return nil, err
	}
	defer c.Close()
	node := c.Nodes[c17Self]
	parts := make([]*core.Endpoint, len(c17Participants))
	for i, id := range c17Participants {
		parts[i] = &core.Endpoint{ID: id, Name: rig.PeerName(id), Port: uint32(8000 + id)}
	}
	cells, commitsRefused, commitsDone := 0, 0, 0
	for _, bad := range []uint64{1, 3} {
		for _, badFirst := range []bool{true, false} {
			for _, twice := range []bool{false, true} {
				cells++
				good := uint64(4) - bad
				acct := fmt.Sprintf("%s/refused-%d-%v-%v", rig.DistWallet, bad, badFirst, twice)
				rp := map[string]any{"check": "C17", "refused_contribution": true}
				tag := fmt.Sprintf("bad=%d:first=%v:twice=%v", bad, badFirst, twice)
				if err := node.RecvPrepare(rig.PeerName(1), acct, 2, parts); err != nil {
					return nil, fmt.Errorf("prepare for %s refused: %v", acct, err)
				}
				pg, pb, other := rig.NewPoly(2), rig.NewPoly(2), rig.NewPoly(2)
				sendGood := func() error {
					_, _, e := node.RecvContribute(rig.PeerName(good), acct, pg.Share(c17Self), pg.VVec)
					return e
				}
				sendBad := func() {
					n := 1
					if twice {
						n = 2
					}
					for i := 0; i < n; i++ {
						if _, _, e := node.RecvContribute(rig.PeerName(bad), acct, other.Share(c17Self), pb.VVec); e == nil {
							run.Violate("refused-contribution:accepted:"+tag, fmt.Sprintf("a contribution from participant %d whose share does not match its verification vector was accepted", bad), rp)
						}
					}
				}
				if badFirst {
					sendBad()
				}
				if e := sendGood(); e != nil {
					return nil, fmt.Errorf("good contribution from %d refused: %v", good, e)
				}
				if !badFirst {
					sendBad()
				}
				if pk, _, e := node.RecvCommit(rig.PeerName(1), acct, pat(0x77)); e == nil {
					run.Violate("commit-after-refused-contribution:"+tag, fmt.Sprintf("prepare, a good contribution from %d and only a refused one from %d (bad first: %v, sent twice: %v): commit succeeded (key %x...) although listed participant %d never contributed", good, bad, badFirst, twice, pk[:4], bad), rp)
					continue
				}
				commitsRefused++
				if len(holders(c, acct)) > 0 {
					run.Violate("refused-commit-created-account:"+tag, "the refused commit left the account behind", rp)
				}
				if _, _, e := node.RecvContribute(rig.PeerName(bad), acct, pb.Share(c17Self), pb.VVec); e != nil {
					run.Violate("good-contribution-after-refused-one-refused:"+tag, fmt.Sprintf("after its refused contribution participant %d's valid one is refused: %v", bad, e), rp)
					continue
				}
				if _, _, e := node.RecvCommit(rig.PeerName(1), acct, pat(0x77)); e != nil {
					run.Violate("commit-with-all-contributions-refused:"+tag, fmt.Sprintf("every listed participant has contributed and commit fails: %v", e), rp)
					continue
				}
				commitsDone++
			}
		}
	}
	return map[string]any{"cells": cells, "commits_refused": commitsRefused, "commits_done_after_valid_contribution": commitsDone}, nil
}
