package checks

import (
	"bytes"
	"context"
	"encoding/json"
	"fmt"
	"github.com/attestantio/dirk/core"
	"github.com/attestantio/dirk/services/lister"
	"regexp"
	"sort"
	"strings"
	"time"

	"verif/ev"
	"verif/model"
	"verif/rig"

	listerhandler "github.com/attestantio/dirk/services/api/grpc/handlers/lister"
	"github.com/attestantio/dirk/services/api/grpc/interceptors"
	"github.com/attestantio/dirk/services/checker"
	pb "github.com/wealdtech/eth2-signer-api/pb/v1"
	e2types "github.com/wealdtech/go-eth2-types/v2"
	distributed "github.com/wealdtech/go-eth2-wallet-distributed"
	nd "github.com/wealdtech/go-eth2-wallet-nd/v2"
	e2wtypes "github.com/wealdtech/go-eth2-wallet-types/v2"
)

type c18Acct struct {
	wallet, name string
	pub          []byte // public key (share key for distributed accounts)
	composite    []byte
}

func wholeCS(p, name string) (bool, bool) {
	re, err := regexp.Compile("^(?:" + p + ")$")
	if err != nil {
		return false, false
	}
	return re.MatchString(name), true
}

// c18Expect computes the must-contain and may-contain sets.
func c18Expect(table map[string][]model.PermEntry, client string, pop []c18Acct, paths []string) (must map[string]bool, may map[string]bool) {
	must, may = map[string]bool{}, map[string]bool{}
	wallets := map[string]bool{}
	for _, a := range pop {
		wallets[a.wallet] = true
	}
	for _, p := range paths {
		if p == "" || strings.HasPrefix(p, "/") {
			continue
		}
		w, ap := model.SplitPath(p)
		if strings.HasSuffix(p, "/") {
			ap = ""
		}
		if !wallets[w] {
			continue
		}
		for _, a := range pop {
			if a.wallet != w || !model.Allowed(table, client, a.wallet, a.name, "Access account") {
				continue
			}
			full := a.wallet + "/" + a.name
			may[full] = true
			if ap == "" {
				must[full] = true
				continue
			}
			if m, ok := wholeCS(ap, a.name); ok && m {
				must[full] = true
			}
		}
	}
	return
}

func c18Paths() []string {
	return []string{"W1", "W1/", "W1/acc", "W1/a.*", "W1/acc|b", "W1/^acc$", "W2/acc", "D1", "D1/dacc", "Unknown", "", "/x", "W1/(", "w1", "W2/.*c", "W1/A.c",
		// a shorter alternative before a longer one, and a lazy quantifier: a whole-name match exists although the match a
		// regexp engine prefers is a proper prefix of the name
		"W1/(acc|accx)", "W1/acc.*?"}
}

func c18Tables() []map[string][]model.PermEntry {
	return []map[string][]model.PermEntry{
		{"c1": {{Path: "W1", Ops: []string{"All"}}}},
		{"c1": {{Path: "W1/acc", Ops: []string{"Access account"}}}},
		{"c1": {{Path: "W1/acc", Ops: []string{"~Access account"}}, {Path: "W.*", Ops: []string{"All"}}}},
		{"c1": {{Path: ".*", Ops: []string{"All"}}}},
		{"c1": {{Path: "W2", Ops: []string{"None"}}, {Path: ".*/a.*", Ops: []string{"access account"}}}},
		{"c1": {{Path: "D1", Ops: []string{"All"}}, {Path: "W1/gen.*", Ops: []string{"Access account", "Create account"}}}},
		{"c1": {{Path: "W1/acc|b", Ops: []string{"Sign", "Access account"}}}, "c2": {{Path: "W2", Ops: []string{"All"}}}},
	}
}

// C18 checks account listing against a reference lister.
// interposedLister stands for a server that handles requests side by side: between the moment the lister hands its
// result to the handler and the moment the handler reads it, another client's listing is served in full. Whatever the
// lister keeps between requests must not show in the first result.
type interposedLister struct {
	lister.Service
}

func (l *interposedLister) ListAccounts(ctx context.Context, credentials *checker.Credentials, paths []string) (core.Result, []e2wtypes.Account) {
	res, accounts := l.Service.ListAccounts(ctx, credentials, paths)
	other := &checker.Credentials{Client: "c2", RequestID: "interposed"}
	if credentials != nil && credentials.Client == "c2" {
		other.Client = "c1"
	}
	_, _ = l.Service.ListAccounts(ctx, other, []string{"W2", "D1", "W1/a.*"})
	return res, accounts
}

func C18(tier string) int {
	run := ev.NewRun("C18", tier, "exploration")
	rig.Init()
	paths := c18Paths()
	var lists [][]string
	for _, p := range paths {
		lists = append(lists, []string{p})
	}
	for _, p := range paths {
		for _, q := range paths {
			lists = append(lists, []string{p, q})
		}
	}
	if tier == "thorough" {
		for i, p := range paths {
			for j, q := range paths {
				for k, s := range paths {
					if (i+j+k)%3 == 0 {
						lists = append(lists, []string{p, q, s})
					}
				}
			}
		}
	}
	cells, returned := 0, 0
	classes := map[string]int{}
	samples := ev.NewSamples(5)
	for ti, table := range c18Tables() {
		var pop []c18Acct
		r, err := rig.NewSignerRig(rig.SignerOpts{
			Wallets: []string{"W1", "W2"}, DistWallets: []string{"D1"}, Permissions: toPerms(table), Full: true,
			Populate: func(ctx context.Context, store e2wtypes.Store, enc e2wtypes.Encryptor) error {
				// (W1/A.c is the exact name of one account and, read as the pattern it is, matches two more.)
				// One key is held under two wallets (W1/b and W2/z are the same validator key, as after a migration
				// between wallets): both accounts exist and are listed.
				shared := rig.NewKey()
				for _, wn := range []struct {
					w     string
					names []string
				}{{"W1", []string{"acc", "accx", "b", "A.c", "A-c", "Abc"}}, {"W2", []string{"acc", "z"}}} {
					w, names := wn.w, wn.names
					wl, err := nd.OpenWallet(ctx, w, store, enc)
					if err != nil {
						return err
					}
					if err := wl.(e2wtypes.WalletLocker).Unlock(ctx, nil); err != nil {
						return err
					}
					sort.Strings(names)
					for _, n := range names {
						k := rig.NewKey()
						if (w == "W1" && n == "b") || (w == "W2" && n == "z") {
							k = shared
						}
						a, err := wl.(e2wtypes.WalletAccountImporter).ImportAccount(ctx, n, k.Marshal(), []byte("pass"))
						if err != nil {
							return err
						}
						pop = append(pop, c18Acct{wallet: w, name: n, pub: a.PublicKey().Marshal()})
					}
				}
				dw, err := distributed.OpenWallet(ctx, "D1", store, enc)
				if err != nil {
					return err
				}
				if err := dw.(e2wtypes.WalletLocker).Unlock(ctx, nil); err != nil {
					return err
				}
				k := rig.NewKey()
				comp := rig.NewKey()
				vvec := [][]byte{comp.PublicKey().Marshal(), rig.NewKey().PublicKey().Marshal()}
				a, err := dw.(e2wtypes.WalletDistributedAccountImporter).ImportDistributedAccount(ctx, "dacc", k.Marshal(), 2, vvec,
					map[uint64]string{1: "signer-test01:8881", 2: "signer-test02:8882", 3: "signer-test03:8883"}, []byte("pass"))
				if err != nil {
					return err
				}
				pop = append(pop, c18Acct{wallet: "D1", name: "dacc", pub: a.PublicKey().Marshal(), composite: comp.PublicKey().Marshal()})
				// A distributed account whose participants' addresses are an IPv6 literal and a bare host name (wallets
				// are also written by other tools): it is an account like any other.
				k6, comp6 := rig.NewKey(), rig.NewKey()
				a6, err := dw.(e2wtypes.WalletDistributedAccountImporter).ImportDistributedAccount(ctx, "dacc6", k6.Marshal(), 2, [][]byte{comp6.PublicKey().Marshal(), rig.NewKey().PublicKey().Marshal()},
					map[uint64]string{1: "signer-test01:8881", 2: "[fd00::2]:9091", 3: "barehost"}, []byte("pass"))
				if err != nil {
					return err
				}
				pop = append(pop, c18Acct{wallet: "D1", name: "dacc6", pub: a6.PublicKey().Marshal(), composite: comp6.PublicKey().Marshal()})
				return nil
			},
		})
		if err != nil {
			run.HarnessErr = err
			return run.Finish()
		}
		handler, err := listerhandler.New(r.Ctx, listerhandler.WithLister(&interposedLister{Service: r.Lister}))
		if err != nil {
			run.HarnessErr = err
			return run.Finish()
		}
		for phase := 0; phase < 3; phase++ {
			if phase >= 1 {
				// Dynamic creation through Dirk: a plain account via generation (where this table permits it),
				// and a distributed account added the way a DKG commit adds it (import + AddAccount).
				creds := &checker.Credentials{Client: "c1", RequestID: "r"}
				// (Phase 2 does the same again: a second creation in each wallet after the wallet has been listed with
				// its first dynamic account in place.)
				gen, dyn := fmt.Sprintf("gen%d", phase), fmt.Sprintf("dyn%d", phase)
				if pk, _, gerr := r.Process.OnGenerate(r.Ctx, creds, "W1/"+gen, []byte("pass"), 1, 1); gerr == nil {
					pop = append(pop, c18Acct{wallet: "W1", name: gen, pub: pk})
					classes["dynamic plain account created"]++
				}
				dw := r.Wallets["D1"]
				_ = dw.(e2wtypes.WalletLocker).Unlock(r.Ctx, nil)
				k, comp := rig.NewKey(), rig.NewKey()
				a, ierr := dw.(e2wtypes.WalletDistributedAccountImporter).ImportDistributedAccount(r.Ctx, dyn, k.Marshal(), 2,
					[][]byte{comp.PublicKey().Marshal(), rig.NewKey().PublicKey().Marshal()}, map[uint64]string{1: "signer-test01:8881", 2: "signer-test02:8882"}, []byte("pass"))
				if ierr != nil {
					run.HarnessErr = ierr
					return run.Finish()
				}
				if err := r.RealFetch.AddAccount(r.Ctx, dw, a); err != nil {
					run.HarnessErr = err
					return run.Finish()
				}
				pop = append(pop, c18Acct{wallet: "D1", name: dyn, pub: a.PublicKey().Marshal(), composite: comp.PublicKey().Marshal()})
			}
			byFull := map[string]c18Acct{}
			for _, a := range pop {
				byFull[a.wallet+"/"+a.name] = a
			}
			for _, client := range []string{"c1", "c2", ""} {
				ctx := context.WithValue(r.Ctx, &interceptors.ClientName{}, client)
				for _, pl := range lists {
					cells++
					res, err := handler.ListAccounts(ctx, &pb.ListAccountsRequest{Paths: pl})
					if err != nil {
						run.HarnessErr = err
						return run.Finish()
					}
					// The response is read after the server has answered somebody else.
					otherClient := "c2"
					if client == "c2" {
						otherClient = "c1"
					}
					_, _ = handler.ListAccounts(context.WithValue(r.Ctx, &interceptors.ClientName{}, otherClient), &pb.ListAccountsRequest{Paths: []string{"W2", "W1/b", "D1"}})
					must, may := c18Expect(table, client, pop, pl)
					got := map[string]bool{}
					rp := map[string]any{"check": "C18", "table": ti, "client": client, "paths": pl, "phase": phase}
					checkOne := func(name string, pub, comp []byte) {
						got[name] = true
						returned++
						a, known := byFull[name]
						if !known {
							run.Violate(fmt.Sprintf("unknown-account:%s", name), fmt.Sprintf("listing %v returned %q which is not an account of the population", pl, name), rp)
							return
						}
						if !may[name] {
							why := "it lies outside the requested wallets"
							if !model.Allowed(table, client, a.wallet, a.name, "Access account") {
								why = "the client lacks the access permission"
							}
							run.Violate(fmt.Sprintf("listed-unpermitted:table=%d:client=%s:%s:paths=%v", ti, client, name, pl),
								fmt.Sprintf("table %d, client %q, paths %v: %q was returned although %s", ti, client, pl, name, why), rp)
						}
						if !bytes.Equal(pub, a.pub) || (a.composite != nil && !bytes.Equal(comp, a.composite)) {
							run.Violate(fmt.Sprintf("wrong-key:%s", name), fmt.Sprintf("listing returned %q with a public key that is not the account's", name), rp)
						}
					}
					for _, a := range res.GetAccounts() {
						checkOne(a.GetName(), a.GetPublicKey(), nil)
					}
					for _, a := range res.GetDistributedAccounts() {
						checkOne(a.GetName(), a.GetPublicKey(), a.GetCompositePublicKey())
					}
					for name := range must {
						if !got[name] {
							run.Violate(fmt.Sprintf("missing:table=%d:client=%s:%s:paths=%v", ti, client, name, pl),
								fmt.Sprintf("table %d, client %q, paths %v (phase %d): %q may be accessed and matches a requested path but was not returned", ti, client, pl, phase, name), rp)
						}
					}
					classes[fmt.Sprintf("must=%d got=%d", len(must), len(got))]++
					if cells%911 == 1 {
						var gl []string
						for g := range got {
							gl = append(gl, g)
						}
						sort.Strings(gl)
						samples.Add(map[string]any{"table": table, "client": client, "paths": pl, "phase": phase, "returned": gl})
					}
				}
			}
		}
		r.Close()
	}
	conc, err := c18Concurrent(run, time.Now().Add(3*time.Minute))
	if err != nil {
		run.HarnessErr = err
		return run.Finish()
	}
	racePassInfo, err := raceFindings(run, "accounts are generated into a wallet that was empty at start-up while two clients list it and a third signs with what exists so far, free-running in a child built with -race")
	if err != nil {
		run.HarnessErr = err
		return run.Finish()
	}
	run.Coverage = map[string]any{
		"race_detector_pass":         racePassInfo,
		"creations_at_the_same_time": conc,
		"evaluations":                cells,
		"distinct_nontrivial":        len(classes),
		"rule":                       "population: 2 plain wallets and 1 distributed wallet with regex-significant account names; 7 permission tables incl. per-account, deny-first and case-differing entries; every path list of length <= 2 (<= 3 in thorough, one third of the triples) over 18 path forms (wallet only, short-before-long alternation, lazy quantifier, trailing slash, literal, regex, alternation, anchored, unknown, empty, leading slash, invalid regex, wrong case); 3 clients; before creating, after creating, and after creating a second time a plain account through generation and a distributed account through import+AddAccount (the DKG commit path), every listing repeated in each of the three phases; through the real gRPC lister handler, with another client's listing served between the lister's return and the handler's read; oracle: returned set is a subset of (requested wallets and permitted), a superset of (permitted and whole-matching a requested path), names and keys equal the store's; distinct = (size of must set, size of returned set) classes",
		"samples":                    samples.List(),
		"exhaustive":                 true,
		"cells":                      cells,
		"accounts_returned":          returned,
		"classes":                    classes,
		"path_lists":                 len(lists),
	}
	run.Assumptions = []string{"names and patterns outside the alphabets behave like their representatives"}
	_ = e2types.InitBLS
	return run.Finish()
}

func init() {
	Replayers["C18"] = func(raw json.RawMessage) int {
		var rp struct {
			Concurrent *c18ConcScenario `json:"concurrent"`
			Choices    []int            `json:"choices"`
			PerG       bool             `json:"goroutine_mode"`
		}
		if err := json.Unmarshal(raw, &rp); err == nil && rp.Concurrent != nil {
			return c18ReplayConcurrent(*rp.Concurrent, rp.Choices, rp.PerG)
		}
		return C18("quick")
	}
	Registry["C18"] = C18
}
