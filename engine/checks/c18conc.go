//go:build verifsched

package checks

import (
	"context"
	"fmt"
	"runtime"
	"sort"
	"strings"
	"time"

	"verif/ev"
	"verif/rig"
	"verif/sched"

	memfetcher "github.com/attestantio/dirk/services/fetcher/mem"
	nd "github.com/wealdtech/go-eth2-wallet-nd/v2"
	scratch "github.com/wealdtech/go-eth2-wallet-store-scratch"
	e2wtypes "github.com/wealdtech/go-eth2-wallet-types/v2"
)

// c18ConcScenario: accounts created through Dirk at the same time (the last step of a creation hands the new account to
// the in-memory fetcher), beside a listing of the wallet. Accounts is the number of creating threads; Existing says
// whether the wallet already held an account when the instance started.
type c18ConcScenario struct {
	Name     string `json:"name"`
	Accounts int    `json:"accounts"`
	Existing bool   `json:"existing"`
	Lister   bool   `json:"lister"`
}

func c18ConcScenarios() []c18ConcScenario {
	return []c18ConcScenario{
		{"two creations into a wallet that was empty at start-up", 2, false, false},
		{"two creations into a wallet that was empty at start-up || listing", 2, false, true},
		{"three creations into a wallet that was empty at start-up", 3, false, false},
		{"two creations into a wallet with an account || listing", 2, true, true},
	}
}

func c18ConcScenarioFn(scn c18ConcScenario, class *string) sched.Scenario {
	serial := 0
	return func() ([]func(s *sched.Sched), func(x *sched.Exec) []sched.Finding) {
		serial++
		ctx := context.Background()
		store := scratch.New()
		enc := rig.PlainEncryptor{}
		w, err := nd.CreateWallet(ctx, "Fresh", store, enc)
		if err != nil {
			panic(err)
		}
		if err := w.(e2wtypes.WalletLocker).Unlock(ctx, nil); err != nil {
			panic(err)
		}
		mk := func(name string) e2wtypes.Account {
			a, err := w.(e2wtypes.WalletAccountImporter).ImportAccount(ctx, name, rig.NewKey().Marshal(), []byte("pass"))
			if err != nil {
				panic(err)
			}
			return a
		}
		var want []string
		if scn.Existing {
			mk("existing")
			want = append(want, "existing")
		}
		f, err := memfetcher.New(ctx, memfetcher.WithStores([]e2wtypes.Store{store}), memfetcher.WithEncryptor(enc))
		if err != nil {
			panic(err)
		}
		fw, err := f.FetchWallet(ctx, "Fresh")
		if err != nil {
			panic(err)
		}
		accts := make([]e2wtypes.Account, scn.Accounts)
		for i := range accts {
			accts[i] = mk(fmt.Sprintf("created-%c", 'A'+i))
			want = append(want, accts[i].Name())
		}
		oks := make([]bool, scn.Accounts)
		var bodies []func(s *sched.Sched)
		for i := range accts {
			i := i
			bodies = append(bodies, func(_ *sched.Sched) {
				oks[i] = f.AddAccount(ctx, fw, accts[i]) == nil
			})
		}
		var seenDuring []string
		if scn.Lister {
			bodies = append(bodies, func(_ *sched.Sched) {
				if m, err := f.FetchAccounts(ctx, "Fresh"); err == nil {
					for n := range m {
						seenDuring = append(seenDuring, n)
					}
				}
			})
		}
		check := func(x *sched.Exec) []sched.Finding {
			var fs []sched.Finding
			if x.Deadlock || x.Stuck {
				return []sched.Finding{{Key: "c18-concurrent-deadlock:" + scn.Name, What: fmt.Sprintf("%s: the requests wait on each other forever: %s", scn.Name, strings.Join(x.Blocked, "; "))}}
			}
			for id, p := range x.Panics {
				fs = append(fs, sched.Finding{Key: "c18-concurrent-panic:" + scn.Name, What: fmt.Sprintf("%s: thread %d panicked: %s", scn.Name, id, p)})
			}
			for _, m := range x.Misuse {
				fs = append(fs, sched.Finding{Key: "c18-concurrent-misuse:" + scn.Name, What: fmt.Sprintf("%s: the instance would end with 'fatal error: sync: %s'", scn.Name, m)})
			}
			if len(fs) > 0 || x.Uncontrolled {
				return fs
			}
			got, err := f.FetchAccounts(ctx, "Fresh")
			if err != nil {
				return []sched.Finding{{Key: "c18-concurrent-fetch:" + scn.Name, What: fmt.Sprintf("%s: the wallet's accounts cannot be fetched afterwards: %v", scn.Name, err)}}
			}
			var missing []string
			for i, n := range want {
				created := i - (len(want) - scn.Accounts)
				if created >= 0 && !oks[created] {
					continue
				}
				if _, ok := got[n]; !ok {
					missing = append(missing, n)
				}
			}
			sort.Strings(missing)
			if class != nil {
				*class = fmt.Sprintf("%v listed=%d", oks, len(got))
			}
			if len(missing) > 0 {
				fs = append(fs, sched.Finding{Key: "c18-concurrent-lost:" + scn.Name, What: fmt.Sprintf("%s: every creation reported success, but afterwards a listing of the wallet lacks %v (it returns %d accounts)", scn.Name, missing, len(got))})
			}
			return fs
		}
		return bodies, check
	}
}

// c18Concurrent explores every interleaving (at the granularity of the fetcher's lock) of the scenarios.
func c18Concurrent(run *ev.Run, deadline time.Time) (map[string]any, error) {
	old := runtime.GOMAXPROCS(1)
	defer runtime.GOMAXPROCS(old)
	rig.Init()
	per := map[string]any{}
	execsTotal, allDone := 0, 0
	for _, scn := range c18ConcScenarios() {
		var class string
		mk := c18ConcScenarioFn(scn, &class)
		d := time.Now().Add(60 * time.Second)
		if d.After(deadline) {
			d = deadline
		}
		st, viols, err := sched.ExploreAll(mk, d, func(x *sched.Exec) string { return class })
		if err != nil {
			return nil, fmt.Errorf("scenario %s: %w", scn.Name, err)
		}
		for _, v := range viols {
			run.Violate(v.Key, v.What, map[string]any{"check": "C18", "concurrent": scn, "choices": v.Choices, "schedule": v.Schedule, "goroutine_mode": v.PerG})
		}
		var outs []string
		for o, n := range st.Outcomes {
			outs = append(outs, fmt.Sprintf("%dx %s", n, o))
		}
		sort.Strings(outs)
		per[scn.Name] = map[string]any{"executions": st.Executions, "all_interleavings": st.AllInterleavings, "max_preemptions": st.MaxPreemptions, "max_points": st.MaxPoints, "outcomes": outs, "goroutine_mode": st.GoroutineMode}
		execsTotal += st.Executions
		if st.AllInterleavings {
			allDone++
		}
	}
	return map[string]any{"scenarios": len(per), "scenarios_with_all_interleavings_explored": allDone, "executions": execsTotal, "per_scenario": per,
		"rule": "two or three accounts are handed to the in-memory fetcher at the same time (the last step of a creation through Dirk), into a wallet that held no or one account at start-up, with or without a listing beside them; every interleaving at the granularity of the fetcher's lock (sync.RWMutex routed through the scheduler's shim); afterwards a listing of the wallet returns every account whose creation reported success"}, nil
}

// c18ReplayConcurrent re-executes one recorded schedule.
func c18ReplayConcurrent(scn c18ConcScenario, choices []int, perG bool) int {
	old := runtime.GOMAXPROCS(1)
	defer runtime.GOMAXPROCS(old)
	rig.Init()
	xs, fs, err := sched.Replay(c18ConcScenarioFn(scn, nil), choices, 2, perG)
	if err != nil {
		fmt.Println(err)
		return 2
	}
	fmt.Printf("  schedule: %s\n", xs[0].Schedule())
	for _, f := range fs[0] {
		fmt.Printf("  VIOLATED: %s\n", f.What)
	}
	if len(fs[0]) > 0 {
		return 1
	}
	fmt.Println("  no violation on replay")
	return 0
}
