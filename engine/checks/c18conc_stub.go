//go:build !verifsched

package checks

import (
	"time"

	"verif/ev"
)

// c18Concurrent needs the scheduler build (bin/check builds C18 with it).
func c18Concurrent(_ *ev.Run, _ time.Time) (map[string]any, error) { return nil, nil }

type c18ConcScenario struct {
	Name     string `json:"name"`
	Accounts int    `json:"accounts"`
	Existing bool   `json:"existing"`
	Lister   bool   `json:"lister"`
}

func c18ReplayConcurrent(_ c18ConcScenario, _ []int, _ bool) int { return 2 }
