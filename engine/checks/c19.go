package checks

import (
	"context"
	"crypto/ecdsa"
	"crypto/elliptic"
	"crypto/rand"
	"crypto/sha256"
	"crypto/tls"
	"crypto/x509"
	"crypto/x509/pkix"
	"encoding/pem"
	"fmt"
	"google.golang.org/grpc/metadata"
	"math/big"
	"net"
	"os"
	"path/filepath"
	"sort"
	"strings"
	"syscall"
	"time"

	"verif/ev"
	"verif/rig"

	grpcapi "github.com/attestantio/dirk/services/api/grpc"
	"github.com/attestantio/dirk/services/checker"
	"github.com/attestantio/dirk/testing/resources"
	pb "github.com/wealdtech/eth2-signer-api/pb/v1"
	"google.golang.org/grpc"
	"google.golang.org/grpc/credentials"
	"google.golang.org/grpc/credentials/insecure"
	"google.golang.org/protobuf/proto"
)

type c19Cred struct {
	Name   string
	Valid  bool   // presents a certificate issued by the configured authority
	CN     string // identity for permission decisions
	IsPeer bool
	Dial   func(addr string, localPort int) (*grpc.ClientConn, error)
}

// c19Dialer connects from the given local port (0 = any). The socket is closed with a reset so that the same source
// address can be used again at once.
func c19Dialer(localPort int) grpc.DialOption {
	return grpc.WithContextDialer(func(ctx context.Context, addr string) (net.Conn, error) {
		d := &net.Dialer{Control: func(_, _ string, c syscall.RawConn) error {
			var serr error
			if err := c.Control(func(fd uintptr) {
				serr = syscall.SetsockoptInt(int(fd), syscall.SOL_SOCKET, syscall.SO_REUSEADDR, 1)
			}); err != nil {
				return err
			}
			return serr
		}}
		if localPort != 0 {
			d.LocalAddr = &net.TCPAddr{IP: net.IPv4(127, 0, 0, 1), Port: localPort}
		}
		conn, err := d.DialContext(ctx, "tcp", addr)
		if err != nil {
			return nil, err
		}
		if localPort != 0 {
			if err := conn.(*net.TCPConn).SetLinger(0); err != nil {
				return nil, err
			}
		}
		return conn, nil
	})
}

func mintCert(cn string, ca *x509.Certificate, caKey *ecdsa.PrivateKey) (tls.Certificate, *x509.Certificate, *ecdsa.PrivateKey, error) {
	key, err := ecdsa.GenerateKey(elliptic.P256(), rand.Reader)
	if err != nil {
		return tls.Certificate{}, nil, nil, err
	}
	tmpl := &x509.Certificate{
		SerialNumber: big.NewInt(time.Now().UnixNano()),
		Subject:      pkix.Name{CommonName: cn},
		NotBefore:    time.Now().Add(-time.Hour),
		NotAfter:     time.Now().Add(24 * time.Hour),
		KeyUsage:     x509.KeyUsageDigitalSignature | x509.KeyUsageCertSign,
		ExtKeyUsage:  []x509.ExtKeyUsage{x509.ExtKeyUsageClientAuth, x509.ExtKeyUsageServerAuth},
		IsCA:         ca == nil, BasicConstraintsValid: true,
		DNSNames: []string{cn},
	}
	parent, signKey := tmpl, key
	if ca != nil {
		parent, signKey = ca, caKey
	}
	der, err := x509.CreateCertificate(rand.Reader, tmpl, parent, &key.PublicKey, signKey)
	if err != nil {
		return tls.Certificate{}, nil, nil, err
	}
	cert, err := x509.ParseCertificate(der)
	if err != nil {
		return tls.Certificate{}, nil, nil, err
	}
	kb, _ := x509.MarshalECPrivateKey(key)
	tc, err := tls.X509KeyPair(pem.EncodeToMemory(&pem.Block{Type: "CERTIFICATE", Bytes: der}), pem.EncodeToMemory(&pem.Block{Type: "EC PRIVATE KEY", Bytes: kb}))
	return tc, cert, key, err
}

func c19Creds() ([]c19Cred, error) {
	pool := x509.NewCertPool()
	pool.AppendCertsFromPEM(resources.CACrt)
	// claimHeaders: request metadata by which TLS-terminating proxies conventionally pass on a client's identity. Dirk
	// terminates TLS itself: whatever a caller writes there is the caller's own claim.
	claim := func(ctx context.Context, method string, req, reply any, cc *grpc.ClientConn, invoker grpc.UnaryInvoker, opts ...grpc.CallOption) error {
		for _, h := range []string{"x-ssl-client-cn", "x-ssl-client-s-dn", "x-ssl-client-dn", "ssl-client-s-dn", "ssl-client-subject-dn", "x-client-cn", "x-client-dn", "x-client-cert", "x-forwarded-client-cert",
			"x-forwarded-user", "x-remote-user", "x-authenticated-user", "x-client-name", "client-name", "client", "x-forwarded-for", "x-real-ip", "forwarded", "authorization"} {
			v := "client-test01"
			switch h {
			case "x-ssl-client-s-dn", "x-ssl-client-dn", "ssl-client-s-dn", "ssl-client-subject-dn", "x-client-dn":
				v = "CN=client-test01"
			case "x-forwarded-client-cert":
				v = `Subject="CN=client-test01"`
			case "x-forwarded-for", "x-real-ip":
				v = "127.0.0.1"
			case "forwarded":
				v = "for=127.0.0.1"
			case "authorization":
				v = "Bearer client-test01"
			}
			ctx = metadata.AppendToOutgoingContext(ctx, h, v)
		}
		return invoker(ctx, method, req, reply, cc, opts...)
	}
	tlsDialClaiming := func(certs []tls.Certificate) func(string, int) (*grpc.ClientConn, error) {
		return func(addr string, localPort int) (*grpc.ClientConn, error) {
			cfg := &tls.Config{RootCAs: pool, ServerName: "signer-test01", MinVersion: tls.VersionTLS13, Certificates: certs}
			return grpc.NewClient("passthrough:///"+addr, grpc.WithTransportCredentials(credentials.NewTLS(cfg)), c19Dialer(localPort), grpc.WithUnaryInterceptor(claim))
		}
	}
	tlsDial := func(certs []tls.Certificate) func(string, int) (*grpc.ClientConn, error) {
		return func(addr string, localPort int) (*grpc.ClientConn, error) {
			cfg := &tls.Config{RootCAs: pool, ServerName: "signer-test01", MinVersion: tls.VersionTLS13}
			if len(certs) > 0 {
				// Present the certificate whatever authorities the server says it accepts (a hostile client would).
				c := certs[0]
				cfg.GetClientCertificate = func(*tls.CertificateRequestInfo) (*tls.Certificate, error) { return &c, nil }
			}
			return grpc.NewClient("passthrough:///"+addr, grpc.WithTransportCredentials(credentials.NewTLS(cfg)), c19Dialer(localPort))
		}
	}
	selfSigned, _, _, err := mintCert("client-test01", nil, nil)
	if err != nil {
		return nil, err
	}
	_, foreignCA, foreignKey, err := mintCert("Foreign authority", nil, nil)
	if err != nil {
		return nil, err
	}
	foreign, _, _, err := mintCert("client-test01", foreignCA, foreignKey)
	if err != nil {
		return nil, err
	}
	// The foreign chain presented together with its CA certificate.
	foreignWithChain := foreign
	foreignWithChain.Certificate = append(append([][]byte{}, foreign.Certificate...), foreignCA.Raw)
	valid := func(crt, key []byte) []tls.Certificate {
		c, err := tls.X509KeyPair(crt, key)
		if err != nil {
			panic(err)
		}
		return []tls.Certificate{c}
	}
	// A verified leaf followed by extra certificates the server never verifies (it only verifies the first one and
	// treats the rest as candidate intermediates): the identity must still be the verified leaf's subject.
	trailing := func(cn string, isCA bool) []tls.Certificate {
		base := valid(resources.ClientTest02Crt, resources.ClientTest02Key)[0]
		junk, jc, _, err := mintCert(cn, nil, nil)
		if err != nil {
			panic(err)
		}
		_ = junk
		raw := jc.Raw
		if !isCA {
			// re-mint as a non-CA self-signed certificate
			key, _ := ecdsa.GenerateKey(elliptic.P256(), rand.Reader)
			tmpl := &x509.Certificate{SerialNumber: big.NewInt(time.Now().UnixNano()), Subject: pkix.Name{CommonName: cn}, NotBefore: time.Now().Add(-time.Hour), NotAfter: time.Now().Add(24 * time.Hour),
				KeyUsage: x509.KeyUsageDigitalSignature, ExtKeyUsage: []x509.ExtKeyUsage{x509.ExtKeyUsageClientAuth}, BasicConstraintsValid: true}
			der, err := x509.CreateCertificate(rand.Reader, tmpl, tmpl, &key.PublicKey, key)
			if err != nil {
				panic(err)
			}
			raw = der
		}
		c := base
		c.Certificate = append(append([][]byte{}, base.Certificate...), raw)
		return []tls.Certificate{c}
	}
	var forged []c19Cred
	for _, guess := range c19TicketKeyGuesses {
		forged = append(forged, c19Cred{Name: "a session ticket minted by the caller's own endpoint under a guessable ticket key (" + guess + ") for a session with a certificate from another authority CN=client-test01",
			Dial: c19ForgedTicketDial(foreign, foreignCA, foreignKey, guess)})
	}
	// Certificates of the caller's own making whose validity period is not now: lapsed an hour ago, lapsed three days
	// ago, beginning in an hour (verification code of one's own meets the validity check before the chain check).
	for _, w := range []struct {
		name      string
		from, to  time.Duration
		foreignCA bool
	}{
		{"self-signed certificate CN=client-test01 that lapsed an hour ago", -48 * time.Hour, -time.Hour, false},
		{"self-signed certificate CN=client-test01 that lapsed three days ago", -30 * 24 * time.Hour, -72 * time.Hour, false},
		{"self-signed certificate CN=client-test01 that becomes valid in an hour", time.Hour, 48 * time.Hour, false},
		{"certificate from another authority CN=client-test01 that lapsed an hour ago", -48 * time.Hour, -time.Hour, true},
	} {
		o := c19MintOpts{Subject: pkix.Name{CommonName: "client-test01"}, DNS: []string{"client-test01"}, NotBefore: time.Now().Add(w.from), NotAfter: time.Now().Add(w.to)}
		if w.foreignCA {
			o.Parent, o.SignKey = foreignCA, foreignKey
		}
		_, _, crt, key, err := c19Mint(o)
		if err != nil {
			return nil, err
		}
		tc, err := tls.X509KeyPair(crt, key)
		if err != nil {
			return nil, err
		}
		forged = append(forged, c19Cred{Name: w.name, Dial: tlsDial([]tls.Certificate{tc})})
	}
	return append(forged, []c19Cred{
		{Name: "valid client-test02 followed by an unverified non-CA certificate CN=client-test01", Valid: true, CN: "client-test02", Dial: tlsDial(trailing("client-test01", false))},
		{Name: "valid client-test02 followed by an unverified CA-flagged certificate CN=client-test01", Valid: true, CN: "client-test02", Dial: tlsDial(trailing("client-test01", true))},
		{Name: "valid client-test02 followed by an unverified certificate CN=signer-test02", Valid: true, CN: "client-test02", Dial: tlsDial(trailing("signer-test02", false))},
		{Name: "plaintext (no TLS)", Dial: func(addr string, localPort int) (*grpc.ClientConn, error) {
			return grpc.NewClient("passthrough:///"+addr, grpc.WithTransportCredentials(insecure.NewCredentials()), c19Dialer(localPort))
		}},
		{Name: "TLS without client certificate", Dial: tlsDial(nil)},
		{Name: "self-signed certificate CN=client-test01", Dial: tlsDial([]tls.Certificate{selfSigned})},
		{Name: "certificate from another authority CN=client-test01", Dial: tlsDial([]tls.Certificate{foreign})},
		{Name: "certificate from another authority with its CA in the chain", Dial: tlsDial([]tls.Certificate{foreignWithChain})},
		{Name: "valid client-test02 whose requests carry the identity headers of TLS-terminating proxies, naming client-test01", Valid: true, CN: "client-test02", Dial: tlsDialClaiming(valid(resources.ClientTest02Crt, resources.ClientTest02Key))},
		{Name: "valid client-test01", Valid: true, CN: "client-test01", Dial: tlsDial(valid(resources.ClientTest01Crt, resources.ClientTest01Key))},
		{Name: "valid client-test02", Valid: true, CN: "client-test02", Dial: tlsDial(valid(resources.ClientTest02Crt, resources.ClientTest02Key))},
		{Name: "valid client-test03", Valid: true, CN: "client-test03", Dial: tlsDial(valid(resources.ClientTest03Crt, resources.ClientTest03Key))},
		{Name: "valid signer-test02 (a peer)", Valid: true, CN: "signer-test02", IsPeer: true, Dial: tlsDial(valid(resources.SignerTest02Crt, resources.SignerTest02Key))},
	}...), nil
}

// c19TicketKeyGuesses: session-ticket keys anybody can compute. A server whose ticket key is one of them accepts tickets
// that it never issued, and a resumed session carries whatever client certificate the ticket says.
var c19TicketKeyGuesses = []string{"all zero", "sha256 of the server's certificate", "sha256 of the authority's certificate", "sha256 of the server's name", "sha256 of the server's public key"}

// c19ForgedTicketDial: the caller looks at the certificate the server shows to anybody, runs a TLS endpoint of its own
// whose session-ticket key is the guess, obtains from it a ticket for a session in which it presented the impostor
// certificate, and offers that ticket to the server. (If the ticket is not accepted the handshake falls back to a full one
// with the impostor certificate.)
func c19ForgedTicketDial(impostor tls.Certificate, otherCA *x509.Certificate, otherKey *ecdsa.PrivateKey, guess string) func(string, int) (*grpc.ClientConn, error) {
	return func(addr string, localPort int) (*grpc.ClientConn, error) {
		var leaf *x509.Certificate
		probe, err := tls.Dial("tcp", addr, &tls.Config{InsecureSkipVerify: true, MinVersion: tls.VersionTLS13, VerifyConnection: func(cs tls.ConnectionState) error {
			if len(cs.PeerCertificates) > 0 {
				leaf = cs.PeerCertificates[0]
			}
			return nil
		}})
		if err == nil {
			probe.Close()
		}
		if leaf == nil {
			return nil, fmt.Errorf("cannot see the server's certificate: %v", err)
		}
		var key [32]byte
		switch guess {
		case "all zero":
		case "sha256 of the server's certificate":
			key = sha256.Sum256(leaf.Raw)
		case "sha256 of the authority's certificate":
			if b, _ := pem.Decode(resources.CACrt); b != nil {
				key = sha256.Sum256(b.Bytes)
			}
		case "sha256 of the server's name":
			key = sha256.Sum256([]byte("signer-test01"))
		case "sha256 of the server's public key":
			key = sha256.Sum256(leaf.RawSubjectPublicKeyInfo)
		}
		ownCert, _, _, err := mintCert("signer-test01", otherCA, otherKey)
		if err != nil {
			return nil, err
		}
		// The endpoint verifies the impostor against the caller's own authority: a ticket for a session without verified
		// chains would not be resumed by a server that verifies client certificates.
		ownPool := x509.NewCertPool()
		ownPool.AddCert(otherCA)
		own := &tls.Config{Certificates: []tls.Certificate{ownCert}, ClientAuth: tls.RequireAndVerifyClientCert, ClientCAs: ownPool, MinVersion: tls.VersionTLS13, NextProtos: []string{"h2"}}
		own.SetSessionTicketKeys([][32]byte{key})
		l, err := tls.Listen("tcp", "127.0.0.1:0", own)
		if err != nil {
			return nil, err
		}
		defer l.Close()
		go func() {
			c, err := l.Accept()
			if err != nil {
				return
			}
			defer c.Close()
			if c.(*tls.Conn).Handshake() == nil {
				_, _ = c.Write([]byte{0}) // something to read, so that the other side processes the ticket
			}
		}()
		cache := tls.NewLRUClientSessionCache(4)
		cfg := &tls.Config{ServerName: "signer-test01", InsecureSkipVerify: true, Certificates: []tls.Certificate{impostor}, ClientSessionCache: cache, MinVersion: tls.VersionTLS13, NextProtos: []string{"h2"}}
		oc, err := tls.Dial("tcp", l.Addr().String(), cfg)
		if err != nil {
			return nil, fmt.Errorf("own endpoint: %w", err)
		}
		_, _ = oc.Read(make([]byte, 1))
		oc.Close()
		if _, ok := cache.Get("signer-test01"); !ok {
			return nil, fmt.Errorf("the caller's own endpoint issued no session ticket")
		}
		return grpc.NewClient("passthrough:///"+addr, grpc.WithTransportCredentials(credentials.NewTLS(cfg)), c19Dialer(localPort))
	}
}

// c19Mint issues a certificate; parent == nil makes it self-signed.
type c19MintOpts struct {
	Subject  pkix.Name
	DNS      []string
	IsCA     bool
	Parent   *x509.Certificate
	SignKey  *ecdsa.PrivateKey
	NotAfter time.Time
	// NotBefore (optional) with NotAfter: the validity period.
	NotBefore time.Time
}

func c19Mint(o c19MintOpts) (*x509.Certificate, *ecdsa.PrivateKey, []byte, []byte, error) {
	key, err := ecdsa.GenerateKey(elliptic.P256(), rand.Reader)
	if err != nil {
		return nil, nil, nil, nil, err
	}
	tmpl := &x509.Certificate{
		SerialNumber: big.NewInt(time.Now().UnixNano()),
		Subject:      o.Subject,
		NotBefore:    time.Now().Add(-time.Hour),
		NotAfter:     time.Now().Add(24 * time.Hour),
		KeyUsage:     x509.KeyUsageDigitalSignature,
		ExtKeyUsage:  []x509.ExtKeyUsage{x509.ExtKeyUsageClientAuth, x509.ExtKeyUsageServerAuth},
		IsCA:         o.IsCA, BasicConstraintsValid: true,
		DNSNames: o.DNS,
	}
	if o.IsCA {
		tmpl.KeyUsage |= x509.KeyUsageCertSign
	}
	if !o.NotBefore.IsZero() {
		tmpl.NotBefore = o.NotBefore
	}
	if !o.NotAfter.IsZero() {
		tmpl.NotAfter = o.NotAfter
	}
	parent, signKey := tmpl, key
	if o.Parent != nil {
		parent, signKey = o.Parent, o.SignKey
	}
	der, err := x509.CreateCertificate(rand.Reader, tmpl, parent, &key.PublicKey, signKey)
	if err != nil {
		return nil, nil, nil, nil, err
	}
	cert, err := x509.ParseCertificate(der)
	if err != nil {
		return nil, nil, nil, nil, err
	}
	kb, _ := x509.MarshalECPrivateKey(key)
	return cert, key, pem.EncodeToMemory(&pem.Block{Type: "CERTIFICATE", Bytes: der}), pem.EncodeToMemory(&pem.Block{Type: "EC PRIVATE KEY", Bytes: kb}), nil
}

// c19OwnAuthority builds a certificate authority of the harness's own, a server certificate under it and callers whose
// certificates only someone holding the authority's key can make: names split over subject fields, chains through
// intermediates, and near misses of "issued by the configured authority".
func c19OwnAuthority() (caPEM, srvCrt, srvKey []byte, creds []c19Cred, err error) {
	fail := func(e error) ([]byte, []byte, []byte, []c19Cred, error) { return nil, nil, nil, nil, e }
	ca, caKey, caPEM, _, err := c19Mint(c19MintOpts{Subject: pkix.Name{CommonName: "Harness authority"}, IsCA: true})
	if err != nil {
		return fail(err)
	}
	// The server's certificate comes from an authority of its own, through an intermediate that is part of the server's
	// certificate bundle: neither is the authority configured for callers.
	srvRoot, srvRootKey, _, _, err := c19Mint(c19MintOpts{Subject: pkix.Name{CommonName: "Server authority"}, IsCA: true})
	if err != nil {
		return fail(err)
	}
	srvInter, srvInterKey, srvInterPEM, _, err := c19Mint(c19MintOpts{Subject: pkix.Name{CommonName: "Server intermediate"}, IsCA: true, Parent: srvRoot, SignKey: srvRootKey})
	if err != nil {
		return fail(err)
	}
	srvCert, srvPriv, srvLeafPEM, srvKey, err := c19Mint(c19MintOpts{Subject: pkix.Name{CommonName: "signer-test01"}, DNS: []string{"signer-test01"}, Parent: srvInter, SignKey: srvInterKey})
	if err != nil {
		return fail(err)
	}
	srvCrt = append(append([]byte{}, srvLeafPEM...), srvInterPEM...)
	pool := x509.NewCertPool()
	pool.AddCert(ca)
	pool.AddCert(srvRoot)
	dial := func(chain [][]byte, key *ecdsa.PrivateKey) func(string, int) (*grpc.ClientConn, error) {
		return func(addr string, localPort int) (*grpc.ClientConn, error) {
			c := tls.Certificate{Certificate: chain, PrivateKey: key}
			cfg := &tls.Config{RootCAs: pool, ServerName: "signer-test01", MinVersion: tls.VersionTLS13,
				GetClientCertificate: func(*tls.CertificateRequestInfo) (*tls.Certificate, error) { return &c, nil }}
			return grpc.NewClient("passthrough:///"+addr, grpc.WithTransportCredentials(credentials.NewTLS(cfg)), c19Dialer(localPort))
		}
	}
	add := func(name string, valid bool, cn string, isPeer bool, subject pkix.Name, dns []string, parent *x509.Certificate, signKey *ecdsa.PrivateKey, extraChain ...[]byte) error {
		cert, key, _, _, err := c19Mint(c19MintOpts{Subject: subject, DNS: dns, Parent: parent, SignKey: signKey})
		if err != nil {
			return err
		}
		creds = append(creds, c19Cred{Name: name, Valid: valid, CN: cn, IsPeer: isPeer, Dial: dial(append([][]byte{cert.Raw}, extraChain...), key)})
		return nil
	}
	cn := func(n string) pkix.Name { return pkix.Name{CommonName: n} }
	interClient, interClientKey, _, _, err := c19Mint(c19MintOpts{Subject: cn("client-test01"), IsCA: true, Parent: ca, SignKey: caKey})
	if err != nil {
		return fail(err)
	}
	interPeer, interPeerKey, _, _, err := c19Mint(c19MintOpts{Subject: cn("signer-test02"), IsCA: true, Parent: ca, SignKey: caKey})
	if err != nil {
		return fail(err)
	}
	lookalike, lookalikeKey, _, _, err := c19Mint(c19MintOpts{Subject: cn("Harness authority"), IsCA: true})
	if err != nil {
		return fail(err)
	}
	for _, e := range []error{
		add("own authority: client-test01", true, "client-test01", false, cn("client-test01"), []string{"client-test01"}, ca, caKey),
		add("own authority: client-test02", true, "client-test02", false, cn("client-test02"), []string{"client-test02"}, ca, caKey),
		add("own authority: signer-test02 (a peer)", true, "signer-test02", true, cn("signer-test02"), []string{"signer-test02"}, ca, caKey),
		// Names that differ from a permitted client's or a peer's only in the case of their letters are other names.
		add("own authority: Client-Test01 (a permitted client's name in another case)", true, "Client-Test01", false, cn("Client-Test01"), nil, ca, caKey),
		add("own authority: SIGNER-TEST02 (a peer's name in another case)", true, "SIGNER-TEST02", false, cn("SIGNER-TEST02"), nil, ca, caKey),
		add("own authority: client-test01 followed by a space", true, "client-test01 ", false, cn("client-test01 "), nil, ca, caKey),
		add("own authority: subject CN=client-test02 with DNS name client-test01", true, "client-test02", false, cn("client-test02"), []string{"client-test01"}, ca, caKey),
		add("own authority: subject CN=client-test02 with DNS name signer-test02", true, "client-test02", false, cn("client-test02"), []string{"signer-test02"}, ca, caKey),
		add("own authority: empty subject CN with DNS name client-test01", true, "", false, pkix.Name{Organization: []string{"x"}}, []string{"client-test01"}, ca, caKey),
		add("own authority: subject CN=client-test02, O=OU=client-test01", true, "client-test02", false, pkix.Name{CommonName: "client-test02", Organization: []string{"client-test01"}, OrganizationalUnit: []string{"client-test01"}}, nil, ca, caKey),
		add("own authority: client-test02 issued through an intermediate named client-test01", true, "client-test02", false, cn("client-test02"), nil, interClient, interClientKey, interClient.Raw),
		add("own authority: client-test02 issued through an intermediate named signer-test02", true, "client-test02", false, cn("client-test02"), nil, interPeer, interPeerKey, interPeer.Raw),
		add("own authority: client-test02 through an intermediate, with the authority's certificate appended", true, "client-test02", false, cn("client-test02"), nil, interClient, interClientKey, interClient.Raw, ca.Raw),
		add("client-test01 issued by the server's own certificate", false, "", false, cn("client-test01"), nil, srvCert, srvPriv, srvCert.Raw),
		add("client-test01 issued by the intermediate of the server's certificate bundle", false, "", false, cn("client-test01"), nil, srvInter, srvInterKey),
		add("client-test01 issued by that intermediate, presented with it", false, "", false, cn("client-test01"), nil, srvInter, srvInterKey, srvInter.Raw),
		add("signer-test02 issued by the authority of the server's certificate", false, "", false, cn("signer-test02"), nil, srvRoot, srvRootKey, srvRoot.Raw),
		add("client-test01 issued by an authority with the configured authority's name but another key", false, "", false, cn("client-test01"), nil, lookalike, lookalikeKey),
		add("client-test01 issued by that look-alike authority, its certificate appended", false, "", false, cn("client-test01"), nil, lookalike, lookalikeKey, lookalike.Raw),
		add("self-signed client-test01 followed by the configured authority's certificate", false, "", false, cn("client-test01"), nil, nil, nil, ca.Raw),
	} {
		if e != nil {
			return fail(e)
		}
	}
	return caPEM, srvCrt, srvKey, creds, nil
}

// c19Reply is what one call yielded.
type c19Reply struct {
	Err       string
	Signature bool
	Accounts  int
	KeyGen    bool
	State     string
	Accepted  bool // the procedure acted (DKG: no error)
}

type c19Method struct {
	Name string
	Op   string // permission operation (client-facing methods)
	Call func(ctx context.Context, cc *grpc.ClientConn, wallet string, seq uint64) c19Reply
}

func c19Methods() []c19Method {
	gdom := func() []byte { d := make([]byte, 32); d[0] = 7; return d }
	errOf := func(err error) string {
		if err == nil {
			return ""
		}
		s := err.Error()
		if len(s) > 90 {
			s = s[:90]
		}
		return s
	}
	signRes := func(res *pb.SignResponse, err error) c19Reply {
		return c19Reply{Err: errOf(err), Signature: len(res.GetSignature()) > 0, State: res.GetState().String()}
	}
	multiRes := func(res *pb.MultisignResponse, err error) c19Reply {
		r := c19Reply{Err: errOf(err)}
		for _, x := range res.GetResponses() {
			if len(x.GetSignature()) > 0 {
				r.Signature = true
			}
			r.State += x.GetState().String() + " "
		}
		return r
	}
	att := func(w string, seq uint64) *pb.SignBeaconAttestationRequest {
		return mkAttReq(w+"/Account 0", nil, AttDomain(0), &pb.AttestationData{Slot: seq * 32, CommitteeIndex: 1, BeaconBlockRoot: pat(1),
			Source: &pb.Checkpoint{Epoch: seq, Root: pat(2)}, Target: &pb.Checkpoint{Epoch: seq + 1, Root: pat(3)}})
	}
	parts := []*pb.Endpoint{{Id: 1, Name: "signer-test01", Port: 1}, {Id: 2, Name: "signer-test02", Port: 2}}
	return []c19Method{
		{"Lister.ListAccounts", "Access account", func(ctx context.Context, cc *grpc.ClientConn, w string, _ uint64) c19Reply {
			res, err := pb.NewListerClient(cc).ListAccounts(ctx, &pb.ListAccountsRequest{Paths: []string{w}})
			return c19Reply{Err: errOf(err), Accounts: len(res.GetAccounts()) + len(res.GetDistributedAccounts()), State: res.GetState().String()}
		}},
		{"Signer.Sign", "Sign", func(ctx context.Context, cc *grpc.ClientConn, w string, seq uint64) c19Reply {
			return signRes(pb.NewSignerClient(cc).Sign(ctx, mkSignReq(w+"/Account 0", nil, pat(byte(seq)), gdom())))
		}},
		{"Signer.Multisign", "Sign", func(ctx context.Context, cc *grpc.ClientConn, w string, seq uint64) c19Reply {
			return multiRes(pb.NewSignerClient(cc).Multisign(ctx, &pb.MultisignRequest{Requests: []*pb.SignRequest{mkSignReq(w+"/Account 0", nil, pat(byte(seq)), gdom()), mkSignReq(w+"/Account 1", nil, pat(byte(seq)), gdom())}}))
		}},
		{"Signer.SignBeaconAttestation", "Sign beacon attestation", func(ctx context.Context, cc *grpc.ClientConn, w string, seq uint64) c19Reply {
			return signRes(pb.NewSignerClient(cc).SignBeaconAttestation(ctx, att(w, seq)))
		}},
		{"Signer.SignBeaconAttestations", "Sign beacon attestation", func(ctx context.Context, cc *grpc.ClientConn, w string, seq uint64) c19Reply {
			a := att(w, seq)
			b := mkAttReq(w+"/Account 1", nil, AttDomain(0), a.GetData())
			return multiRes(pb.NewSignerClient(cc).SignBeaconAttestations(ctx, &pb.SignBeaconAttestationsRequest{Requests: []*pb.SignBeaconAttestationRequest{a, b}}))
		}},
		{"Signer.SignBeaconProposal", "Sign beacon proposal", func(ctx context.Context, cc *grpc.ClientConn, w string, seq uint64) c19Reply {
			return signRes(pb.NewSignerClient(cc).SignBeaconProposal(ctx, mkPropReq(w+"/Account 0", nil, PropDomain(0), &pb.BeaconBlockHeader{Slot: seq, ProposerIndex: 1, ParentRoot: pat(1), StateRoot: pat(2), BodyRoot: pat(3)})))
		}},
		{"AccountManager.Unlock", "Unlock account", func(ctx context.Context, cc *grpc.ClientConn, w string, _ uint64) c19Reply {
			res, err := pb.NewAccountManagerClient(cc).Unlock(ctx, &pb.UnlockAccountRequest{Account: w + "/Account 2", Passphrase: []byte("pass")})
			return c19Reply{Err: errOf(err), State: res.GetState().String(), Accepted: res.GetState() == pb.ResponseState_SUCCEEDED}
		}},
		{"AccountManager.Lock", "Lock account", func(ctx context.Context, cc *grpc.ClientConn, w string, _ uint64) c19Reply {
			res, err := pb.NewAccountManagerClient(cc).Lock(ctx, &pb.LockAccountRequest{Account: w + "/Account 2"})
			return c19Reply{Err: errOf(err), State: res.GetState().String(), Accepted: res.GetState() == pb.ResponseState_SUCCEEDED}
		}},
		{"AccountManager.Generate", "Create account", func(ctx context.Context, cc *grpc.ClientConn, w string, seq uint64) c19Reply {
			res, err := pb.NewAccountManagerClient(cc).Generate(ctx, &pb.GenerateRequest{Account: fmt.Sprintf("%s/Generated %d", w, seq), Passphrase: []byte("pass"), Participants: 1, SigningThreshold: 1})
			return c19Reply{Err: errOf(err), State: res.GetState().String(), KeyGen: len(res.GetPublicKey()) > 0}
		}},
		{"WalletManager.Unlock", "Unlock wallet", func(ctx context.Context, cc *grpc.ClientConn, w string, _ uint64) c19Reply {
			res, err := pb.NewWalletManagerClient(cc).Unlock(ctx, &pb.UnlockWalletRequest{Wallet: w, Passphrase: []byte("pass")})
			return c19Reply{Err: errOf(err), State: res.GetState().String(), Accepted: res.GetState() == pb.ResponseState_SUCCEEDED}
		}},
		{"WalletManager.Lock", "Lock wallet", func(ctx context.Context, cc *grpc.ClientConn, w string, _ uint64) c19Reply {
			res, err := pb.NewWalletManagerClient(cc).Lock(ctx, &pb.LockWalletRequest{Wallet: w})
			return c19Reply{Err: errOf(err), State: res.GetState().String(), Accepted: res.GetState() == pb.ResponseState_SUCCEEDED}
		}},
		{"DKG.Prepare", "", func(ctx context.Context, cc *grpc.ClientConn, _ string, seq uint64) c19Reply {
			_, err := pb.NewDKGClient(cc).Prepare(ctx, &pb.PrepareRequest{Account: fmt.Sprintf("Wallet 3/dkg %d", seq), Threshold: 2, Participants: parts, Passphrase: []byte("pass")})
			return c19Reply{Err: errOf(err), Accepted: err == nil}
		}},
		{"DKG.Execute", "", func(ctx context.Context, cc *grpc.ClientConn, _ string, seq uint64) c19Reply {
			_, err := pb.NewDKGClient(cc).Execute(ctx, &pb.ExecuteRequest{Account: fmt.Sprintf("Wallet 3/none %d", seq)})
			return c19Reply{Err: errOf(err), Accepted: err == nil}
		}},
		{"DKG.Commit", "", func(ctx context.Context, cc *grpc.ClientConn, _ string, seq uint64) c19Reply {
			res, err := pb.NewDKGClient(cc).Commit(ctx, &pb.CommitRequest{Account: fmt.Sprintf("Wallet 3/none %d", seq), ConfirmationData: pat(1)})
			return c19Reply{Err: errOf(err), Accepted: err == nil, KeyGen: len(res.GetPublicKey()) > 0}
		}},
		{"DKG.Abort", "", func(ctx context.Context, cc *grpc.ClientConn, _ string, seq uint64) c19Reply {
			_, err := pb.NewDKGClient(cc).Abort(ctx, &pb.AbortRequest{Account: fmt.Sprintf("Wallet 3/none %d", seq)})
			return c19Reply{Err: errOf(err), Accepted: err == nil}
		}},
		{"DKG.Contribute", "", func(ctx context.Context, cc *grpc.ClientConn, _ string, seq uint64) c19Reply {
			p := rig.NewPoly(2)
			sh := p.Share(1)
			res, err := pb.NewDKGClient(cc).Contribute(ctx, &pb.ContributeRequest{Account: fmt.Sprintf("Wallet 3/none %d", seq), Secret: sh.Serialize(), VerificationVector: [][]byte{p.VVec[0].Serialize(), p.VVec[1].Serialize()}})
			return c19Reply{Err: errOf(err), Accepted: err == nil, KeyGen: len(res.GetSecret()) > 0}
		}},
	}
}

var c19Table = map[string][]string{
	"client-test01": {"Wallet 1", "Wallet 3"},
	"client-test02": {"Wallet 2", "Wallet 3"},
	"client-test03": {"Wallet 1", "Wallet 2"},
}

func c19Permitted(cn, wallet string) bool {
	for _, w := range c19Table[cn] {
		if w == wallet {
			return true
		}
	}
	return false
}

func freePort() (int, error) {
	l, err := net.Listen("tcp", "127.0.0.1:0")
	if err != nil {
		return 0, err
	}
	defer l.Close()
	return l.Addr().(*net.TCPAddr).Port, nil
}

type c19Server struct {
	rig    *rig.SignerRig
	addr   string
	cancel context.CancelFunc
}

func newC19Server(caPEM, crtPEM, keyPEM []byte) (*c19Server, error) {
	perms := map[string][]*checker.Permissions{}
	for cn, ws := range c19Table {
		for _, w := range ws {
			perms[cn] = append(perms[cn], &checker.Permissions{Path: w, Operations: []string{"All"}})
		}
	}
	var lastErr error
	for attempt := 0; attempt < 3; attempt++ {
		port, err := freePort()
		if err != nil {
			return nil, err
		}
		r, err := rig.NewSignerRig(rig.SignerOpts{Wallets: []string{"Wallet 1", "Wallet 2"}, DistWallets: []string{"Wallet 3"}, Permissions: perms, Full: true,
			ProcessID: 1, PeersMap: map[uint64]string{1: fmt.Sprintf("signer-test01:%d", port), 2: "signer-test02:9"}})
		if err != nil {
			return nil, err
		}
		for _, w := range []string{"Wallet 1", "Wallet 2"} {
			for i := 0; i < 3; i++ {
				r.AddSymAccount(w, fmt.Sprintf("Account %d", i), "pass", true)
			}
		}
		ctx, cancel := context.WithCancel(context.Background())
		addr := fmt.Sprintf("127.0.0.1:%d", port)
		_, err = grpcapi.New(ctx,
			grpcapi.WithSigner(r.Signer), grpcapi.WithLister(r.Lister), grpcapi.WithProcess(r.Process),
			grpcapi.WithAccountManager(r.AcctMgr), grpcapi.WithWalletManager(r.WalletMgr), grpcapi.WithPeers(r.Peers),
			grpcapi.WithName("signer-test01"), grpcapi.WithID(1),
			grpcapi.WithServerCert(crtPEM), grpcapi.WithServerKey(keyPEM), grpcapi.WithCACert(caPEM),
			grpcapi.WithListenAddress(addr))
		if err != nil {
			cancel()
			r.Close()
			lastErr = err
			continue
		}
		return &c19Server{rig: r, addr: addr, cancel: cancel}, nil
	}
	return nil, fmt.Errorf("cannot start the API server: %w", lastErr)
}

func (s *c19Server) stateDigest() string {
	// Slashing-protection records of all accounts, lock state, account population.
	var l []string
	ctx := context.Background()
	for _, w := range []string{"Wallet 1", "Wallet 2", "Wallet 3"} {
		accts, err := s.rig.RealFetch.FetchAccounts(ctx, w)
		if err != nil {
			l = append(l, w+":no accounts")
			continue
		}
		var names []string
		for n := range accts {
			names = append(names, n)
		}
		sort.Strings(names)
		for _, n := range names {
			a := accts[n]
			pub := a.PublicKey().Marshal()
			_, as, at, _ := s.rig.AttRecord(pub)
			_, slot, _ := s.rig.PropRecord(pub)
			unl := "?"
			if lk, ok := a.(interface {
				IsUnlocked(context.Context) (bool, error)
			}); ok {
				u, _ := lk.IsUnlocked(ctx)
				unl = fmt.Sprint(u)
			}
			l = append(l, fmt.Sprintf("%s/%s:%d/%d/%d:unlocked=%s", w, n, as, at, slot, unl))
		}
	}
	for _, sess := range s.rig.RealProcess.VerifSessions() {
		l = append(l, "session:"+sess.Account)
	}
	return strings.Join(l, ";")
}

// C19 checks that nothing is served without a certificate from the configured authority.
func C19(tier string) int {
	run := ev.NewRun("C19", tier, "exploration")
	rig.Init()
	caPEM, crtPEM, keyPEM, ownCreds, err := c19OwnAuthority()
	if err != nil {
		run.HarnessErr = err
		return run.Finish()
	}
	trust := filepath.Join(rig.Scratch("c19trust"), "roots.pem")
	if err := os.WriteFile(trust, caPEM, 0o600); err != nil {
		run.HarnessErr = err
		return run.Finish()
	}
	defer os.RemoveAll(filepath.Dir(trust))
	os.Setenv("SSL_CERT_FILE", trust)
	os.Setenv("SSL_CERT_DIR", filepath.Dir(trust))
	srv, err := newC19Server(resources.CACrt, resources.SignerTest01Crt, resources.SignerTest01Key)
	if err != nil {
		run.HarnessErr = err
		return run.Finish()
	}
	defer func() { srv.cancel(); srv.rig.Close() }()
	creds, err := c19Creds()
	if err != nil {
		run.HarnessErr = err
		return run.Finish()
	}
	methods := c19Methods()
	cells := 0
	classes := map[string]int{}
	samples := ev.NewSamples(6)
	seq := uint64(10)
	wallets := []string{"Wallet 1", "Wallet 2"}
	if tier == "thorough" {
		wallets = append(wallets, "Wallet 3", "Unknown wallet")
	}
	// cell makes one call on an established connection and judges the reply by the credential the connection was made
	// with; history is the text describing what the same source address was used for before ("" = nothing).
	abort := fmt.Errorf("transport failure")
	cell := func(cr c19Cred, cc *grpc.ClientConn, m c19Method, w, history string) error {
		seq++
		before := srv.stateDigest()
		var rep c19Reply
		for attempt := 0; attempt < 3; attempt++ {
			ctx, cancel := context.WithTimeout(context.Background(), 20*time.Second)
			rep = m.Call(ctx, cc, w, seq)
			cancel()
			if !(cr.Valid && strings.Contains(rep.Err, "Unavailable")) {
				break
			}
			time.Sleep(200 * time.Millisecond)
		}
		after := srv.stateDigest()
		cells++
		rp := map[string]any{"check": "C19", "credential": cr.Name, "method": m.Name, "wallet": w}
		hk, ht := "", ""
		if history != "" {
			rp["same_source_address_used_before_by"] = history
			hk, ht = ":after:"+history, fmt.Sprintf(" (the connection comes from a source address that %s had used and closed before)", history)
		}
		yielded := rep.Signature || rep.Accounts > 0 || rep.KeyGen || rep.Accepted
		cls := fmt.Sprintf("%s|%s|yielded=%v|changed=%v", cr.Name, m.Name, yielded, before != after)
		if history != "" {
			cls += "|reused-address"
		}
		classes[cls]++
		if cells%23 == 1 {
			samples.Add(map[string]any{"credential": cr.Name, "method": m.Name, "wallet": w, "reply": rep, "history": history})
		}
		if !cr.Valid {
			if yielded {
				run.Violate(fmt.Sprintf("served-without-certificate:%s:%s%s", cr.Name, m.Name, hk),
					fmt.Sprintf("%s to a caller with %s yielded %+v%s", m.Name, cr.Name, rep, ht), rp)
			}
			if before != after {
				run.Violate(fmt.Sprintf("state-changed-without-certificate:%s:%s%s", cr.Name, m.Name, hk),
					fmt.Sprintf("%s from a caller with %s changed the instance's state%s", m.Name, cr.Name, ht), rp)
			}
			return nil
		}
		if strings.Contains(rep.Err, "Unavailable") || strings.Contains(rep.Err, "DeadlineExceeded") {
			run.HarnessErr = fmt.Errorf("transport failure for a valid credential (%s, %s%s): %s", cr.Name, m.Name, ht, rep.Err)
			return abort
		}
		// Valid certificates: the identity used is the subject name of the certificate.
		if m.Op != "" {
			permitted := !cr.IsPeer && c19Permitted(cr.CN, w)
			if yielded && !permitted {
				run.Violate(fmt.Sprintf("served-against-permissions:%s:%s:%s%s", cr.CN, m.Name, w, hk),
					fmt.Sprintf("%s on %s for certificate subject %s yielded %+v although that subject has no permission there%s", m.Name, w, cr.CN, rep, ht), rp)
			}
			if !yielded && before != after {
				run.Violate(fmt.Sprintf("refused-changed-state:%s:%s:%s%s", cr.CN, m.Name, w, hk), fmt.Sprintf("refused %s on %s for %s changed state%s", m.Name, w, cr.CN, ht), rp)
			}
			if permitted && !yielded && m.Name != "AccountManager.Unlock" && m.Name != "WalletManager.Lock" && m.Name != "WalletManager.Unlock" && w != "Unknown wallet" && w != "Wallet 3" {
				// Not demanded by the statement (which is one-directional); recorded for the vacuity report only.
				classes["valid-and-permitted-but-nothing-yielded:"+m.Name]++
			}
		} else {
			// Key-generation messages: only peers may speak them.
			if rep.Accepted && !cr.IsPeer {
				run.Violate(fmt.Sprintf("dkg-from-client:%s:%s%s", cr.CN, m.Name, hk), fmt.Sprintf("%s from certificate subject %s (a client, not a peer) was acted on%s", m.Name, cr.CN, ht), rp)
			}
			if cr.IsPeer && m.Name == "DKG.Prepare" && !rep.Accepted {
				classes["peer-prepare-refused"]++
			}
		}
		return nil
	}
	pairs := 0
	phases := func(creds []c19Cred, seqNames []string) bool {
		for _, cr := range creds {
			cc, err := cr.Dial(srv.addr, 0)
			if err != nil {
				run.HarnessErr = err
				return false
			}
			for _, m := range methods {
				for _, w := range wallets {
					if m.Op == "" && w != wallets[0] {
						continue
					}
					if cell(cr, cc, m, w, "") != nil {
						return false
					}
				}
			}
			cc.Close()
		}
		// Histories of two connections: a caller connects from a source address that another caller used before. Whatever
		// the server remembers about the first must not be applied to the second.
		pick := func(name string) c19Cred {
			for _, c := range creds {
				if c.Name == name {
					return c
				}
			}
			panic(name)
		}
		var seqCreds []c19Cred
		for _, n := range seqNames {
			seqCreds = append(seqCreds, pick(n))
		}
		var seqMethods []c19Method
		for _, m := range methods {
			switch m.Name {
			case "Lister.ListAccounts", "Signer.Sign", "Signer.SignBeaconAttestations", "DKG.Abort", "DKG.Prepare":
				seqMethods = append(seqMethods, m)
			}
		}
		firsts, seconds := seqCreds, seqCreds
		if tier == "thorough" {
			firsts, seconds, seqMethods = creds, creds, methods
		}
		for _, first := range firsts {
			if !first.Valid && tier != "thorough" {
				continue // an unauthenticated first caller leaves nothing to remember; explored in the thorough tier only
			}
			for _, second := range seconds {
				for _, warm := range []string{"Lister.ListAccounts", "DKG.Abort"} {
					port, err := freePort()
					if err != nil {
						run.HarnessErr = err
						return false
					}
					cc1, err := first.Dial(srv.addr, port)
					if err != nil {
						run.HarnessErr = err
						return false
					}
					for _, m := range methods {
						if m.Name == warm {
							if cell(first, cc1, m, "Wallet 1", "") != nil {
								return false
							}
						}
					}
					cc1.Close()
					var cc2 *grpc.ClientConn
					cc2, err = second.Dial(srv.addr, port)
					if err != nil {
						run.HarnessErr = err
						return false
					}
					for _, m := range seqMethods {
						for _, w := range wallets[:2] {
							if m.Op == "" && w != wallets[0] {
								continue
							}
							if cell(second, cc2, m, w, first.Name+" for "+warm) != nil {
								return false
							}
						}
					}
					cc2.Close()
					pairs++
				}
			}
		}
		return true
	}
	if !phases(creds, []string{"valid client-test01", "valid client-test02", "valid signer-test02 (a peer)",
		"TLS without client certificate", "self-signed certificate CN=client-test01", "plaintext (no TLS)"}) {
		return run.Finish()
	}
	// The same with an authority of the harness's own configured, which allows certificates the repository's fixed test
	// certificates cannot express.
	srv.cancel()
	srv.rig.Close()
	if srv, err = newC19Server(caPEM, crtPEM, keyPEM); err != nil {
		run.HarnessErr = err
		return run.Finish()
	}
	if !phases(ownCreds, []string{"own authority: client-test01", "own authority: signer-test02 (a peer)",
		"own authority: client-test02 issued through an intermediate named client-test01",
		"own authority: subject CN=client-test02 with DNS name signer-test02", "client-test01 issued by the server's own certificate"}) {
		return run.Finish()
	}
	// No authority configured at all: nobody holds "a certificate issued by the configured authority", whatever the
	// host's own trust store says. The harness's authority is made host-trusted (SSL_CERT_FILE, set before anything in
	// this process loaded the system roots), so a server that falls back to the system roots would serve its callers.
	srv.cancel()
	srv.rig.Close()
	if srv, err = newC19Server(nil, crtPEM, keyPEM); err != nil {
		run.HarnessErr = err
		return run.Finish()
	}
	var noAuth []c19Cred
	for _, c := range ownCreds {
		c.Name = "no authority configured, host trusts the issuer: " + strings.TrimPrefix(c.Name, "own authority: ")
		c.Valid, c.IsPeer, c.CN = false, false, ""
		noAuth = append(noAuth, c)
	}
	if !phases(noAuth, []string{noAuth[0].Name, noAuth[2].Name}) {
		return run.Finish()
	}
	ncreds := len(creds) + len(ownCreds) + len(noAuth)
	// After everything the unauthenticated callers tried, a valid client can still sign at an epoch they tried.
	run.Coverage = map[string]any{
		"evaluations":         cells,
		"distinct_nontrivial": len(classes),
		"rule":                "a real API server (services/api/grpc with the repository's CA and server certificate) on loopback TCP; every one of the 16 RPC methods of the 5 registered services x every credential kind (plaintext, TLS without client certificate, self-signed CN=client-test01, certificate from a freshly generated other authority with and without its CA in the chain, valid client-test01/02/03, valid signer-test02, valid leaf followed by unverified certificates; and, against a second server configured with an authority of the harness's own: names split over CN / DNS names / O / OU, empty CN, leaves issued through intermediates named like a permitted client or a peer, certificates issued by the server's own certificate, by the intermediate in the server's certificate bundle and by the root above it (the server's certificate comes from a different authority than the callers'), by a look-alike authority of the same name, and a self-signed leaf followed by the authority's certificate; and against a third server with no authority configured while the host's trust store (SSL_CERT_FILE) contains the harness's authority: every one of those callers must be refused) x wallets; unauthenticated kinds must yield no signature, account entry, key-generation reply or accepted protocol message and must not change the instance's state digest (all slashing records, lock states, account population, sessions); valid certificates are served according to the permissions of the certificate's subject name, clients cannot speak the key-generation protocol; then every ordered pair of callers (quick: three valid subjects incl. the peer as first, those and three unauthenticated kinds as second, five methods; thorough: every credential kind in both roles and every method) where the second connects from the very source address (ip:port) the first one used for a call and closed, judged as if the first had never existed; distinct = (credential, method, yielded, changed) classes",
		"samples":             samples.List(),
		"exhaustive":          true,
		"methods":             len(methods),
		"credentials":         ncreds,
		"address_reuse_pairs": pairs,
		"cells":               cells,
		"classes":             classes,
	}
	run.Assumptions = []string{"Go's crypto/tls and x509 verification are correct", "loopback TCP stands in for the network"}
	_ = proto.Marshal
	return run.Finish()
}

func init() {
	Registry["C19"] = C19
}
