package checks

import (
	"bufio"
	"context"
	"encoding/json"
	"fmt"
	"os"
	"os/exec"
	"runtime"
	"strings"
	"time"

	"verif/ev"
	"verif/rig"

	accountmanagerhandler "github.com/attestantio/dirk/services/api/grpc/handlers/accountmanager"
	listerhandler "github.com/attestantio/dirk/services/api/grpc/handlers/lister"
	signerhandler "github.com/attestantio/dirk/services/api/grpc/handlers/signer"
	walletmanagerhandler "github.com/attestantio/dirk/services/api/grpc/handlers/walletmanager"
	"github.com/attestantio/dirk/services/api/grpc/interceptors"
	pb "github.com/wealdtech/eth2-signer-api/pb/v1"
	"google.golang.org/protobuf/encoding/protowire"
	"google.golang.org/protobuf/proto"
	"google.golang.org/protobuf/reflect/protoreflect"
)

type pstep struct {
	Num protowire.Number
	Idx int // element index for repeated fields, -1 otherwise
}

// c20Mut is one departure from the default message.
type c20Mut struct {
	Desc string
	// Set modifies the message through reflection (nil for raw mutations).
	Set func(m protoreflect.Message)
	// RawEmpty, when set, re-encodes the message with the bytes/string field at this path present with length zero
	// (the standard marshaller never emits that, a hand-written client can).
	RawEmpty []pstep
}

func fieldAt(m protoreflect.Message, path []pstep) (protoreflect.Message, protoreflect.FieldDescriptor, bool) {
	cur := m
	for i, st := range path {
		fd := cur.Descriptor().Fields().ByNumber(st.Num)
		if fd == nil {
			return nil, nil, false
		}
		if i == len(path)-1 {
			return cur, fd, true
		}
		if fd.IsList() {
			l := cur.Get(fd).List()
			if st.Idx >= l.Len() {
				return nil, nil, false
			}
			cur = l.Get(st.Idx).Message()
		} else {
			if !cur.Has(fd) {
				return nil, nil, false
			}
			cur = cur.Mutable(fd).Message()
		}
	}
	return nil, nil, false
}

func fill(n int, b byte) []byte {
	r := make([]byte, n)
	for i := range r {
		r[i] = b + byte(i)
	}
	return r
}

// muts enumerates the single-field departures for message m (walking nested messages and the first two list elements).
func c20Muts(m protoreflect.Message, prefix []pstep, name string) []c20Mut {
	var out []c20Mut
	fds := m.Descriptor().Fields()
	for i := 0; i < fds.Len(); i++ {
		fd := fds.Get(i)
		path := append(append([]pstep{}, prefix...), pstep{protowire.Number(fd.Number()), -1})
		fname := name + "." + string(fd.Name())
		set := func(desc string, f func(mm protoreflect.Message, fd protoreflect.FieldDescriptor)) {
			p := path
			out = append(out, c20Mut{Desc: fname + "=" + desc, Set: func(root protoreflect.Message) {
				if mm, ffd, ok := fieldAt(root, p); ok {
					f(mm, ffd)
				}
			}})
		}
		switch {
		case fd.IsList() && fd.Kind() == protoreflect.MessageKind:
			for _, n := range []int{0, 1, 2, 65, 1000} {
				n := n
				set(fmt.Sprintf("list[%d]", n), func(mm protoreflect.Message, fd protoreflect.FieldDescriptor) {
					l := mm.Mutable(fd).List()
					var first protoreflect.Message
					if l.Len() > 0 {
						first = l.Get(0).Message()
					}
					l.Truncate(0)
					for k := 0; k < n; k++ {
						if first != nil {
							l.Append(protoreflect.ValueOfMessage(proto.Clone(first.Interface()).ProtoReflect()))
						} else {
							l.Append(l.NewElement())
						}
					}
				})
			}
			set("list+empty-element", func(mm protoreflect.Message, fd protoreflect.FieldDescriptor) {
				l := mm.Mutable(fd).List()
				l.Append(l.NewElement())
			})
			set("list:empty-element-first", func(mm protoreflect.Message, fd protoreflect.FieldDescriptor) {
				l := mm.Mutable(fd).List()
				n := l.Len()
				var olds []protoreflect.Value
				for k := 0; k < n; k++ {
					olds = append(olds, l.Get(k))
				}
				l.Truncate(0)
				l.Append(l.NewElement())
				for _, o := range olds {
					l.Append(o)
				}
			})
			// Descend into the first two elements.
			l := m.Get(fd).List()
			for k := 0; k < l.Len() && k < 2; k++ {
				ep := append(append([]pstep{}, prefix...), pstep{protowire.Number(fd.Number()), k})
				out = append(out, c20Muts(l.Get(k).Message(), ep, fmt.Sprintf("%s[%d]", fname, k))...)
			}
		case fd.IsList() && fd.Kind() == protoreflect.BytesKind:
			for _, v := range [][]int{{}, {0}, {1}, {48}, {48, 48, 48}, {4096}, {47, 48}} {
				v := v
				set(fmt.Sprintf("byteslist%v", v), func(mm protoreflect.Message, fd protoreflect.FieldDescriptor) {
					l := mm.Mutable(fd).List()
					l.Truncate(0)
					for _, n := range v {
						l.Append(protoreflect.ValueOfBytes(fill(n, 0x21)))
					}
				})
			}
			set("1000 entries", func(mm protoreflect.Message, fd protoreflect.FieldDescriptor) {
				l := mm.Mutable(fd).List()
				for k := 0; k < 1000; k++ {
					l.Append(protoreflect.ValueOfBytes(fill(48, byte(k))))
				}
			})
		case fd.IsList() && fd.Kind() == protoreflect.StringKind:
			for _, v := range [][]string{{}, {""}, {"/x"}, {"Wallet 1/("}, {"Wallet 1/[", "Wallet 1"}, {"Unknown"}, {"Wallet 1/.*"}, {strings.Repeat("W", 70000)},
				{"Wallet 1/^"}, {"Wallet 1/$"}, {"Wallet 1/^$"}, {"Wallet 1/$^"}, {"^"}, {"$"}, {"Wallet 1/\\"}, {"Wallet 1/*"}, {"Wallet 1/(?"}, {"Wallet 1/|"}, {"Nowhere/^", "Wallet 1/$"}, {"Wallet 1//"}, {"/"}, {"//"}} {
				v := v
				set(fmt.Sprintf("%q", truncStrs(v)), func(mm protoreflect.Message, fd protoreflect.FieldDescriptor) {
					l := mm.Mutable(fd).List()
					l.Truncate(0)
					for _, s := range v {
						l.Append(protoreflect.ValueOfString(s))
					}
				})
			}
			set("1000 paths", func(mm protoreflect.Message, fd protoreflect.FieldDescriptor) {
				l := mm.Mutable(fd).List()
				l.Truncate(0)
				for k := 0; k < 1000; k++ {
					l.Append(protoreflect.ValueOfString("Wallet 1"))
				}
			})
		case fd.Kind() == protoreflect.MessageKind:
			set("absent", func(mm protoreflect.Message, fd protoreflect.FieldDescriptor) { mm.Clear(fd) })
			if m.Has(fd) {
				out = append(out, c20Muts(m.Get(fd).Message(), path, fname)...)
			}
		case fd.Kind() == protoreflect.BytesKind:
			set("absent", func(mm protoreflect.Message, fd protoreflect.FieldDescriptor) { mm.Clear(fd) })
			for _, n := range []int{1, 3, 4, 31, 32, 33, 48, 96, 4096} {
				n := n
				set(fmt.Sprintf("bytes[%d]", n), func(mm protoreflect.Message, fd protoreflect.FieldDescriptor) {
					mm.Set(fd, protoreflect.ValueOfBytes(fill(n, 0x11)))
				})
			}
			out = append(out, c20Mut{Desc: fname + "=present-with-length-0", RawEmpty: path})
		case fd.Kind() == protoreflect.StringKind:
			for _, v := range []string{"", "Unknown/acc", "NoSlash", "/leading", "Wallet 1/", "Wallet 1/(", "Wallet 1/.*", "Wallet 1/Unknown", "Wallet 3/x", strings.Repeat("a/", 40000),
				// expressions made of regular-expression metacharacters only
				"Wallet 1/^", "Wallet 1/$", "Wallet 1/^$", "Wallet 1/$^", "^", "$", "Wallet 1/[", "Wallet 1/\\", "Wallet 1/*", "Wallet 1/(?", "Wallet 1/|", "^/^"} {
				v := v
				set(fmt.Sprintf("%q", truncStr(v)), func(mm protoreflect.Message, fd protoreflect.FieldDescriptor) {
					mm.Set(fd, protoreflect.ValueOfString(v))
				})
			}
		case fd.Kind() == protoreflect.Uint64Kind:
			for _, v := range []uint64{0, 1, 1 << 31, 1<<32 - 1, 1 << 63, 1<<64 - 1} {
				v := v
				set(fmt.Sprint(v), func(mm protoreflect.Message, fd protoreflect.FieldDescriptor) {
					mm.Set(fd, protoreflect.ValueOfUint64(v))
				})
			}
		case fd.Kind() == protoreflect.Uint32Kind:
			for _, v := range []uint32{0, 1, 2, 3, 1 << 31, 1<<32 - 1} {
				v := v
				set(fmt.Sprint(v), func(mm protoreflect.Message, fd protoreflect.FieldDescriptor) {
					mm.Set(fd, protoreflect.ValueOfUint32(v))
				})
			}
		}
	}
	return out
}

func truncStr(s string) string {
	if len(s) > 24 {
		return s[:20] + fmt.Sprintf("...(%d)", len(s))
	}
	return s
}

func truncStrs(l []string) []string {
	o := make([]string, len(l))
	for i, s := range l {
		o[i] = truncStr(s)
	}
	return o
}

// marshalEmptyAt encodes m with the field at path present with length zero.
func marshalEmptyAt(m protoreflect.Message, path []pstep) ([]byte, bool) {
	st := path[0]
	fd := m.Descriptor().Fields().ByNumber(st.Num)
	if fd == nil {
		return nil, false
	}
	clone := proto.Clone(m.Interface()).ProtoReflect()
	if len(path) == 1 {
		clone.Clear(fd)
		b, err := proto.Marshal(clone.Interface())
		if err != nil {
			return nil, false
		}
		b = protowire.AppendTag(b, st.Num, protowire.BytesType)
		b = protowire.AppendVarint(b, 0)
		return b, true
	}
	var elems [][]byte
	if fd.IsList() {
		l := clone.Get(fd).List()
		if st.Idx >= l.Len() {
			return nil, false
		}
		for k := 0; k < l.Len(); k++ {
			if k == st.Idx {
				eb, ok := marshalEmptyAt(l.Get(k).Message(), path[1:])
				if !ok {
					return nil, false
				}
				elems = append(elems, eb)
			} else {
				eb, _ := proto.Marshal(l.Get(k).Message().Interface())
				elems = append(elems, eb)
			}
		}
	} else {
		if !clone.Has(fd) {
			return nil, false
		}
		eb, ok := marshalEmptyAt(clone.Get(fd).Message(), path[1:])
		if !ok {
			return nil, false
		}
		elems = append(elems, eb)
	}
	clone.Clear(fd)
	b, err := proto.Marshal(clone.Interface())
	if err != nil {
		return nil, false
	}
	for _, eb := range elems {
		b = protowire.AppendTag(b, st.Num, protowire.BytesType)
		b = protowire.AppendBytes(b, eb)
	}
	return b, true
}

// c20RPC describes one remote procedure.
type c20RPC struct {
	Name    string
	Default func(seq int) proto.Message
	New     func() proto.Message
	Call    func(s *c20Stack, ctx context.Context, m proto.Message) error
	AsPeer  bool
}

type c20Stack struct {
	rig    *rig.SignerRig
	signer *signerhandler.Handler
	lister *listerhandler.Handler
	am     *accountmanagerhandler.Handler
	wm     *walletmanagerhandler.Handler
	node   *rig.Node
	c      *rig.Cluster
	accts  []*rig.Acct
}

// c20Accounts is the number of ordinary accounts of the instance (the largest batch names each of them once).
const c20Accounts = 20

// c20BatchSizes are the batch sizes tried as one departure each: around the number of processors of the worker (4), its
// multiples, and beyond.
var c20BatchSizes = []int{1, 3, 4, 5, 6, 7, 8, 9, 10, 12, 15, 16, 17, 20}

func newC20Stack() (*c20Stack, error) {
	c, err := rig.NewCluster(rig.ClusterOpts{IDs: []uint64{1}, ExtraPeers: map[uint64]string{2: rig.PeerName(2) + ":8002", 3: rig.PeerName(3) + ":8003"}})
	if err != nil {
		return nil, err
	}
	s := &c20Stack{c: c, node: c.Nodes[1], rig: c.Nodes[1].Rig}
	r := s.rig
	for i := 0; i < c20Accounts; i++ {
		a := c20Acct(i)
		r.Adopt("Wallet 1", a)
		s.accts = append(s.accts, a)
	}
	if s.signer, err = signerhandler.New(r.Ctx, signerhandler.WithSigner(r.Signer)); err != nil {
		return nil, err
	}
	if s.lister, err = listerhandler.New(r.Ctx, listerhandler.WithLister(r.Lister)); err != nil {
		return nil, err
	}
	if s.am, err = accountmanagerhandler.New(r.Ctx, accountmanagerhandler.WithAccountManager(r.AcctMgr), accountmanagerhandler.WithProcess(r.Process)); err != nil {
		return nil, err
	}
	if s.wm, err = walletmanagerhandler.New(r.Ctx, walletmanagerhandler.WithWalletManager(r.WalletMgr), walletmanagerhandler.WithProcess(r.Process)); err != nil {
		return nil, err
	}
	return s, nil
}

func c20RPCs() []c20RPC {
	gdom := func() []byte { d := make([]byte, 32); d[0] = 7; return d }
	att := func(seq int, i int) *pb.SignBeaconAttestationRequest {
		return mkAttReq(fmt.Sprintf("Wallet 1/acct-%d", i), nil, AttDomain(0), &pb.AttestationData{Slot: uint64(seq) * 32, CommitteeIndex: 1, BeaconBlockRoot: pat(1),
			Source: &pb.Checkpoint{Epoch: uint64(seq), Root: pat(2)}, Target: &pb.Checkpoint{Epoch: uint64(seq) + 1, Root: pat(3)}})
	}
	return []c20RPC{
		{Name: "Signer.Sign", New: func() proto.Message { return &pb.SignRequest{} },
			Default: func(int) proto.Message { return mkSignReq("Wallet 1/acct-0", nil, pat(9), gdom()) },
			Call: func(s *c20Stack, ctx context.Context, m proto.Message) error {
				_, err := s.signer.Sign(ctx, m.(*pb.SignRequest))
				return err
			}},
		{Name: "Signer.Sign(by key)", New: func() proto.Message { return &pb.SignRequest{} },
			Default: func(int) proto.Message { return mkSignReq("", fill(48, 3), pat(9), gdom()) },
			Call: func(s *c20Stack, ctx context.Context, m proto.Message) error {
				_, err := s.signer.Sign(ctx, m.(*pb.SignRequest))
				return err
			}},
		{Name: "Signer.Multisign", New: func() proto.Message { return &pb.MultisignRequest{} },
			Default: func(int) proto.Message {
				return &pb.MultisignRequest{Requests: []*pb.SignRequest{mkSignReq("Wallet 1/acct-0", nil, pat(9), gdom()), mkSignReq("Wallet 1/acct-1", nil, pat(8), gdom())}}
			},
			Call: func(s *c20Stack, ctx context.Context, m proto.Message) error {
				_, err := s.signer.Multisign(ctx, m.(*pb.MultisignRequest))
				return err
			}},
		{Name: "Signer.SignBeaconAttestation", New: func() proto.Message { return &pb.SignBeaconAttestationRequest{} },
			Default: func(seq int) proto.Message { return att(seq, 0) },
			Call: func(s *c20Stack, ctx context.Context, m proto.Message) error {
				_, err := s.signer.SignBeaconAttestation(ctx, m.(*pb.SignBeaconAttestationRequest))
				return err
			}},
		{Name: "Signer.SignBeaconAttestations", New: func() proto.Message { return &pb.SignBeaconAttestationsRequest{} },
			Default: func(seq int) proto.Message {
				return &pb.SignBeaconAttestationsRequest{Requests: []*pb.SignBeaconAttestationRequest{att(seq, 1), att(seq, 2)}}
			},
			Call: func(s *c20Stack, ctx context.Context, m proto.Message) error {
				_, err := s.signer.SignBeaconAttestations(ctx, m.(*pb.SignBeaconAttestationsRequest))
				return err
			}},
		{Name: "Signer.SignBeaconProposal", New: func() proto.Message { return &pb.SignBeaconProposalRequest{} },
			Default: func(seq int) proto.Message {
				return mkPropReq("Wallet 1/acct-0", nil, PropDomain(0), &pb.BeaconBlockHeader{Slot: uint64(seq), ProposerIndex: 1, ParentRoot: pat(1), StateRoot: pat(2), BodyRoot: pat(3)})
			},
			Call: func(s *c20Stack, ctx context.Context, m proto.Message) error {
				_, err := s.signer.SignBeaconProposal(ctx, m.(*pb.SignBeaconProposalRequest))
				return err
			}},
		{Name: "Lister.ListAccounts", New: func() proto.Message { return &pb.ListAccountsRequest{} },
			Default: func(int) proto.Message { return &pb.ListAccountsRequest{Paths: []string{"Wallet 1"}} },
			Call: func(s *c20Stack, ctx context.Context, m proto.Message) error {
				_, err := s.lister.ListAccounts(ctx, m.(*pb.ListAccountsRequest))
				return err
			}},
		{Name: "AccountManager.Unlock", New: func() proto.Message { return &pb.UnlockAccountRequest{} },
			Default: func(int) proto.Message {
				return &pb.UnlockAccountRequest{Account: "Wallet 1/acct-0", Passphrase: []byte("pass")}
			},
			Call: func(s *c20Stack, ctx context.Context, m proto.Message) error {
				_, err := s.am.Unlock(ctx, m.(*pb.UnlockAccountRequest))
				return err
			}},
		{Name: "AccountManager.Lock", New: func() proto.Message { return &pb.LockAccountRequest{} },
			Default: func(int) proto.Message { return &pb.LockAccountRequest{Account: "Wallet 1/acct-2"} },
			Call: func(s *c20Stack, ctx context.Context, m proto.Message) error {
				_, err := s.am.Lock(ctx, m.(*pb.LockAccountRequest))
				return err
			}},
		{Name: "AccountManager.Generate", New: func() proto.Message { return &pb.GenerateRequest{} },
			Default: func(seq int) proto.Message {
				return &pb.GenerateRequest{Account: fmt.Sprintf("Wallet 1/gen-%d", seq), Passphrase: []byte("pass"), Participants: 1, SigningThreshold: 1}
			},
			Call: func(s *c20Stack, ctx context.Context, m proto.Message) error {
				_, err := s.am.Generate(ctx, m.(*pb.GenerateRequest))
				return err
			}},
		{Name: "AccountManager.Generate(distributed)", New: func() proto.Message { return &pb.GenerateRequest{} },
			Default: func(seq int) proto.Message {
				return &pb.GenerateRequest{Account: fmt.Sprintf("Wallet 3/gen-%d", seq), Passphrase: []byte("pass"), Participants: 3, SigningThreshold: 2}
			},
			Call: func(s *c20Stack, ctx context.Context, m proto.Message) error {
				_, err := s.am.Generate(ctx, m.(*pb.GenerateRequest))
				return err
			}},
		{Name: "WalletManager.Unlock", New: func() proto.Message { return &pb.UnlockWalletRequest{} },
			Default: func(int) proto.Message {
				return &pb.UnlockWalletRequest{Wallet: "Wallet 1", Passphrase: []byte("pass")}
			},
			Call: func(s *c20Stack, ctx context.Context, m proto.Message) error {
				_, err := s.wm.Unlock(ctx, m.(*pb.UnlockWalletRequest))
				return err
			}},
		{Name: "WalletManager.Lock", New: func() proto.Message { return &pb.LockWalletRequest{} },
			Default: func(int) proto.Message { return &pb.LockWalletRequest{Wallet: "Wallet 1"} },
			Call: func(s *c20Stack, ctx context.Context, m proto.Message) error {
				_, err := s.wm.Lock(ctx, m.(*pb.LockWalletRequest))
				return err
			}},
		{Name: "DKG.Prepare(non-peer)", New: func() proto.Message { return &pb.PrepareRequest{} },
			Default: func(seq int) proto.Message {
				return &pb.PrepareRequest{Account: fmt.Sprintf("Wallet 3/p-%d", seq), Threshold: 2, Passphrase: []byte("pass"),
					Participants: []*pb.Endpoint{{Id: 1, Name: "signer-1", Port: 8001}, {Id: 2, Name: "signer-2", Port: 8002}, {Id: 3, Name: "signer-3", Port: 8003}}}
			},
			Call: func(s *c20Stack, ctx context.Context, m proto.Message) error {
				_, err := s.node.Receiver.Prepare(ctx, m.(*pb.PrepareRequest))
				return err
			}},
		{Name: "DKG.Execute(non-peer)", New: func() proto.Message { return &pb.ExecuteRequest{} },
			Default: func(int) proto.Message { return &pb.ExecuteRequest{Account: "Wallet 3/x"} },
			Call: func(s *c20Stack, ctx context.Context, m proto.Message) error {
				_, err := s.node.Receiver.Execute(ctx, m.(*pb.ExecuteRequest))
				return err
			}},
		{Name: "DKG.Commit(non-peer)", New: func() proto.Message { return &pb.CommitRequest{} },
			Default: func(int) proto.Message { return &pb.CommitRequest{Account: "Wallet 3/x", ConfirmationData: pat(5)} },
			Call: func(s *c20Stack, ctx context.Context, m proto.Message) error {
				_, err := s.node.Receiver.Commit(ctx, m.(*pb.CommitRequest))
				return err
			}},
		{Name: "DKG.Abort(non-peer)", New: func() proto.Message { return &pb.AbortRequest{} },
			Default: func(int) proto.Message { return &pb.AbortRequest{Account: "Wallet 3/x"} },
			Call: func(s *c20Stack, ctx context.Context, m proto.Message) error {
				_, err := s.node.Receiver.Abort(ctx, m.(*pb.AbortRequest))
				return err
			}},
		{Name: "DKG.Contribute(non-peer)", New: func() proto.Message { return &pb.ContributeRequest{} },
			Default: func(int) proto.Message {
				p := rig.NewPoly(2)
				sh := p.Share(1)
				return &pb.ContributeRequest{Account: "Wallet 3/x", Secret: sh.Serialize(), VerificationVector: [][]byte{p.VVec[0].Serialize(), p.VVec[1].Serialize()}}
			},
			Call: func(s *c20Stack, ctx context.Context, m proto.Message) error {
				_, err := s.node.Receiver.Contribute(ctx, m.(*pb.ContributeRequest))
				return err
			}},
	}
}

type c20Case struct {
	RPC   int
	Muts  []int
	Label string
	// Ctx: "" = a caller that waits for its answer; "given-up" = the caller has gone away when the request is handled;
	// "expired" = the deadline the caller sent along (grpc-timeout) has passed.
	Ctx string
}

// c20Cases builds the deterministic case list (identical in parent and worker).
// c20Acct is the i-th account of Wallet 1 (its key is the same in every process, so that a case can name it by key).
func c20Acct(i int) *rig.Acct {
	return rig.SymAcctFromSeed(fmt.Sprintf("acct-%d", i), fmt.Sprintf("c20-acct-%d", i), "pass", true)
}

// c20Twice: the ways a batch can name one account twice (by name twice, by key twice, and with the second mention
// spelt as the key followed by one more byte, which resolves to the same account).
func c20Twice() []struct {
	desc string
	ids  [2][2]any // (name, key) per entry
} {
	p := c20Acct(0).PubBytes()
	long := append(append([]byte{}, p...), 0x00)
	n := "Wallet 1/acct-0"
	return []struct {
		desc string
		ids  [2][2]any
	}{
		{"by name twice", [2][2]any{{n, nil}, {n, nil}}},
		{"by key twice", [2][2]any{{"", p}, {"", p}}},
		{"by name and by key", [2][2]any{{n, nil}, {"", p}}},
		{"by name and by the key plus one byte", [2][2]any{{n, nil}, {"", long}}},
		{"by key and by the key plus one byte", [2][2]any{{"", p}, {"", long}}},
	}
}

func c20Cases(tier string) ([]c20Case, []c20RPC, [][]c20Mut) {
	rig.Init()
	rpcs := c20RPCs()
	var all []c20Case
	var mutsPer [][]c20Mut
	for ri, r := range rpcs {
		def := r.Default(1)
		ms := c20Muts(def.ProtoReflect(), nil, r.Name)
		if _, isGen := def.(*pb.GenerateRequest); isGen {
			// participants and signing_threshold are constrained jointly (n/2 < t <= n): moving both to the same value
			// is one departure from the default, not two.
			for _, v := range []uint32{0, 1, 2, 3, 4, 1 << 31, 1<<32 - 1} {
				v := v
				ms = append(ms, c20Mut{Desc: fmt.Sprintf("%s.participants=signing_threshold=%d", r.Name, v), Set: func(m protoreflect.Message) {
					g := m.Interface().(*pb.GenerateRequest)
					g.Participants, g.SigningThreshold = v, v
				}})
			}
		}
		// Batches of well-formed entries of every listed size (one departure: the length of the list).
		switch def.(type) {
		case *pb.ListAccountsRequest:
			// Lists of three paths over a wallet that exists and one that does not (what the lister keeps from one path
			// of a request to the next).
			k, u := "Wallet 1", "No such wallet"
			for _, pl := range [][]string{{k, u, u}, {k, u, u + "/.*"}, {u, u, k}, {u, k, u}, {k, k, u}, {k, u, k}, {u + "/a", u + "/b", k + "/.*"}, {k + "/acct-1", u, u + "/acct-1"}} {
				pl := pl
				ms = append(ms, c20Mut{Desc: fmt.Sprintf("%s.paths=%q", r.Name, pl), Set: func(m protoreflect.Message) {
					m.Interface().(*pb.ListAccountsRequest).Paths = pl
				}})
			}
		case *pb.MultisignRequest:
			for _, tw := range c20Twice() {
				tw := tw
				ms = append(ms, c20Mut{Desc: fmt.Sprintf("%s.requests=one account twice (%s)", r.Name, tw.desc), Set: func(m protoreflect.Message) {
					g := m.Interface().(*pb.MultisignRequest)
					g.Requests = nil
					for i, id := range tw.ids {
						d := make([]byte, 32)
						d[0] = 7
						k, _ := id[1].([]byte)
						g.Requests = append(g.Requests, mkSignReq(id[0].(string), k, pat(byte(9+i)), d))
					}
				}})
			}
			for _, n := range c20BatchSizes {
				n := n
				ms = append(ms, c20Mut{Desc: fmt.Sprintf("%s.requests=%d well-formed entries", r.Name, n), Set: func(m protoreflect.Message) {
					g := m.Interface().(*pb.MultisignRequest)
					g.Requests = nil
					for i := 0; i < n; i++ {
						d := make([]byte, 32)
						d[0] = 7
						g.Requests = append(g.Requests, mkSignReq(fmt.Sprintf("Wallet 1/acct-%d", i), nil, pat(byte(9+i)), d))
					}
				}})
			}
		case *pb.SignBeaconAttestationsRequest:
			for _, tw := range c20Twice() {
				tw := tw
				ms = append(ms, c20Mut{Desc: fmt.Sprintf("%s.requests=one account twice (%s)", r.Name, tw.desc), Set: func(m protoreflect.Message) {
					g := m.Interface().(*pb.SignBeaconAttestationsRequest)
					// (The template comes from a fresh default message: another departure may have emptied this one's list.)
					tmpl := r.Default(1).(*pb.SignBeaconAttestationsRequest).GetRequests()[0]
					g.Requests = nil
					for _, id := range tw.ids {
						q := proto.Clone(tmpl).(*pb.SignBeaconAttestationRequest)
						if k, _ := id[1].([]byte); k != nil {
							q.Id = &pb.SignBeaconAttestationRequest_PublicKey{PublicKey: k}
						} else {
							q.Id = &pb.SignBeaconAttestationRequest_Account{Account: id[0].(string)}
						}
						g.Requests = append(g.Requests, q)
					}
				}})
			}
			for _, n := range c20BatchSizes {
				n := n
				ms = append(ms, c20Mut{Desc: fmt.Sprintf("%s.requests=%d well-formed entries", r.Name, n), Set: func(m protoreflect.Message) {
					g := m.Interface().(*pb.SignBeaconAttestationsRequest)
					tmpl := r.Default(1).(*pb.SignBeaconAttestationsRequest).GetRequests()[0]
					g.Requests = nil
					for i := 0; i < n; i++ {
						q := proto.Clone(tmpl).(*pb.SignBeaconAttestationRequest)
						q.Id = &pb.SignBeaconAttestationRequest_Account{Account: fmt.Sprintf("Wallet 1/acct-%d", i)}
						g.Requests = append(g.Requests, q)
					}
				}})
			}
		}
		mutsPer = append(mutsPer, ms)
		all = append(all, c20Case{RPC: ri, Label: r.Name + ": default"})
		all = append(all, c20Case{RPC: ri, Label: r.Name + ": default, from a caller that has gone away", Ctx: "given-up"},
			c20Case{RPC: ri, Label: r.Name + ": default, with a deadline that has passed", Ctx: "expired"})
		for mi, m := range ms {
			all = append(all, c20Case{RPC: ri, Muts: []int{mi}, Label: m.Desc})
		}
		if tier == "thorough" {
			for a := range ms {
				for b := a + 1; b < len(ms); b++ {
					if ms[a].RawEmpty != nil && ms[b].RawEmpty != nil {
						continue
					}
					all = append(all, c20Case{RPC: ri, Muts: []int{a, b}, Label: ms[a].Desc + " & " + ms[b].Desc})
				}
			}
		}
	}
	return all, rpcs, mutsPer
}

// c20Worker runs cases [from, ...) and prints CASE/DONE lines.
func c20Worker(tier string, from int) int {
	runtime.GOMAXPROCS(4)
	cases, rpcs, mutsPer := c20Cases(tier)
	s, err := newC20Stack()
	if err != nil {
		fmt.Printf("WORKER-ERROR %v\n", err)
		return 2
	}
	out := bufio.NewWriter(os.Stdout)
	clientCtx := context.WithValue(context.Background(), &interceptors.ClientName{}, rig.DefaultClient)
	peerCtx := context.WithValue(context.Background(), &interceptors.ClientName{}, rig.PeerName(2))
	for i := from; i < len(cases); i++ {
		if i > from && (i-from)%1500 == 0 {
			// Bound the size of the wallet (generation cases add accounts) and of the store.
			s.c.Close()
			if s, err = newC20Stack(); err != nil {
				fmt.Fprintf(out, "WORKER-ERROR %v\n", err)
				out.Flush()
				return 2
			}
		}
		if os.Getenv("VERIF_C20_ONLY") != "" && i > from {
			break
		}
		cs := cases[i]
		fmt.Fprintf(out, "CASE %d\n", i)
		out.Flush()
		r := rpcs[cs.RPC]
		msg := r.Default(100 + i)
		var raw []pstep
		for _, mi := range cs.Muts {
			mu := mutsPer[cs.RPC][mi]
			if mu.Set != nil {
				mu.Set(msg.ProtoReflect())
			} else {
				raw = mu.RawEmpty
			}
		}
		var wire []byte
		if raw != nil {
			b, ok := marshalEmptyAt(msg.ProtoReflect(), raw)
			if !ok {
				fmt.Fprintf(out, "DONE %d inapplicable\n", i)
				continue
			}
			wire = b
		} else {
			b, err := proto.Marshal(msg)
			if err != nil {
				fmt.Fprintf(out, "DONE %d unmarshallable\n", i)
				continue
			}
			wire = b
		}
		in := r.New()
		if err := proto.Unmarshal(wire, in); err != nil {
			fmt.Fprintf(out, "DONE %d rejected-by-decoder\n", i)
			continue
		}
		ctx := clientCtx
		if r.AsPeer {
			ctx = peerCtx
		}
		switch cs.Ctx {
		case "given-up":
			c2, cancel := context.WithCancel(ctx)
			cancel()
			ctx = c2
		case "expired":
			c2, cancel := context.WithDeadline(ctx, time.Now().Add(-time.Second))
			defer cancel()
			ctx = c2
		}
		done := make(chan error, 1)
		go func() { done <- r.Call(s, ctx, in) }()
		select {
		case <-done:
		case <-time.After(90 * time.Second):
			fmt.Fprintf(out, "HANG %d\n", i)
			out.Flush()
			return 3
		}
		// Canary: an ordinary request must still be answered.
		cdone := make(chan pb.ResponseState, 1)
		go func() {
			res, _ := s.signer.Sign(clientCtx, mkSignReq("Wallet 1/acct-1", nil, pat(byte(i)), func() []byte { d := make([]byte, 32); d[0] = 9; return d }()))
			cdone <- res.GetState()
		}()
		select {
		case <-cdone:
			// Any answer will do: whether the canary is signed is not this property's business.
		case <-time.After(90 * time.Second):
			fmt.Fprintf(out, "CANARY-HANG %d\n", i)
			out.Flush()
			return 3
		}
		fmt.Fprintf(out, "DONE %d ok\n", i)
	}
	out.Flush()
	fmt.Println("WORKER-COMPLETE")
	return 0
}

// c20RepeatKinds are client requests that fail somewhere along a distributed generation; each is sent c20Repeats times in a
// row (more often than any pool, table or buffer of a few dozen entries is large) to a cluster of three real instances
// that talk over the real gRPC transport (real API servers, real sender with its connection pools), and afterwards an
// ordinary generation must still be answered.
var c20RepeatKinds = []string{"name refused when the account is stored", "name already held", "threshold without majority", "unknown wallet", "more participants than peers"}

const c20Repeats = 40

// c20RepeatChild runs the repeat phase; prints REPEAT-BEGIN/REPEAT-END lines so that the parent can tell a hang or a
// crash from a refusal.
func c20RepeatChild(tier string) int {
	rig.Init()
	out := bufio.NewWriter(os.Stdout)
	say := func(f string, a ...any) { fmt.Fprintf(out, f+"\n", a...); out.Flush() }
	c, err := rig.NewNetCluster([]uint64{1, 2, 3})
	if err != nil {
		say("WORKER-ERROR %v", err)
		return 2
	}
	defer c.Close()
	if _, err := c.Generate(1, rig.DistWallet+"/held", 2, 3); err != nil {
		say("WORKER-ERROR baseline generation over the network failed: %v", err)
		return 2
	}
	serial := 0
	for ki, kind := range c20RepeatKinds {
		say("REPEAT-BEGIN %d", ki)
		answered := 0
		for i := 0; i < c20Repeats; i++ {
			serial++
			done := make(chan error, 1)
			go func() {
				var err error
				switch kind {
				case "name refused when the account is stored":
					_, err = c.Generate(1, fmt.Sprintf("%s/_x%d", rig.DistWallet, serial), 2, 3)
				case "name already held":
					_, err = c.Generate(1, rig.DistWallet+"/held", 2, 3)
				case "threshold without majority":
					_, err = c.Generate(1, fmt.Sprintf("%s/t%d", rig.DistWallet, serial), 1, 3)
				case "unknown wallet":
					_, err = c.Generate(1, fmt.Sprintf("Nowhere/u%d", serial), 2, 3)
				case "more participants than peers":
					_, err = c.Generate(1, fmt.Sprintf("%s/m%d", rig.DistWallet, serial), 3, 5)
				}
				done <- err
			}()
			select {
			case <-done:
				answered++
			case <-time.After(30 * time.Second):
				say("REPEAT-HANG %d request %d of this kind was not answered within 30 s", ki, i+1)
				return 3
			}
		}
		// The canary: an ordinary generation, started on each instance in turn.
		for _, id := range []uint64{1, 2, 3} {
			serial++
			done := make(chan error, 1)
			go func() {
				_, err := c.Generate(id, fmt.Sprintf("%s/ok%d", rig.DistWallet, serial), 2, 3)
				done <- err
			}()
			select {
			case err := <-done:
				if err != nil {
					say("REPEAT-NOTE %d canary on instance %d refused: %v", ki, id, err)
				}
			case <-time.After(30 * time.Second):
				say("REPEAT-HANG %d after %d requests of this kind an ordinary generation started on instance %d was not answered within 30 s", ki, c20Repeats, id)
				return 3
			}
		}
		say("REPEAT-END %d %d", ki, answered)
	}
	say("REPEAT-COMPLETE")
	return 0
}

// c20Repeat runs the child and turns what it reports into violations.
func c20Repeat(run *ev.Run, tier string) (map[string]any, error) {
	exe, err := os.Executable()
	if err != nil {
		return nil, err
	}
	cmd := exec.Command("sh", "-c", `ulimit -v 16777216; exec "$0" "$@"`, exe, "C20", tier)
	cmd.Env = append(os.Environ(), "VERIF_C20_REPEAT=1")
	var stderr strings.Builder
	cmd.Stderr = &stderr
	outb, werr := cmd.Output()
	res := map[string]any{"kinds": c20RepeatKinds, "repeats_per_kind": c20Repeats}
	begun, ended := -1, -1
	complete := false
	hang := ""
	var notes []string
	for _, line := range strings.Split(string(outb), "\n") {
		switch {
		case strings.HasPrefix(line, "WORKER-ERROR"):
			return nil, fmt.Errorf("%s", line)
		case strings.HasPrefix(line, "REPEAT-BEGIN "):
			fmt.Sscanf(line, "REPEAT-BEGIN %d", &begun)
		case strings.HasPrefix(line, "REPEAT-END "):
			fmt.Sscanf(line, "REPEAT-END %d", &ended)
		case strings.HasPrefix(line, "REPEAT-HANG "):
			hang = strings.TrimPrefix(line, "REPEAT-HANG ")
		case strings.HasPrefix(line, "REPEAT-NOTE "):
			notes = append(notes, strings.TrimPrefix(line, "REPEAT-NOTE "))
		case line == "REPEAT-COMPLETE":
			complete = true
		}
	}
	res["kinds_completed"] = ended + 1
	res["canary_refusals"] = notes
	if complete {
		return res, nil
	}
	if begun < 0 {
		return nil, fmt.Errorf("repeat phase died before it began: %v %s", werr, stderr.String())
	}
	kind := c20RepeatKinds[begun]
	if hang != "" {
		run.Violate("stops-answering:repeated:"+kind, fmt.Sprintf("three instances over the real gRPC transport, distributed generation requests of the kind %q sent %d times: %s", kind, c20Repeats, hang),
			map[string]any{"check": "C20", "repeat_kind": kind})
		return res, nil
	}
	tail := stderr.String()
	for _, marker := range []string{"panic:", "fatal error:"} {
		if i := strings.Index(tail, marker); i >= 0 {
			tail = tail[i:]
			break
		}
	}
	if len(tail) > 500 {
		tail = tail[:500]
	}
	run.Violate("crash:repeated:"+kind, fmt.Sprintf("three instances over the real gRPC transport, distributed generation requests of the kind %q: the process hosting them died: %s", kind, strings.ReplaceAll(tail, "\n", " | ")),
		map[string]any{"check": "C20", "repeat_kind": kind})
	return res, nil
}

// C20 checks that no expressible request crashes the daemon.
func C20(tier string) int {
	if v := os.Getenv("VERIF_C20_FROM"); v != "" {
		var from int
		fmt.Sscanf(v, "%d", &from)
		return c20Worker(tier, from)
	}
	if os.Getenv("VERIF_C20_REPEAT") != "" {
		return c20RepeatChild(tier)
	}
	run := ev.NewRun("C20", tier, "exploration")
	cases, rpcs, _ := c20Cases(tier)
	exe, err := os.Executable()
	if err != nil {
		run.HarnessErr = err
		return run.Finish()
	}
	from := 0
	done := 0
	statuses := map[string]int{}
	perRPC := map[string]int{}
	crashes := 0
	for attempt := 0; attempt < 200 && from < len(cases); attempt++ {
		// The worker runs under a 16 GiB address-space limit: an allocation proportional to an attacker-chosen
		// number is a crash there, exactly as it is on a machine with less free memory than the number asks for.
		cmd := exec.Command("sh", "-c", `ulimit -v 16777216; exec "$0" "$@"`, exe, "C20", tier)
		cmd.Env = append(os.Environ(), fmt.Sprintf("VERIF_C20_FROM=%d", from))
		outp, _ := cmd.StdoutPipe()
		var stderr strings.Builder
		cmd.Stderr = &stderr
		if err := cmd.Start(); err != nil {
			run.HarnessErr = err
			return run.Finish()
		}
		sc := bufio.NewScanner(outp)
		sc.Buffer(make([]byte, 1<<20), 1<<24)
		last := -1
		complete := false
		problem := ""
		for sc.Scan() {
			line := sc.Text()
			var n int
			switch {
			case strings.HasPrefix(line, "CASE "):
				fmt.Sscanf(line, "CASE %d", &n)
				last = n
			case strings.HasPrefix(line, "DONE "):
				var st string
				fmt.Sscanf(line, "DONE %d %s", &n, &st)
				done++
				statuses[st]++
				perRPC[rpcs[cases[n].RPC].Name]++
			case strings.HasPrefix(line, "HANG"), strings.HasPrefix(line, "CANARY"):
				problem = line
			case line == "WORKER-COMPLETE":
				complete = true
			case strings.HasPrefix(line, "WORKER-ERROR"):
				run.HarnessErr = fmt.Errorf("%s", line)
			}
		}
		werr := cmd.Wait()
		if run.HarnessErr != nil {
			return run.Finish()
		}
		if complete {
			from = len(cases)
			break
		}
		if last < 0 {
			run.HarnessErr = fmt.Errorf("worker died before its first case: %v %s", werr, stderr.String())
			return run.Finish()
		}
		// The worker died or stopped answering while handling case `last`.
		crashes++
		tail := stderr.String()
		for _, marker := range []string{"panic:", "fatal error:"} {
			if i := strings.Index(tail, marker); i >= 0 {
				tail = tail[i:]
				break
			}
		}
		// A panic whose innermost frame is the harness's own (a case that could not even be built) is the harness's
		// problem, never the instance's.
		if i := strings.Index(tail, "[running]:\n"); i >= 0 && problem == "" {
			first := strings.TrimSpace(strings.SplitN(tail[i+len("[running]:\n"):], "\n", 2)[0])
			if strings.HasPrefix(first, "panic(") {
				rest := strings.Split(tail[i+len("[running]:\n"):], "\n")
				for k := 2; k < len(rest); k += 2 {
					if f := strings.TrimSpace(rest[k]); !strings.HasPrefix(f, "runtime.") && !strings.HasPrefix(f, "panic(") {
						first = f
						break
					}
				}
			}
			if strings.HasPrefix(first, "verif/") || strings.HasPrefix(first, "main.") {
				run.HarnessErr = fmt.Errorf("the worker panicked in the harness's own code while building or sending case %q: %s", cases[last].Label, strings.ReplaceAll(tail[:min(len(tail), 600)], "\n", " | "))
				return run.Finish()
			}
		}
		if len(tail) > 500 {
			tail = tail[:500]
		}
		what := "crashed"
		if problem != "" {
			what = "stopped answering (" + problem + ")"
		}
		cs := cases[last]
		run.Violate(fmt.Sprintf("crash:%s", cs.Label), fmt.Sprintf("request %s: the instance %s: %s", cs.Label, what, strings.ReplaceAll(tail, "\n", " | ")),
			map[string]any{"check": "C20", "case_index": last, "label": cs.Label, "tier": tier})
		from = last + 1
	}
	repeat, err := c20Repeat(run, tier)
	if err != nil {
		run.HarnessErr = err
		return run.Finish()
	}
	samples := []any{}
	for i := 0; i < len(cases) && len(samples) < 6; i += len(cases)/6 + 1 {
		samples = append(samples, map[string]any{"case": i, "request": cases[i].Label})
	}
	racePassInfo, err := raceFindings(run, "accounts are generated into a wallet that was empty at start-up while two clients list it and a third signs with what exists so far, free-running in a child built with -race; a fatal error of the runtime in Dirk's code counts as well")
	if err != nil {
		run.HarnessErr = err
		return run.Finish()
	}
	run.Coverage = map[string]any{
		"race_detector_pass":                     racePassInfo,
		"evaluations":                            done,
		"distinct_nontrivial":                    len(perRPC),
		"rule":                                   "for every RPC of Signer, Lister, AccountManager and WalletManager (as an authorised client) and of the key-generation service (as a non-peer, and Prepare as a peer): the default well-formed message and every message with one field off default (two in thorough): bytes absent / present with length 0 (hand-encoded) / 1,3,4,31,32,33,48,96,4096; numbers 0,1,2^31,2^32-1,2^63,2^64-1; sub-messages absent; names empty, unknown, without slash, leading slash, regular-expression metacharacters alone and in pairs (^ $ ^$ [ \\ * (? |), 80 kB; batches of 0,1,2,65,1000 entries incl. an empty entry; each marshalled, decoded by the real protobuf library and handed to the real handler in a worker process under a 16 GiB address-space limit; after each case an ordinary signing request must be answered; plus, on three real instances that talk over the real gRPC transport (real API servers and real sender on loopback addresses, own certificate authority), five kinds of failing distributed-generation requests sent 40 times in a row each, after which an ordinary generation started on each instance must be answered; distinct = RPCs exercised",
		"samples":                                samples,
		"exhaustive":                             from >= len(cases),
		"cases":                                  len(cases),
		"cases_done":                             done,
		"statuses":                               statuses,
		"per_rpc":                                perRPC,
		"worker_deaths":                          crashes,
		"repeated_failing_generations_over_grpc": repeat,
	}
	run.Assumptions = []string{"client-facing handlers are driven after a protobuf encode/decode round trip, not through a gRPC connection (framing and size limits of the transport are not exercised); the instance-to-instance transport is real in the repeat phase", "16 GiB address-space limit for the worker"}
	return run.Finish()
}

func init() {
	Registry["C20"] = C20
	Replayers["C20"] = func(raw json.RawMessage) int {
		var rp struct {
			Index int    `json:"case_index"`
			Tier  string `json:"tier"`
		}
		if err := json.Unmarshal(raw, &rp); err != nil {
			fmt.Println(err)
			return 2
		}
		exe, _ := os.Executable()
		cmd := exec.Command("sh", "-c", `ulimit -v 16777216; exec "$0" "$@"`, exe, "C20", rp.Tier)
		cmd.Env = append(os.Environ(), fmt.Sprintf("VERIF_C20_FROM=%d", rp.Index), "VERIF_C20_ONLY=1")
		out, err := cmd.CombinedOutput()
		s := string(out)
		if strings.Contains(s, fmt.Sprintf("DONE %d", rp.Index)) {
			fmt.Println("  no violation on replay")
			return 0
		}
		if len(s) > 1500 {
			s = s[len(s)-1500:]
		}
		fmt.Printf("  VIOLATED: worker died on case %d: %v\n%s\n", rp.Index, err, s)
		return 1
	}
}
