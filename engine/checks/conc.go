//go:build verifsched

package checks

import (
	"context"
	"crypto/sha256"
	"encoding/binary"
	"encoding/json"
	"fmt"
	"github.com/attestantio/dirk/services/locker"
	"os"
	"os/exec"
	"runtime"
	"sort"
	"strings"
	"sync"
	"sync/atomic"
	"time"

	"verif/ev"
	"verif/model"
	"verif/rig"
	"verif/sched"

	"github.com/attestantio/dirk/rules"
	mockrules "github.com/attestantio/dirk/rules/mock"
	standardrules "github.com/attestantio/dirk/rules/standard"
	"github.com/attestantio/dirk/services/checker"
	syncmaplocker "github.com/attestantio/dirk/services/locker/syncmap"
	"github.com/attestantio/dirk/services/ruler"
	goruler "github.com/attestantio/dirk/services/ruler/golang"
)

// CReq is one request of a concurrency scenario (RunRules level).
type CReq struct {
	Kind string   `json:"kind"` // att, atts, prop, sign, signs
	Keys []int    `json:"keys"`
	S    []uint64 `json:"s,omitempty"`
	T    []uint64 `json:"t,omitempty"`
	Slot uint64   `json:"slot,omitempty"`
	// Cancel: "pre" = the caller's context is already cancelled when the request arrives; "ext" = it is cancelled by a
	// cancel step of another thread at a moment the scheduler chooses.
	Cancel string `json:"cancel,omitempty"`
	// Target (Kind "cancel"): thread and index of the request whose caller gives up.
	Target []int `json:"target,omitempty"`
}

func (r CReq) String() string {
	if r.Kind == "cancel" {
		return fmt.Sprintf("cancel(T%d.%d)", r.Target[0], r.Target[1])
	}
	if r.Cancel != "" {
		c := r
		c.Cancel = ""
		return c.String() + "{ctx:" + r.Cancel + "}"
	}
	switch r.Kind {
	case "att", "atts", "atts-nokey", "atts-nildata", "atts-longkey":
		if len(r.Keys) > 8 {
			return fmt.Sprintf("%s[%d keys k%d..k%d, each %d->%d]", r.Kind, len(r.Keys), r.Keys[0], r.Keys[len(r.Keys)-1], r.S[0], r.T[0])
		}
		var l []string
		for i, k := range r.Keys {
			l = append(l, fmt.Sprintf("k%d:%d->%d", k, r.S[i], r.T[i]))
		}
		return r.Kind + "[" + strings.Join(l, ",") + "]"
	case "prop":
		return fmt.Sprintf("prop[k%d:%d]", r.Keys[0], r.Slot)
	default:
		return fmt.Sprintf("%s%v", r.Kind, r.Keys)
	}
}

// CScenario is a set of thread programs.
type CScenario struct {
	Name    string   `json:"name"`
	Threads [][]CReq `json:"threads"`
	// DescKeys makes the bytewise order of the keys the reverse of their index order.
	DescKeys bool `json:"desc_keys,omitempty"`
	// Bound (if > 0) replaces the check's preemption bound for this scenario and rules out the unbounded pass
	// (scenarios with hundreds of scheduling points).
	Bound int `json:"bound,omitempty"`
	// WarmKeys: before the requests arrive the instance has served requests for this many other keys (its locker has
	// taken and released a lock for each of them).
	WarmKeys int `json:"warm_keys,omitempty"`
	// Garbage lists keys whose stored attestation record cannot be decoded when the requests arrive (a damaged record):
	// requests naming such a key fail, and must still come back.
	Garbage []int `json:"garbage,omitempty"`
	// TwoWallets puts the keys with odd index into a second wallet (all others: one wallet).
	TwoWallets bool `json:"two_wallets,omitempty"`
}

// keyRange returns the key indices lo..hi-1.
func keyRange(lo, hi int) []int {
	var l []int
	for i := lo; i < hi; i++ {
		l = append(l, i)
	}
	return l
}

func att1(k int, s, t uint64) CReq {
	return CReq{Kind: "att", Keys: []int{k}, S: []uint64{s}, T: []uint64{t}}
}
func attsN(keys []int, s, t uint64) CReq {
	r := CReq{Kind: "atts", Keys: keys}
	for range keys {
		r.S = append(r.S, s)
		r.T = append(r.T, t)
	}
	return r
}
func prop1(k int, slot uint64) CReq { return CReq{Kind: "prop", Keys: []int{k}, Slot: slot} }

// withCtx returns r with the given cancellation mode; cancelOf is the step at which the caller of request idx of thread
// th gives up.
func withCtx(r CReq, mode string) CReq { r.Cancel = mode; return r }
func cancelOf(th, idx int) CReq        { return CReq{Kind: "cancel", Target: []int{th, idx}} }
func sign1(k int) CReq                 { return CReq{Kind: "sign", Keys: []int{k}} }
func signsN(keys ...int) CReq          { return CReq{Kind: "signs", Keys: keys} }

type callRec struct {
	thread, idx int
	req         CReq
	call, ret   int
	approved    []bool
}

// concEnv is the per-process environment shared by executions.
type concEnv struct {
	rules        *standardrules.Service
	dir          string
	nexec        int
	approver     rules.Service // approve-all stub (no store access), for lock-only scenarios
	lastVerdicts string
	cancel       context.CancelFunc
}

func newConcEnv() (*concEnv, error) {
	rig.Init()
	e := &concEnv{approver: mockrules.New()}
	if err := e.reopen(); err != nil {
		return nil, err
	}
	return e, nil
}

func (e *concEnv) reopen() error {
	if e.rules != nil {
		e.close()
	}
	e.dir = rig.Scratch("conc")
	var err error
	var ctx context.Context
	ctx, e.cancel = context.WithCancel(context.Background())
	e.rules, err = standardrules.New(ctx, standardrules.WithStoragePath(e.dir))
	return err
}

func (e *concEnv) close() {
	_ = e.rules.Close(context.Background())
	if e.cancel != nil {
		e.cancel()
	}
	_ = os.RemoveAll(e.dir)
}

// freshKeys returns the n keys of a scenario, with every record stored under them removed. The key bytes are the same
// in every execution (an implementation may order its locks by key bytes, or derive table slots from them, and the
// explorer must see the same enabled sets when it replays a prefix): two bytes fix the bytewise order (ascending in the
// key index, or descending when desc is set), the rest is pseudo-random, as real public keys are.
func (e *concEnv) freshKeys(n int, desc bool) [][]byte {
	keys := make([][]byte, n)
	var recs [][]byte
	for i := range keys {
		k := make([]byte, 48)
		k[0] = 0xa5
		if desc {
			binary.BigEndian.PutUint16(k[16:18], uint16(60000-i))
		} else {
			binary.BigEndian.PutUint16(k[16:18], uint16(10+i))
		}
		h := sha256.Sum256(k[:18])
		copy(k[18:], h[:30])
		keys[i] = k
		recs = append(recs, append(append([]byte{}, k...), 0x02), append(append([]byte{}, k...), 0x03))
	}
	if err := e.rules.VerifRawDeleteAll(context.Background(), recs); err != nil {
		panic(err)
	}
	return keys
}

// fmtVerdicts renders a verdict vector; for a large batch: the count and the first positions refused.
func fmtVerdicts(v []bool) string {
	if len(v) <= 8 {
		return fmt.Sprint(v)
	}
	nt, firstF := 0, []int{}
	for i, a := range v {
		if a {
			nt++
		} else if len(firstF) < 4 {
			firstF = append(firstF, i)
		}
	}
	return fmt.Sprintf("[%d of %d signed, refused at %v]", nt, len(v), firstF)
}

var concCreds = &checker.Credentials{Client: "client1", RequestID: "r", IP: "10.0.0.1"}

// concTwoWallets is set by the scenario that is being run (one scenario at a time per process).
var concTwoWallets bool

func walletOf(k int) string {
	if concTwoWallets && k%2 == 1 {
		return "Wallet 2"
	}
	return "Wallet 1"
}

func runReq(ctx context.Context, rl ruler.Service, keys [][]byte, r CReq) []bool {
	var action string
	var data []*ruler.RulesData
	switch r.Kind {
	case "att", "atts", "atts-nokey", "atts-nildata", "atts-longkey":
		action = ruler.ActionSignBeaconAttestation
		for i, k := range r.Keys {
			data = append(data, &ruler.RulesData{WalletName: walletOf(k), AccountName: fmt.Sprintf("acct-%d", k), PubKey: keys[k],
				Data: &rules.SignBeaconAttestationData{Domain: AttDomain(0), Slot: r.T[i] * 32, BeaconBlockRoot: pat(1),
					Source: &rules.Checkpoint{Epoch: r.S[i], Root: pat(2)}, Target: &rules.Checkpoint{Epoch: r.T[i], Root: pat(3)}}})
		}
	case "prop":
		action = ruler.ActionSignBeaconProposal
		data = append(data, &ruler.RulesData{WalletName: walletOf(r.Keys[0]), AccountName: fmt.Sprintf("acct-%d", r.Keys[0]), PubKey: keys[r.Keys[0]],
			Data: &rules.SignBeaconProposalData{Domain: PropDomain(0), Slot: r.Slot, ParentRoot: pat(1), StateRoot: pat(2), BodyRoot: pat(3)}})
	case "sign", "signs", "signs-longkey":
		action = ruler.ActionSign
		for _, k := range r.Keys {
			dom := make([]byte, 32)
			dom[0] = 7
			data = append(data, &ruler.RulesData{WalletName: walletOf(k), AccountName: fmt.Sprintf("acct-%d", k), PubKey: keys[k],
				Data: &rules.SignData{Domain: dom, Data: pat(9)}})
		}
	}
	switch r.Kind {
	case "atts-nokey":
		if len(data) > 1 {
			data[len(data)-1].PubKey = nil
		}
	case "atts-nildata":
		if len(data) > 1 {
			data[len(data)-1].Data = nil
		}
	case "atts-longkey", "signs-longkey":
		// The last entry spells its key with one byte more than a public key has (accounts are looked up by the first 48
		// bytes; whoever hands the ruler what a client supplied hands it this).
		if len(data) > 1 {
			data[len(data)-1].PubKey = append(append([]byte{}, data[len(data)-1].PubKey...), 0x00)
		}
	}
	res := rl.RunRules(ctx, concCreds, action, data)
	out := make([]bool, len(data))
	for i := range out {
		out[i] = i < len(res) && res[i] == rules.APPROVED
	}
	return out
}

// seqModel applies requests in the given order to the sequential specification.
func seqModel(order []*callRec, nkeys int) (verdicts map[*callRec][]bool, final []model.Water) {
	w := make([]model.Water, nkeys)
	verdicts = map[*callRec][]bool{}
	for _, c := range order {
		v := make([]bool, len(c.req.Keys))
		switch c.req.Kind {
		case "atts-nokey", "atts-nildata":
			// A malformed batch is refused as a whole.
		case "att", "atts":
			seen := map[int]bool{}
			dup := false
			for _, k := range c.req.Keys {
				if seen[k] {
					dup = true
				}
				seen[k] = true
			}
			if !dup {
				for i, k := range c.req.Keys {
					if w[k].ApproveAtt(c.req.S[i], c.req.T[i]) {
						v[i] = true
						w[k].ApplyAtt(c.req.S[i], c.req.T[i])
					}
				}
			}
		case "prop":
			k := c.req.Keys[0]
			if w[k].ApproveProp(c.req.Slot) {
				v[0] = true
				w[k].ApplyProp(c.req.Slot)
			}
		case "sign", "signs":
			seen := map[int]bool{}
			dup := false
			for _, k := range c.req.Keys {
				if seen[k] {
					dup = true
				}
				seen[k] = true
			}
			for i := range v {
				v[i] = !dup
			}
		}
		verdicts[c] = v
	}
	return verdicts, w
}

func precedes(a, b *callRec) bool {
	if a.thread == b.thread {
		return a.idx < b.idx
	}
	return a.ret < b.call
}

type finalRec struct {
	attS, attT, slot int64
}

// linearizable searches for a sequential order compatible with real-time order that explains verdicts and final records.
func linearizable(calls []*callRec, nkeys int, finals []finalRec) (bool, string) {
	n := len(calls)
	used := make([]bool, n)
	order := make([]*callRec, 0, n)
	var tried []string
	var rec func() bool
	rec = func() bool {
		if len(order) == n {
			verd, w := seqModel(order, nkeys)
			ok := true
			for _, c := range calls {
				if fmt.Sprint(verd[c]) != fmt.Sprint(c.approved) {
					ok = false
				}
			}
			for k := 0; k < nkeys && ok; k++ {
				var want finalRec
				want.attS, want.attT, want.slot = -1, -1, -1
				if w[k].HasAtt {
					want.attS, want.attT = int64(w[k].MaxS), int64(w[k].MaxT)
				}
				if w[k].HasProp {
					want.slot = int64(w[k].MaxSlot)
				}
				if want != finals[k] {
					ok = false
				}
			}
			if !ok && len(tried) < 6 {
				var l []string
				for _, c := range order {
					l = append(l, fmt.Sprintf("%s=>%s", c.req, fmtVerdicts(verd[c])))
				}
				tried = append(tried, strings.Join(l, " ; "))
			}
			return ok
		}
		for i, c := range calls {
			if used[i] {
				continue
			}
			okPrec := true
			for j, d := range calls {
				if !used[j] && j != i && precedes(d, c) {
					okPrec = false
				}
			}
			if !okPrec {
				continue
			}
			used[i] = true
			order = append(order, c)
			if rec() {
				return true
			}
			order = order[:len(order)-1]
			used[i] = false
		}
		return false
	}
	if rec() {
		return true, ""
	}
	return false, strings.Join(tried, " | ")
}

// mkScenario builds a sched.Scenario for a CScenario. lockOnly replaces the rules by an approve-all stub.
func (e *concEnv) mkScenario(cs CScenario, lockOnly bool, wantLinearizable bool) sched.Scenario {
	nkeys := 0
	for _, th := range cs.Threads {
		for _, r := range th {
			for _, k := range r.Keys {
				if k+1 > nkeys {
					nkeys = k + 1
				}
			}
		}
	}
	return func() ([]func(s *sched.Sched), func(x *sched.Exec) []sched.Finding) {
		e.nexec++
		if e.nexec%800 == 0 {
			if err := e.reopen(); err != nil {
				panic(err)
			}
		}
		ctx := context.Background()
		lk, err := syncmaplocker.New(ctx)
		if err != nil {
			panic(err)
		}
		var rs rules.Service = e.rules
		if lockOnly {
			rs = e.approver
		}
		rl, err := goruler.New(ctx, goruler.WithLocker(lk), goruler.WithRules(rs))
		if err != nil {
			panic(err)
		}
		keys := e.freshKeys(nkeys, cs.DescKeys)
		concTwoWallets = cs.TwoWallets
		warmLocker(lk, cs.WarmKeys)
		for _, g := range cs.Garbage {
			if err := e.rules.VerifRawPut(ctx, append(append([]byte{}, keys[g]...), 0x02), []byte{0x7f, 0x03, 0xff, 0x00, 0x12}); err != nil {
				panic(err)
			}
		}
		var calls []*callRec
		var bodies []func(s *sched.Sched)
		type reqCtx struct {
			ctx    context.Context
			cancel context.CancelFunc
		}
		ctxs := map[[2]int]*reqCtx{}
		for ti, th := range cs.Threads {
			for ri, r := range th {
				rc := &reqCtx{ctx: ctx}
				if r.Cancel != "" {
					rc.ctx, rc.cancel = context.WithCancel(ctx)
					if r.Cancel == "pre" {
						rc.cancel()
					}
				}
				ctxs[[2]int{ti, ri}] = rc
			}
		}
		for ti, th := range cs.Threads {
			recs := make([]*callRec, len(th))
			for ri, r := range th {
				if r.Kind == "cancel" {
					continue
				}
				recs[ri] = &callRec{thread: ti, idx: ri, req: r, call: -1, ret: -1}
				calls = append(calls, recs[ri])
			}
			th, ti := th, ti
			bodies = append(bodies, func(s *sched.Sched) {
				for ri, r := range th {
					if r.Kind == "cancel" {
						s.Point("cancel")
						if rc := ctxs[[2]int{r.Target[0], r.Target[1]}]; rc != nil && rc.cancel != nil {
							rc.cancel()
						}
						continue
					}
					recs[ri].call = s.Now()
					recs[ri].approved = runReq(ctxs[[2]int{ti, ri}].ctx, rl, keys, r)
					recs[ri].ret = s.Now()
				}
			})
		}
		check := func(x *sched.Exec) []sched.Finding {
			var fs []sched.Finding
			var vl []string
			for _, c := range calls {
				vl = append(vl, fmtVerdicts(c.approved))
			}
			e.lastVerdicts = strings.Join(vl, "")
			if x.Deadlock || x.Stuck {
				fs = append(fs, sched.Finding{Key: "deadlock:" + cs.Name, What: fmt.Sprintf("scenario %s: requests wait on each other forever: %s", cs.Name, strings.Join(x.Blocked, "; "))})
				return fs
			}
			for _, m := range x.Misuse {
				fs = append(fs, sched.Finding{Key: "misuse:" + cs.Name, What: fmt.Sprintf("scenario %s: a request released a lock that nobody held, so an earlier release freed a lock its request did not own; the daemon ends with 'fatal error: sync: %s' and answers nobody", cs.Name, m)})
			}
			for id, p := range x.Panics {
				fs = append(fs, sched.Finding{Key: "panic:" + cs.Name, What: fmt.Sprintf("scenario %s: thread %d panicked: %s", cs.Name, id, p)})
			}
			for _, c := range calls {
				if c.ret < 0 && len(x.Panics) == 0 {
					fs = append(fs, sched.Finding{Key: "incomplete:" + cs.Name, What: fmt.Sprintf("scenario %s: request %s did not complete", cs.Name, c.req)})
				}
			}
			if !wantLinearizable || lockOnly || len(fs) > 0 || x.Uncontrolled {
				return fs
			}
			finals := make([]finalRec, nkeys)
			for k := range finals {
				finals[k] = e.readFinal(keys[k])
			}
			// A request whose caller gave up may be refused whatever the serial order says, provided it leaves no trace:
			// it is then left out of the serial order altogether.
			var lin []*callRec
			for _, c := range calls {
				refused := true
				for _, a := range c.approved {
					refused = refused && !a
				}
				if c.req.Cancel != "" && refused {
					continue
				}
				lin = append(lin, c)
			}
			if ok, tried := linearizable(lin, nkeys, finals); !ok {
				var l []string
				for _, c := range calls {
					l = append(l, fmt.Sprintf("T%d.%d %s [%d,%d] => %s", c.thread, c.idx, c.req, c.call, c.ret, fmtVerdicts(c.approved)))
				}
				fs = append(fs, sched.Finding{Key: "nonlinearizable:" + cs.Name,
					What: fmt.Sprintf("scenario %s: no serial order explains the outcome: %s; final records %v; serial orders give: %s", cs.Name, strings.Join(l, " ; "), finals, tried)})
			}
			return fs
		}
		return bodies, check
	}
}

func (e *concEnv) readFinal(pub []byte) finalRec {
	f := finalRec{-1, -1, -1}
	ctx := context.Background()
	if v, ok, _ := e.rules.VerifRawGet(ctx, append(append([]byte{}, pub...), 0x02)); ok && len(v) == 17 && v[0] == 1 {
		f.attS = int64(binary.LittleEndian.Uint64(v[1:9]))
		f.attT = int64(binary.LittleEndian.Uint64(v[9:17]))
	} else if ok {
		f.attS, f.attT = -2, -2
	}
	if v, ok, _ := e.rules.VerifRawGet(ctx, append(append([]byte{}, pub...), 0x03)); ok && len(v) == 9 && v[0] == 1 {
		f.slot = int64(binary.LittleEndian.Uint64(v[1:9]))
	} else if ok {
		f.slot = -2
	}
	return f
}

// outcomeClassifier classifies an execution by its verdict vector (vacuity reporting).
func (e *concEnv) outcomeClassifier() func(x *sched.Exec) string {
	return func(x *sched.Exec) string {
		if x.Deadlock {
			return "deadlock"
		}
		return e.lastVerdicts
	}
}

// shardResult is what a shard process reports.
type shardResult struct {
	Scenario     string            `json:"scenario"`
	Mode         string            `json:"mode"`
	Stats        sched.Stats       `json:"stats"`
	Violations   []sched.Violation `json:"violations"`
	Err          string            `json:"err,omitempty"`
	Threads      [][]string        `json:"threads"`
	VerdictKinds int               `json:"verdict_kinds"`
	Def          CScenario         `json:"def"`
}

type concJob struct {
	cs       CScenario
	lockOnly bool
	linear   bool
	bound    int
	// all: one unbounded depth-first pass over every interleaving, capped at allCap of wall time.
	all    bool
	allCap time.Duration
}

// runConcShard is executed in a child process (GOMAXPROCS=1): explores the jobs assigned to this shard.
func runConcShard(jobs []concJob, shard, nshards int, deadline time.Time) {
	runtime.GOMAXPROCS(1)
	env, err := newConcEnv()
	if err != nil {
		fmt.Printf("SHARD-ERROR %v\n", err)
		os.Exit(2)
	}
	defer env.close()
	runOne := func(j concJob, all bool, d time.Time) shardResult {
		if os.Getenv("VERIF_DEBUG") != "" {
			fmt.Fprintf(os.Stderr, "shard %d: scenario %s all=%v\n", shard, j.cs.Name, all)
		}
		sc := env.mkScenario(j.cs, j.lockOnly, j.linear)
		var st sched.Stats
		var viols []sched.Violation
		var err error
		if all {
			st, viols, err = sched.ExploreAll(sc, d, env.outcomeClassifier())
		} else {
			st, viols, err = sched.Explore(sc, j.bound, d, env.outcomeClassifier())
		}
		mode := "rules"
		if j.lockOnly {
			mode = "lock-only"
		}
		if all {
			mode += "/all-interleavings"
		}
		r := shardResult{Scenario: j.cs.Name, Mode: mode, Stats: st, Def: j.cs}
		for _, th := range j.cs.Threads {
			var l []string
			for _, q := range th {
				l = append(l, q.String())
			}
			r.Threads = append(r.Threads, l)
		}
		// Every violation must reproduce identically 5 times from its recorded choice list.
		for _, v := range viols {
			xs, fs, rerr := sched.Replay(sc, v.Choices, 5, v.PerG)
			same := rerr == nil
			for k := range xs {
				found := false
				for _, f := range fs[k] {
					if f.Key == v.Key {
						found = true
					}
				}
				if !found || xs[k].Schedule() != v.Schedule {
					same = false
				}
			}
			if !same {
				r.Err = fmt.Sprintf("violation %s did not reproduce identically on replay (harness nondeterminism)", v.Key)
				continue
			}
			r.Violations = append(r.Violations, v)
		}
		if err != nil {
			r.Err = err.Error()
		}
		return r
	}
	var mine []concJob
	for i, j := range jobs {
		if i%nshards == shard {
			if j.cs.Bound > 0 {
				j.all, j.bound = false, j.cs.Bound
			}
			mine = append(mine, j)
		}
	}
	// Pass 1: every scenario gets its guaranteed coverage: all interleavings where that is known to be small (two
	// threads), the preemption bound elsewhere.
	results := make([]shardResult, len(mine))
	var later []int
	for i, j := range mine {
		small := j.all && len(j.cs.Threads) == 2
		if small {
			d := time.Now().Add(j.allCap)
			if d.After(deadline) {
				d = deadline
			}
			results[i] = runOne(j, true, d)
			if results[i].Err == "" && len(results[i].Violations) == 0 && !results[i].Stats.AllInterleavings {
				results[i] = runOne(j, false, deadline) // too large for the cap after all
			}
			continue
		}
		results[i] = runOne(j, false, deadline)
		if j.all && results[i].Err == "" && len(results[i].Violations) == 0 {
			later = append(later, i)
		}
	}
	// Pass 2 (where requested): with the time that is left, try the larger scenarios without a bound; a completed attempt
	// replaces the bounded result.
	for k, i := range later {
		left := time.Until(deadline)
		if left <= 0 {
			break
		}
		share := left / time.Duration(len(later)-k)
		if share > mine[i].allCap {
			share = mine[i].allCap
		}
		r := runOne(mine[i], true, time.Now().Add(share))
		if r.Err != "" || len(r.Violations) > 0 || r.Stats.AllInterleavings {
			results[i] = r
		}
	}
	enc := json.NewEncoder(os.Stdout)
	for _, r := range results {
		fmt.Print("SHARD-RESULT ")
		_ = enc.Encode(r)
	}
}

// runConcParent spawns shard processes and merges their results.
func runConcParent(id string, tier string, njobs int) ([]shardResult, error) {
	n := runtime.NumCPU()
	if n > njobs {
		n = njobs
	}
	exe, err := os.Executable()
	if err != nil {
		return nil, err
	}
	var mu sync.Mutex
	var results []shardResult
	var firstErr atomic.Value
	var wg sync.WaitGroup
	for sh := 0; sh < n; sh++ {
		wg.Add(1)
		go func(sh int) {
			defer wg.Done()
			cmd := exec.Command(exe, id, tier)
			cmd.Env = append(os.Environ(), fmt.Sprintf("VERIF_SHARD=%d/%d", sh, n))
			cmd.Stderr = os.Stderr
			out, err := cmd.Output()
			for _, line := range strings.Split(string(out), "\n") {
				if strings.HasPrefix(line, "SHARD-RESULT ") {
					var r shardResult
					if jerr := json.Unmarshal([]byte(line[len("SHARD-RESULT "):]), &r); jerr == nil {
						mu.Lock()
						results = append(results, r)
						mu.Unlock()
					}
				}
				if strings.HasPrefix(line, "SHARD-ERROR") {
					firstErr.CompareAndSwap(nil, fmt.Errorf("shard %d: %s", sh, line))
				}
			}
			if err != nil {
				firstErr.CompareAndSwap(nil, fmt.Errorf("shard %d: %v", sh, err))
			}
		}(sh)
	}
	wg.Wait()
	sort.Slice(results, func(i, j int) bool { return results[i].Scenario+results[i].Mode < results[j].Scenario+results[j].Mode })
	if e := firstErr.Load(); e != nil {
		return results, e.(error)
	}
	if len(results) != njobs {
		return results, fmt.Errorf("got %d shard results for %d jobs", len(results), njobs)
	}
	return results, nil
}

func parseShard() (int, int, bool) {
	v := os.Getenv("VERIF_SHARD")
	if v == "" {
		return 0, 0, false
	}
	var a, b int
	if _, err := fmt.Sscanf(v, "%d/%d", &a, &b); err != nil {
		return 0, 0, false
	}
	return a, b, true
}

// concExtraCoverage is merged into the coverage that concFinish writes (phases a check runs beside its scenarios).
var concExtraCoverage map[string]any

func concFinish(run *ev.Run, results []shardResult, err error, rule string) int {
	if err != nil {
		run.HarnessErr = err
		return run.Finish()
	}
	execs, maxPoints, deadlocks, uncontrolled, allDone := 0, 0, 0, 0, 0
	boundDone := 1 << 30
	budget := false
	samples := ev.NewSamples(5)
	per := map[string]any{}
	nontrivial := 0
	for _, r := range results {
		if r.Err != "" {
			run.HarnessErr = fmt.Errorf("scenario %s: %s", r.Scenario, r.Err)
			return run.Finish()
		}
		execs += r.Stats.Executions
		if r.Stats.MaxPoints > maxPoints {
			maxPoints = r.Stats.MaxPoints
		}
		deadlocks += r.Stats.Deadlocks
		uncontrolled += r.Stats.Uncontrolled
		budget = budget || r.Stats.BudgetHit
		per[r.Scenario+"/"+r.Mode] = map[string]any{"threads": r.Threads, "executions": r.Stats.Executions, "max_points": r.Stats.MaxPoints,
			"bound_completed": r.Stats.BoundCompleted, "outcomes": r.Stats.Outcomes, "all_interleavings": r.Stats.AllInterleavings,
			"max_preemptions": r.Stats.MaxPreemptions, "goroutine_mode": r.Stats.GoroutineMode}
		if r.Stats.AllInterleavings {
			allDone++
		} else if r.Stats.BoundCompleted < boundDone {
			boundDone = r.Stats.BoundCompleted
		}
		if len(r.Stats.Outcomes) > 1 || r.Mode == "lock-only" && r.Stats.Executions > 1 {
			nontrivial++
		}
		samples.Add(map[string]any{"scenario": r.Scenario, "mode": r.Mode, "threads": r.Threads, "executions": r.Stats.Executions})
		for _, v := range r.Violations {
			run.Violate(v.Key, v.What, map[string]any{"check": run.ID, "scenario": r.Def, "mode": r.Mode, "choices": v.Choices, "schedule": v.Schedule, "preemptions": v.Preemptions, "goroutine_mode": v.PerG})
		}
	}
	if boundDone == 1<<30 {
		// No scenario was cut at a bound: report the largest number of preemptions any execution had.
		boundDone = 0
		for _, r := range results {
			if r.Stats.MaxPreemptions > boundDone {
				boundDone = r.Stats.MaxPreemptions
			}
		}
	}
	var racePassInfo map[string]any
	if _, has := RaceBodies[run.ID]; has {
		// Memory that concurrent requests share without synchronisation: see race.go.
		reports, total, ran, rerr := racePass(run.ID)
		if rerr != nil {
			run.HarnessErr = rerr
			return run.Finish()
		}
		for _, rr := range reports {
			run.Violate("data-race:"+rr.Key, fmt.Sprintf("while concurrent requests are served, two goroutines touch the same memory with no synchronisation between them (%s): the requests are not isolated from each other. Race detector report:\n%s", rr.Key, rr.Text),
				map[string]any{"check": run.ID, "race": rr.Key})
		}
		racePassInfo = map[string]any{"ran": ran, "reports": total, "reports_with_dirk_code_on_both_sides": len(reports), "bodies": "the requests of every scenario run by real goroutines (no scheduler) on the real ruler, locker, rules and store, four processors, three rounds each, in a child built with -race"}
	}
	run.Coverage = map[string]any{
		"race_detector_pass":  racePassInfo,
		"evaluations":         execs,
		"distinct_nontrivial": nontrivial,
		"rule":                rule,
		"samples":             samples.List(),
		"exhaustive":          !budget && uncontrolled == 0,
		"scenarios":           len(results),
		"executions":          execs,
		"bound_completed":     boundDone,
		"scenarios_with_all_interleavings_explored": allDone,
		"max_points":   maxPoints,
		"deadlocks":    deadlocks,
		"uncontrolled": uncontrolled,
		"per_scenario": per,
	}
	for k, v := range concExtraCoverage {
		run.Coverage[k] = v
	}
	return run.Finish()
}

// concRaceBodies runs the requests of every scenario once more with real goroutines and no scheduler (race.go): the
// real ruler, locker, rules and store, four processors, three rounds per scenario.
func concRaceBodies(scs []CScenario) error {
	old := runtime.GOMAXPROCS(4)
	defer runtime.GOMAXPROCS(old)
	e, err := newConcEnv()
	if err != nil {
		return err
	}
	defer e.close()
	for _, cs := range scs {
		nkeys := 0
		for _, th := range cs.Threads {
			for _, r := range th {
				for _, k := range r.Keys {
					if k+1 > nkeys {
						nkeys = k + 1
					}
				}
			}
		}
		for round := 0; round < 3; round++ {
			ctx := context.Background()
			lk, err := syncmaplocker.New(ctx)
			if err != nil {
				return err
			}
			rl, err := goruler.New(ctx, goruler.WithLocker(lk), goruler.WithRules(e.rules))
			if err != nil {
				return err
			}
			keys := e.freshKeys(nkeys, cs.DescKeys)
			warmLocker(lk, cs.WarmKeys)
			type reqCtx struct {
				ctx    context.Context
				cancel context.CancelFunc
			}
			ctxs := map[[2]int]*reqCtx{}
			for ti, th := range cs.Threads {
				for ri, r := range th {
					rc := &reqCtx{ctx: ctx}
					if r.Cancel != "" {
						rc.ctx, rc.cancel = context.WithCancel(ctx)
						if r.Cancel == "pre" {
							rc.cancel()
						}
					}
					ctxs[[2]int{ti, ri}] = rc
				}
			}
			done := make(chan struct{})
			var wg sync.WaitGroup
			for ti, th := range cs.Threads {
				wg.Add(1)
				go func(ti int, th []CReq) {
					defer wg.Done()
					for ri, r := range th {
						if r.Kind == "cancel" {
							if rc := ctxs[[2]int{r.Target[0], r.Target[1]}]; rc != nil && rc.cancel != nil {
								rc.cancel()
							}
							continue
						}
						runReq(ctxs[[2]int{ti, ri}].ctx, rl, keys, r)
					}
				}(ti, th)
			}
			go func() { wg.Wait(); close(done) }()
			select {
			case <-done:
			case <-time.After(30 * time.Second):
				// Requests that wait on each other are the explorer's business; what the detector has logged so far stands.
				return nil
			}
		}
	}
	return nil
}

// warmLocker makes the locker serve n other keys first (outside the scheduler: nobody else is running yet).
func warmLocker(lk locker.Service, n int) {
	for i := 0; i < n; i++ {
		var k [48]byte
		k[0] = 0x5a
		binary.BigEndian.PutUint32(k[1:5], uint32(i))
		h := sha256.Sum256(k[:5])
		copy(k[5:], h[:])
		lk.PreLock()
		lk.Lock(k)
		lk.PostLock()
		lk.Unlock(k)
	}
}
