//go:build !verifsched

package checks

import "fmt"

func needOverlay(id string) func(string) int {
	return func(string) int {
		fmt.Printf("HARNESS-ERROR property=%s needs the scheduler build (bin/check builds it with -overlay and -tags verifsched)\n", id)
		return 2
	}
}

func init() {
	Registry["C04"] = needOverlay("C04")
	Registry["C15"] = needOverlay("C15")
	Registry["C14"] = needOverlay("C14")
}
