package checks

import (
	pb "github.com/wealdtech/eth2-signer-api/pb/v1"
)

func mkSignReq(name string, key []byte, data, domain []byte) *pb.SignRequest {
	r := &pb.SignRequest{Data: data, Domain: domain}
	if key != nil {
		r.Id = &pb.SignRequest_PublicKey{PublicKey: key}
	} else {
		r.Id = &pb.SignRequest_Account{Account: name}
	}
	return r
}

func mkAttReq(name string, key []byte, domain []byte, data *pb.AttestationData) *pb.SignBeaconAttestationRequest {
	r := &pb.SignBeaconAttestationRequest{Domain: domain, Data: data}
	if key != nil {
		r.Id = &pb.SignBeaconAttestationRequest_PublicKey{PublicKey: key}
	} else {
		r.Id = &pb.SignBeaconAttestationRequest_Account{Account: name}
	}
	return r
}

func mkPropReq(name string, key []byte, domain []byte, data *pb.BeaconBlockHeader) *pb.SignBeaconProposalRequest {
	r := &pb.SignBeaconProposalRequest{Domain: domain, Data: data}
	if key != nil {
		r.Id = &pb.SignBeaconProposalRequest_PublicKey{PublicKey: key}
	} else {
		r.Id = &pb.SignBeaconProposalRequest_Account{Account: name}
	}
	return r
}
