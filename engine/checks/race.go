package checks

import (
	"fmt"
	"os"
	"os/exec"
	"path/filepath"
	"sort"
	"strings"

	"verif/rig"
)

// The explorers see what happens at scheduling points and at request boundaries; memory that two goroutines of the code
// under test touch without any synchronisation in between (a buffer hoisted out of a per-entry closure, a record built in
// shared scratch space) is invisible to them: the scheduler's hand-offs order every access. Such accesses are looked for
// separately: the same harness bodies run once more free (no scheduler, real goroutines, several processors) in a child
// built with the race detector, and every report whose two access stacks both pass through Dirk's own code is a finding.
// This pass decides nothing by itself about interleavings; it closes the explorers' blind spot.

// RaceBodies are the free-running bodies per check (run in the race-detector child).
var RaceBodies = map[string]func() error{}

// RunRaceChild is the entry point of the child (vcheck <ID> race-child).
func RunRaceChild(id string) int {
	f, ok := RaceBodies[id]
	if !ok {
		fmt.Fprintf(os.Stderr, "no race bodies for %s\n", id)
		return 2
	}
	rig.Init()
	if err := f(); err != nil {
		fmt.Fprintf(os.Stderr, "RACE-CHILD-ERROR %v\n", err)
		return 3
	}
	return 0
}

// RaceReport is one report of the race detector that involves Dirk's code on both sides.
type RaceReport struct {
	Key  string `json:"key"`  // the two innermost Dirk functions, sorted
	Text string `json:"text"` // the report
}

// racePass runs the race-detector child for the check; ran is false if bin/check did not build one.
func racePass(id string) (reports []RaceReport, total int, ran bool, err error) {
	bin := os.Getenv("VERIF_RACE_BIN")
	if bin == "" {
		return nil, 0, false, nil
	}
	dir := rig.Scratch("race")
	defer os.RemoveAll(dir)
	cmd := exec.Command(bin, id, "race-child")
	cmd.Env = append(os.Environ(), "GORACE=halt_on_error=0 exitcode=0 history_size=3 log_path="+filepath.Join(dir, "race"))
	out, cerr := cmd.CombinedOutput()
	if cerr != nil {
		tail := string(out)
		if len(tail) > 1500 {
			tail = tail[len(tail)-1500:]
		}
		return nil, 0, true, fmt.Errorf("race-detector child: %v: %s", cerr, tail)
	}
	files, _ := filepath.Glob(filepath.Join(dir, "race.*"))
	seen := map[string]bool{}
	for _, f := range files {
		b, rerr := os.ReadFile(f)
		if rerr != nil {
			return nil, 0, true, rerr
		}
		for _, rep := range strings.Split(string(b), "==================") {
			if !strings.Contains(rep, "WARNING: DATA RACE") {
				continue
			}
			total++
			key, ok := raceKey(rep)
			if !ok || seen[key] {
				continue
			}
			seen[key] = true
			reports = append(reports, RaceReport{Key: key, Text: strings.TrimSpace(rep)})
		}
	}
	sort.Slice(reports, func(i, j int) bool { return reports[i].Key < reports[j].Key })
	return reports, total, true, nil
}

// raceKey returns the innermost Dirk function of each of the two accesses; ok is false unless both have one.
func raceKey(rep string) (string, bool) {
	var tops []string
	inAccess := false
	found := false
	for _, line := range strings.Split(rep, "\n") {
		switch {
		case strings.HasPrefix(line, "Write at"), strings.HasPrefix(line, "Read at"), strings.HasPrefix(line, "Previous write at"), strings.HasPrefix(line, "Previous read at"),
			strings.HasPrefix(line, "Atomic write at"), strings.HasPrefix(line, "Previous atomic write at"), strings.HasPrefix(line, "Atomic read at"), strings.HasPrefix(line, "Previous atomic read at"):
			inAccess, found = true, false
		case strings.HasPrefix(line, "Goroutine "), strings.TrimSpace(line) == "":
			inAccess = false
		case inAccess && !found && strings.HasPrefix(line, "  ") && !strings.HasPrefix(line, "      "):
			fn := strings.TrimSpace(line)
			if strings.HasPrefix(fn, "github.com/attestantio/dirk/") && !strings.Contains(fn, "/util/verifhook.") && !strings.Contains(fn, "/util/verifsync.") {
				if i := strings.Index(fn, "("); i > 0 && strings.HasSuffix(fn, ")") && !strings.Contains(fn[i:], "*") {
					fn = fn[:i]
				}
				tops = append(tops, strings.TrimPrefix(fn, "github.com/attestantio/dirk/"))
				found = true
			}
		}
	}
	if len(tops) != 2 {
		return "", false
	}
	sort.Strings(tops)
	return tops[0] + " / " + tops[1], true
}

// replayRace runs the race pass again and looks for the report.
func replayRace(id, key string) int {
	reports, _, ran, err := racePass(id)
	if err != nil {
		fmt.Println(err)
		return 2
	}
	if !ran {
		fmt.Println("  no race-detector build available (run through bin/check)")
		return 2
	}
	for _, r := range reports {
		if r.Key == key {
			fmt.Printf("  VIOLATED: data race %s\n%s\n", r.Key, r.Text)
			return 1
		}
	}
	fmt.Println("  no such race reported on replay")
	return 0
}
