package checks

import (
	"fmt"
	"os"
	"os/exec"
	"path/filepath"
	"runtime"
	"sort"
	"strings"
	"sync"

	"verif/ev"
	"verif/rig"

	"github.com/attestantio/dirk/rules"
	"github.com/attestantio/dirk/services/checker"
)

// The explorers see what happens at scheduling points and at request boundaries; memory that two goroutines of the code
// under test touch without any synchronisation in between (a buffer hoisted out of a per-entry closure, a record built in
// shared scratch space) is invisible to them: the scheduler's hand-offs order every access. Such accesses are looked for
// separately: the same harness bodies run once more free (no scheduler, real goroutines, several processors) in a child
// built with the race detector, and every report whose two access stacks both pass through Dirk's own code is a finding.
// This pass decides nothing by itself about interleavings; it closes the explorers' blind spot.

// RaceBodies are the free-running bodies per check (run in the race-detector child).
var RaceBodies = map[string]func() error{}

// RunRaceChild is the entry point of the child (vcheck <ID> race-child).
func RunRaceChild(id string) int {
	f, ok := RaceBodies[id]
	if !ok {
		fmt.Fprintf(os.Stderr, "no race bodies for %s\n", id)
		return 2
	}
	rig.Init()
	if err := f(); err != nil {
		fmt.Fprintf(os.Stderr, "RACE-CHILD-ERROR %v\n", err)
		return 3
	}
	return 0
}

// RaceReport is one report of the race detector that involves Dirk's code on both sides.
type RaceReport struct {
	Key  string `json:"key"`  // the two innermost Dirk functions, sorted
	Text string `json:"text"` // the report
}

// racePass runs the race-detector child for the check; ran is false if bin/check did not build one.
func racePass(id string) (reports []RaceReport, total int, ran bool, err error) {
	bin := os.Getenv("VERIF_RACE_BIN")
	if bin == "" {
		return nil, 0, false, nil
	}
	dir := rig.Scratch("race")
	defer os.RemoveAll(dir)
	cmd := exec.Command(bin, id, "race-child")
	cmd.Env = append(os.Environ(), "GORACE=halt_on_error=0 exitcode=0 history_size=3 log_path="+filepath.Join(dir, "race"))
	out, cerr := cmd.CombinedOutput()
	seen := map[string]bool{}
	if cerr != nil {
		// The bodies made the process die. The runtime's own "fatal error" (concurrent map access, unlock of an unlocked
		// mutex, ...) in Dirk's code is a finding; anything else is the harness's problem.
		text := string(out)
		i := strings.Index(text, "fatal error: ")
		if i < 0 || !strings.Contains(text[i:], "github.com/attestantio/dirk/") || strings.Contains(text[i:], "RACE-CHILD-ERROR") {
			if len(text) > 1500 {
				text = text[len(text)-1500:]
			}
			return nil, 0, true, fmt.Errorf("race-detector child: %v: %s", cerr, text)
		}
		line := text[i:]
		if j := strings.IndexByte(line, '\n'); j > 0 {
			line = line[:j]
		}
		rep := text[i:]
		if len(rep) > 4000 {
			rep = rep[:4000]
		}
		total++
		seen[line] = true
		reports = append(reports, RaceReport{Key: line, Text: rep})
	}
	files, _ := filepath.Glob(filepath.Join(dir, "race.*"))
	for _, f := range files {
		b, rerr := os.ReadFile(f)
		if rerr != nil {
			return nil, 0, true, rerr
		}
		for _, rep := range strings.Split(string(b), "==================") {
			if !strings.Contains(rep, "WARNING: DATA RACE") {
				continue
			}
			total++
			key, ok := raceKey(rep)
			if !ok || seen[key] {
				continue
			}
			seen[key] = true
			reports = append(reports, RaceReport{Key: key, Text: strings.TrimSpace(rep)})
		}
	}
	sort.Slice(reports, func(i, j int) bool { return reports[i].Key < reports[j].Key })
	return reports, total, true, nil
}

// raceKey returns the innermost Dirk function of each of the two accesses; ok is false unless both have one.
func raceKey(rep string) (string, bool) {
	var tops []string
	inAccess := false
	found := false
	for _, line := range strings.Split(rep, "\n") {
		switch {
		case strings.HasPrefix(line, "Write at"), strings.HasPrefix(line, "Read at"), strings.HasPrefix(line, "Previous write at"), strings.HasPrefix(line, "Previous read at"),
			strings.HasPrefix(line, "Atomic write at"), strings.HasPrefix(line, "Previous atomic write at"), strings.HasPrefix(line, "Atomic read at"), strings.HasPrefix(line, "Previous atomic read at"):
			inAccess, found = true, false
		case strings.HasPrefix(line, "Goroutine "), strings.TrimSpace(line) == "":
			inAccess = false
		case inAccess && !found && strings.HasPrefix(line, "  ") && !strings.HasPrefix(line, "      "):
			fn := strings.TrimSpace(line)
			if strings.HasPrefix(fn, "github.com/attestantio/dirk/") && !strings.Contains(fn, "/util/verifhook.") && !strings.Contains(fn, "/util/verifsync.") {
				if i := strings.Index(fn, "("); i > 0 && strings.HasSuffix(fn, ")") && !strings.Contains(fn[i:], "*") {
					fn = fn[:i]
				}
				tops = append(tops, strings.TrimPrefix(fn, "github.com/attestantio/dirk/"))
				found = true
			}
		}
	}
	if len(tops) != 2 {
		return "", false
	}
	sort.Strings(tops)
	return tops[0] + " / " + tops[1], true
}

// replayRace runs the race pass again and looks for the report.
func replayRace(id, key string) int {
	reports, _, ran, err := racePass(id)
	if err != nil {
		fmt.Println(err)
		return 2
	}
	if !ran {
		fmt.Println("  no race-detector build available (run through bin/check)")
		return 2
	}
	for _, r := range reports {
		if r.Key == key {
			fmt.Printf("  VIOLATED: data race %s\n%s\n", r.Key, r.Text)
			return 1
		}
	}
	fmt.Println("  no such race reported on replay")
	return 0
}

// sigRaceBodies: six clients sign side by side through the real signer stack (four on keys of their own, two sharing
// a key), single requests and batches; prop selects proposals, otherwise attestations.
func sigRaceBodies(prop bool) error {
	old := runtime.GOMAXPROCS(4)
	defer runtime.GOMAXPROCS(old)
	r, err := rig.NewSignerRig(rig.SignerOpts{})
	if err != nil {
		return err
	}
	defer r.Close()
	creds := &checker.Credentials{Client: rig.DefaultClient, RequestID: "r", IP: "10.0.0.1"}
	shared := r.AddSymAccount("Wallet 1", "", "pass", true)
	var wg sync.WaitGroup
	for c := 0; c < 6; c++ {
		own := r.AddSymAccount("Wallet 1", "", "pass", true)
		second := r.AddSymAccount("Wallet 1", "", "pass", true)
		if c >= 4 {
			own = shared
		}
		wg.Add(1)
		go func(c int) {
			defer wg.Done()
			for i := 0; i < 8; i++ {
				if prop {
					r.Signer.SignBeaconProposal(r.Ctx, creds, "Wallet 1/"+own.Name(), nil, PropData(Ent{Slot: uint64(i + 1), Root: c + 1}))
					r.Signer.SignBeaconProposal(r.Ctx, creds, "", second.PubBytes(), PropData(Ent{Slot: uint64(i + 1), Root: c + 1}))
					continue
				}
				r.Signer.SignBeaconAttestation(r.Ctx, creds, "Wallet 1/"+own.Name(), nil, AttData(Ent{S: uint64(2 * i), T: uint64(2*i + 1), Root: c + 1}))
				r.Signer.SignBeaconAttestations(r.Ctx, creds, []string{"Wallet 1/" + own.Name(), "Wallet 1/" + second.Name()}, nil,
					[]*rules.SignBeaconAttestationData{AttData(Ent{S: uint64(2*i + 1), T: uint64(2*i + 2), Root: c + 1}), AttData(Ent{S: uint64(2*i + 1), T: uint64(2*i + 2), Root: c + 1})})
			}
		}(c)
	}
	wg.Wait()
	return nil
}

// raceFindings runs the race pass of a check and records its reports; the returned map goes into the coverage.
func raceFindings(run *ev.Run, what string) (map[string]any, error) {
	reports, total, ran, err := racePass(run.ID)
	if err != nil {
		return nil, err
	}
	for _, rr := range reports {
		run.Violate("data-race:"+rr.Key, fmt.Sprintf("while requests are served side by side, two goroutines touch the same memory with no synchronisation between them (%s): what one request is answered depends on the other's timing. Race detector report:\n%s", rr.Key, rr.Text),
			map[string]any{"check": run.ID, "race": rr.Key})
	}
	return map[string]any{"ran": ran, "reports": total, "reports_with_dirk_code_on_both_sides": len(reports), "bodies": what}, nil
}

func init() {
	RaceBodies["C01"] = func() error { return sigRaceBodies(false) }
	RaceBodies["C02"] = func() error { return sigRaceBodies(true) }
}

// listRaceBodies: accounts are generated into a wallet that was empty when the instance started while two clients list
// that wallet and a third signs with what has been generated so far.
func listRaceBodies() error {
	old := runtime.GOMAXPROCS(4)
	defer runtime.GOMAXPROCS(old)
	r, err := rig.NewSignerRig(rig.SignerOpts{Wallets: []string{"Wallet 1", "Fresh"}, Full: true,
		Permissions: map[string][]*checker.Permissions{rig.DefaultClient: {{Path: ".*", Operations: []string{"All"}}}}})
	if err != nil {
		return err
	}
	defer r.Close()
	creds := &checker.Credentials{Client: rig.DefaultClient, RequestID: "r", IP: "10.0.0.1"}
	r.AddSymAccount("Wallet 1", "", "pass", true)
	done := make(chan struct{})
	var wg sync.WaitGroup
	for c := 0; c < 3; c++ {
		wg.Add(1)
		go func(c int) {
			defer wg.Done()
			dom := make([]byte, 32)
			dom[0] = 7
			for i := 0; ; i++ {
				select {
				case <-done:
					return
				default:
				}
				if c < 2 {
					r.Lister.ListAccounts(r.Ctx, creds, []string{"Fresh", "Wallet 1"})
				} else {
					r.Signer.SignGeneric(r.Ctx, creds, fmt.Sprintf("Fresh/g%d", i%8), nil, &rules.SignData{Domain: dom, Data: pat(byte(i))})
				}
			}
		}(c)
	}
	generated := 0
	for i := 0; i < 24; i++ {
		if _, _, err := r.Process.OnGenerate(r.Ctx, creds, fmt.Sprintf("Fresh/g%d", i), []byte("pass"), 1, 1); err == nil {
			generated++
		}
	}
	close(done)
	wg.Wait()
	if generated == 0 {
		return fmt.Errorf("no account could be generated into the fresh wallet")
	}
	return nil
}

func init() {
	RaceBodies["C18"] = listRaceBodies
	RaceBodies["C20"] = listRaceBodies
}
