package checks

import (
	"encoding/json"
	"fmt"
	"os"
)

// Registry maps property ids to checks.
var Registry = map[string]func(tier string) int{
	"C01": C01,
}

// Replayers re-execute a recorded counterexample without the explorer.
var Replayers = map[string]func(replay json.RawMessage) int{}

// Replay loads a replay file and runs it.
func Replay(id, file string) int {
	b, err := os.ReadFile(file)
	if err != nil {
		fmt.Println(err)
		return 2
	}
	var v struct {
		Property string          `json:"property"`
		Key      string          `json:"key"`
		What     string          `json:"what"`
		Replay   json.RawMessage `json:"replay"`
	}
	if err := json.Unmarshal(b, &v); err != nil {
		fmt.Println(err)
		return 2
	}
	fmt.Printf("replaying %s: %s\n", v.Key, v.What)
	var rr struct {
		Race string `json:"race"`
	}
	if json.Unmarshal(v.Replay, &rr) == nil && rr.Race != "" {
		return replayRace(id, rr.Race)
	}
	f, ok := Replayers[id]
	if !ok {
		chk, ok := Registry[id]
		if !ok {
			fmt.Printf("no check %s\n", id)
			return 2
		}
		os.Setenv("VERIF_REPLAY_KEY", v.Key)
		return chk("quick")
	}
	return f(v.Replay)
}
