package checks

import (
	"context"
	"encoding/hex"
	"errors"
	"fmt"
	signerhandler "github.com/attestantio/dirk/services/api/grpc/handlers/signer"
	"github.com/attestantio/dirk/services/api/grpc/interceptors"
	"github.com/attestantio/dirk/services/signer"
	pb "github.com/wealdtech/eth2-signer-api/pb/v1"
	"sort"
	"strings"

	"verif/model"
	"verif/rig"

	"github.com/attestantio/dirk/core"
	"github.com/attestantio/dirk/rules"
	standardrules "github.com/attestantio/dirk/rules/standard"
	"github.com/attestantio/dirk/services/checker"
	"github.com/attestantio/dirk/util/verifhook"
	e2types "github.com/wealdtech/go-eth2-types/v2"
)

// Ent is one entry of a signing request.
type Ent struct {
	Key   int    `json:"key"`            // key role: 0 = A, 1 = B, ...
	ByKey bool   `json:"by_key"`         // address by public key instead of by name
	Pad   bool   `json:"pad,omitempty"`  // with ByKey: the public key followed by one extra byte (the account lookup uses the first 48 bytes)
	S     uint64 `json:"s"`              // source epoch (attestations)
	T     uint64 `json:"t"`              // target epoch (attestations)
	Slot  uint64 `json:"slot"`           // slot (proposals)
	PIdx  uint64 `json:"pidx,omitempty"` // proposer index (proposals)
	Root  int    `json:"root"`           // root variant (1, 2, ...): distinguishes "different data"
	Dom   int    `json:"dom"`            // 0: proper domain type, fork bytes A; 1: proper type, fork bytes B; 2: the other slashable type; 3: exit
}

// SOp is an operation against one signer instance.
type SOp struct {
	Kind string `json:"kind"` // "att" (single), "atts" (batch), "prop", "restart", "legacy-att", "legacy-prop"
	Ents []Ent  `json:"ents,omitempty"`
	// Fault "write": every write to the slashing-protection store fails while this request is served (reads work).
	// "read": every read of a record fails (writes work); "read-first" / "read-last": only the reads of the records of the
	// first / last entry's key.
	Fault string `json:"fault,omitempty"`
}

type sigFaultKey struct{}

// InstallSigFaults makes the store hooks honour SOp.Fault. The handler is process-wide; a request is recognised by
// the value its context carries, so workers running side by side do not disturb each other.
func InstallSigFaults() {
	verifhook.SetHandler(func(ctx context.Context, site string, args ...any) error {
		f, _ := ctx.Value(sigFaultKey{}).(string)
		if f == "write" && (site == "store.store" || site == "store.batchstore") {
			return errors.New("injected write failure")
		}
		if site == "store.fetch" && strings.HasPrefix(f, "read") {
			// "read": every record read fails while the request is served (writes work); "read:<hex of a public key>": only
			// the reads of that key's records.
			if f == "read" {
				return errors.New("injected read failure")
			}
			if len(args) > 0 {
				if k, ok := args[0].([]byte); ok && len(k) >= 48 && f == "read:"+hex.EncodeToString(k[:48]) {
					return errors.New("injected read failure")
				}
			}
		}
		return nil
	})
}

func (o SOp) String() string {
	var sb strings.Builder
	sb.WriteString(o.Kind)
	if o.Fault != "" {
		sb.WriteString("[store " + o.Fault + " fails]")
	}
	for _, e := range o.Ents {
		addr := "n"
		if e.ByKey {
			addr = "k"
		}
		if e.Pad {
			addr = "k+"
		}
		if o.Kind == "prop" || o.Kind == "legacy-prop" || o.Kind == "twin-prop" || strings.HasPrefix(o.Kind, "msign-prop") {
			fmt.Fprintf(&sb, " %c%s(slot=%d,r%d,d%d)", 'A'+e.Key, addr, e.Slot, e.Root, e.Dom)
		} else {
			fmt.Fprintf(&sb, " %c%s(%d->%d,r%d,d%d)", 'A'+e.Key, addr, e.S, e.T, e.Root, e.Dom)
		}
	}
	return sb.String()
}

// Released is a signature released by the instance.
type Released struct {
	Key  int
	Prop bool
	S, T uint64
	Slot uint64
	Root [32]byte // hash tree root of the signed object (oracle-computed)
	Step int
}

// KeyRec is the decoded store content for one key.
type KeyRec struct {
	AttPresent  bool
	AttS, AttT  int64
	AttRaw      string
	PropPresent bool
	PropSlot    int64
	PropRaw     string
}

// Trace is the result of executing a path.
type Trace struct {
	Obs      []string
	Released []Released
	Recs     []KeyRec
	// Problems found by the built-in signature oracle on the last step (C08-style).
	SigProblems []string
}

func pat(b byte) []byte {
	r := make([]byte, 32)
	for i := range r {
		r[i] = b
	}
	return r
}

// AttDomain returns the domain for variant d from the point of view of the attestation endpoint.
func AttDomain(d int) []byte {
	dom := make([]byte, 32)
	switch d {
	case 0:
		dom[0] = 1
	case 1:
		dom[0] = 1
		for i := 4; i < 32; i++ {
			dom[i] = 0xaa
		}
	case 2: // proposer type
	case 3:
		dom[0] = 4
	}
	return dom
}

// PropDomain returns the domain for variant d from the point of view of the proposal endpoint.
func PropDomain(d int) []byte {
	dom := make([]byte, 32)
	switch d {
	case 0:
	case 1:
		for i := 4; i < 32; i++ {
			dom[i] = 0xaa
		}
	case 2:
		dom[0] = 1
	case 3:
		dom[0] = 4
	}
	return dom
}

// AttData builds the request data for an entry.
func AttData(e Ent) *rules.SignBeaconAttestationData {
	return &rules.SignBeaconAttestationData{
		Domain:          AttDomain(e.Dom),
		Slot:            e.T * 32,
		CommitteeIndex:  3,
		BeaconBlockRoot: pat(byte(0x10 + e.Root)),
		Source:          &rules.Checkpoint{Epoch: e.S, Root: pat(0x55)},
		Target:          &rules.Checkpoint{Epoch: e.T, Root: pat(byte(0x20 + e.Root))},
	}
}

// AttRoot is the oracle's data root for the entry.
func AttRoot(e Ent) [32]byte {
	d := AttData(e)
	return model.AttestationDataRoot(d.Slot, d.CommitteeIndex, d.BeaconBlockRoot, d.Source.Epoch, d.Source.Root, d.Target.Epoch, d.Target.Root)
}

// PropData builds the request data for a proposal entry.
func PropData(e Ent) *rules.SignBeaconProposalData {
	return &rules.SignBeaconProposalData{
		Domain:        PropDomain(e.Dom),
		Slot:          e.Slot,
		ProposerIndex: e.PIdx,
		ParentRoot:    pat(0x31),
		StateRoot:     pat(0x32),
		BodyRoot:      pat(byte(0x40 + e.Root)),
	}
}

// PropRoot is the oracle's header root for the entry.
func PropRoot(e Ent) [32]byte {
	d := PropData(e)
	return model.HeaderRoot(d.Slot, d.ProposerIndex, d.ParentRoot, d.StateRoot, d.BodyRoot)
}

// SigWorker executes SOp paths on fresh keys of a shared real signer stack.
type SigWorker struct {
	Rig     *rig.SignerRig
	NKeys   int
	runs    int
	Recycle int
	Creds   *checker.Credentials
	// ViaHandler sends attestation batches through the gRPC signer handler instead of calling the signer service.
	ViaHandler bool
	handler    *signerhandler.Handler
	handlerOf  signer.Service
	// VerifyLast enables verification of the signatures released by the last operation.
	VerifyLast bool
	// RealBLS uses real BLS keys (slow: ~1.5 ms per signature here); otherwise symbolic keys are used and
	// the binding signature <-> (account, signing root) is decided by byte comparison.
	RealBLS bool
	// Pinned disables rig recycling (the caller owns the rig).
	Pinned bool
	// Accts are the accounts of the last Exec.
	Accts []*rig.Acct
}

// NewSigWorker builds a worker.
func NewSigWorker(nkeys int) (*SigWorker, error) {
	// The client is an administrator: what the generic endpoint refuses it refuses to administrators too.
	r, err := rig.NewSignerRig(rig.SignerOpts{AdminIPs: []string{"10.0.0.1"}})
	if err != nil {
		return nil, err
	}
	return &SigWorker{Rig: r, NKeys: nkeys, Recycle: 3000, Creds: &checker.Credentials{Client: rig.DefaultClient, RequestID: "r", IP: "10.0.0.1"}, VerifyLast: true}, nil
}

// NewSigWorkerOn builds a worker on a caller-provided storage directory (never recycled).
func NewSigWorkerOn(dir string, nkeys int) (*SigWorker, error) {
	r, err := rig.NewSignerRig(rig.SignerOpts{Dir: dir, AdminIPs: []string{"10.0.0.1"}})
	if err != nil {
		return nil, err
	}
	return &SigWorker{Rig: r, NKeys: nkeys, Recycle: 1 << 30, Pinned: true, Creds: &checker.Credentials{Client: rig.DefaultClient, RequestID: "r", IP: "10.0.0.1"}, VerifyLast: true}, nil
}

// Close releases the rig.
func (w *SigWorker) Close() { w.Rig.Close() }

func resLetter(r core.Result) string {
	switch r {
	case core.ResultSucceeded:
		return "S"
	case core.ResultDenied:
		return "D"
	case core.ResultFailed:
		return "F"
	default:
		return "U"
	}
}

// Exec replays path on fresh accounts and returns the trace.
func (w *SigWorker) Exec(path []SOp) (*Trace, error) {
	w.runs++
	if w.runs%w.Recycle == 0 && !w.Pinned {
		w.Rig.Close()
		r, err := rig.NewSignerRig(rig.SignerOpts{})
		if err != nil {
			return nil, err
		}
		w.Rig = r
	}
	accts := make([]*rig.Acct, w.NKeys)
	for i := range accts {
		if w.RealBLS {
			accts[i] = w.Rig.AddAccount("Wallet 1", "", "pass", true)
		} else {
			accts[i] = w.Rig.AddSymAccount("Wallet 1", "", "pass", true)
		}
	}
	w.Accts = accts
	tr := &Trace{}
	if err := w.Continue(tr, path, true); err != nil {
		return nil, err
	}
	return tr, nil
}

// Continue applies more operations to the accounts of the last Exec, appending to tr (records are re-read).
func (w *SigWorker) Continue(tr *Trace, path []SOp, verifyLast bool) error {
	accts := w.Accts
	base := len(tr.Obs)
	for i, op := range path {
		step := base + i
		last := verifyLast && i == len(path)-1
		ctx := w.Rig.Ctx
		if op.Fault != "" {
			f := op.Fault
			switch f {
			case "read-first":
				f = "read:" + hex.EncodeToString(accts[op.Ents[0].Key].PubBytes())
			case "read-last":
				f = "read:" + hex.EncodeToString(accts[op.Ents[len(op.Ents)-1].Key].PubBytes())
			}
			ctx = context.WithValue(ctx, sigFaultKey{}, f)
		}
		switch op.Kind {
		case "restart":
			if err := w.Rig.Restart(); err != nil {
				return err
			}
			tr.Obs = append(tr.Obs, "ok")
		case "twin-prop", "twin-att":
			// A second instance is started on the same storage directory while this one is running (an overlapping
			// restart, a double start) and is asked for the signature. It either refuses to start or, being Dirk too,
			// counts as Dirk releasing what its rules approve.
			e := op.Ents[0]
			a := accts[e.Key]
			ctx2, cancel2 := context.WithCancel(context.Background())
			rs2, err := standardrules.New(ctx2, standardrules.WithStoragePath(w.Rig.Dir))
			if err != nil {
				cancel2()
				tr.Obs = append(tr.Obs, "no-second-instance")
				break
			}
			md := &rules.ReqMetadata{Account: "Wallet 1/" + a.Name(), PubKey: a.PubBytes(), IP: "10.0.0.1", Client: rig.DefaultClient}
			var res rules.Result
			if op.Kind == "twin-prop" {
				res = rs2.OnSignBeaconProposal(ctx, md, PropData(e))
				if res == rules.APPROVED {
					tr.Released = append(tr.Released, Released{Key: e.Key, Prop: true, Slot: e.Slot, Root: PropRoot(e), Step: step})
				}
			} else {
				res = rs2.OnSignBeaconAttestation(ctx, md, AttData(e))
				if res == rules.APPROVED {
					tr.Released = append(tr.Released, Released{Key: e.Key, S: e.S, T: e.T, Root: AttRoot(e), Step: step})
				}
			}
			_ = rs2.Close(context.Background())
			cancel2()
			if res == rules.APPROVED {
				tr.Obs = append(tr.Obs, "S2")
			} else {
				tr.Obs = append(tr.Obs, "D2")
			}
		case "legacy-att", "legacy-prop":
			// The key's history starts in an older release: the store holds a record in the old (gob) format, which
			// stands for a signature released back then.
			e := op.Ents[0]
			a := accts[e.Key]
			var legacyRoot [32]byte
			for j := range legacyRoot {
				legacyRoot[j] = 0xee
			}
			if op.Kind == "legacy-att" {
				if err := w.Rig.Rules.VerifRawPut(w.Rig.Ctx, append(a.PubBytes(), 0x02), gobBytes(legacyAtt{int64(e.S), int64(e.T)})); err != nil {
					return err
				}
				tr.Released = append(tr.Released, Released{Key: e.Key, S: e.S, T: e.T, Root: legacyRoot, Step: step})
			} else {
				if err := w.Rig.Rules.VerifRawPut(w.Rig.Ctx, append(a.PubBytes(), 0x03), gobBytes(legacyProp{int64(e.Slot)})); err != nil {
					return err
				}
				tr.Released = append(tr.Released, Released{Key: e.Key, Prop: true, Slot: e.Slot, Root: legacyRoot, Step: step})
			}
			tr.Obs = append(tr.Obs, "ok")
		case "att":
			e := op.Ents[0]
			a := accts[e.Key]
			var name string
			var pk []byte
			if e.ByKey {
				pk = a.PubBytes()
				if e.Pad {
					pk = append(pk, 0x00)
				}
			} else {
				name = "Wallet 1/" + a.Name()
			}
			res, sig := w.Rig.Signer.SignBeaconAttestation(ctx, w.Creds, name, pk, AttData(e))
			tr.Obs = append(tr.Obs, resLetter(res))
			w.noteAtt(tr, step, last, e, a, res, sig)
		case "atts":
			names := make([]string, len(op.Ents))
			pks := make([][]byte, len(op.Ents))
			data := make([]*rules.SignBeaconAttestationData, len(op.Ents))
			for i, e := range op.Ents {
				a := accts[e.Key]
				if e.ByKey {
					pks[i] = a.PubBytes()
					if e.Pad {
						pks[i] = append(pks[i], 0x00)
					}
				} else {
					names[i] = "Wallet 1/" + a.Name()
				}
				data[i] = AttData(e)
			}
			var ress []core.Result
			var sigs [][]byte
			if w.ViaHandler {
				// Through the gRPC handler, as a client's batch arrives.
				if w.handler == nil || w.handlerOf != w.Rig.Signer {
					h, err := signerhandler.New(w.Rig.Ctx, signerhandler.WithSigner(w.Rig.Signer))
					if err != nil {
						return err
					}
					w.handler, w.handlerOf = h, w.Rig.Signer
				}
				req := &pb.SignBeaconAttestationsRequest{}
				for i, d := range data {
					req.Requests = append(req.Requests, mkAttReq(names[i], pks[i], d.Domain, &pb.AttestationData{Slot: d.Slot, CommitteeIndex: d.CommitteeIndex, BeaconBlockRoot: d.BeaconBlockRoot,
						Source: &pb.Checkpoint{Epoch: d.Source.Epoch, Root: d.Source.Root}, Target: &pb.Checkpoint{Epoch: d.Target.Epoch, Root: d.Target.Root}}))
				}
				res, err := w.handler.SignBeaconAttestations(context.WithValue(ctx, &interceptors.ClientName{}, w.Creds.Client), req)
				if err != nil {
					return err
				}
				for _, x := range res.GetResponses() {
					ress = append(ress, stateToResult(x.GetState()))
					sigs = append(sigs, x.GetSignature())
				}
			} else {
				ress, sigs = w.Rig.Signer.SignBeaconAttestations(ctx, w.Creds, names, pks, data)
			}
			var sb strings.Builder
			for i := range op.Ents {
				var res core.Result = core.ResultUnknown
				if i < len(ress) {
					res = ress[i]
				}
				var sig []byte
				if i < len(sigs) {
					sig = sigs[i]
				}
				sb.WriteString(resLetter(res))
				w.noteAtt(tr, step, last, op.Ents[i], accts[op.Ents[i].Key], res, sig)
			}
			if len(ress) != len(op.Ents) {
				fmt.Fprintf(&sb, "/len=%d", len(ress))
			}
			tr.Obs = append(tr.Obs, sb.String())
		case "prop":
			e := op.Ents[0]
			a := accts[e.Key]
			var name string
			var pk []byte
			if e.ByKey {
				pk = a.PubBytes()
				if e.Pad {
					pk = append(pk, 0x00)
				}
			} else {
				name = "Wallet 1/" + a.Name()
			}
			res, sig := w.Rig.Signer.SignBeaconProposal(ctx, w.Creds, name, pk, PropData(e))
			tr.Obs = append(tr.Obs, resLetter(res))
			if len(sig) > 0 {
				root := PropRoot(e)
				tr.Released = append(tr.Released, Released{Key: e.Key, Prop: true, Slot: e.Slot, Root: root, Step: step})
				if last && w.VerifyLast {
					w.verify(tr, a, sig, model.SigningRoot(root, PropDomain(e.Dom)), op.String())
				}
			}
			if (len(sig) > 0) != (res == core.ResultSucceeded) {
				tr.SigProblems = append(tr.SigProblems, fmt.Sprintf("signature presence %v with result %s for %s", len(sig) > 0, resLetter(res), op))
			}
		case "msign-prop-first", "msign-prop-last", "msign-att-first", "msign-att-last", "msign-prop-split36", "msign-prop-split28", "msign-att-split36", "msign-att-split28":
			// The slashable object travels through the generic batch endpoint: Ents[0] under its slashable domain type
			// (the data field holds the header root or the attestation data root), beside an ordinary generic entry for
			// the account Ents[1].Key. A signature that is valid for the slashable object counts as a release of it.
			e := op.Ents[0]
			a, comp := accts[e.Key], accts[op.Ents[1].Key]
			var root [32]byte
			var dom []byte
			isProp := strings.HasPrefix(op.Kind, "msign-prop")
			if isProp {
				root, dom = PropRoot(e), PropDomain(e.Dom)
			} else {
				root, dom = AttRoot(e), AttDomain(e.Dom)
			}
			benign := make([]byte, 32)
			benign[0] = 7
			names := []string{"Wallet 1/" + a.Name(), "Wallet 1/" + comp.Name()}
			data := []*rules.SignData{{Domain: dom, Data: root[:]}, {Domain: benign, Data: pat(0x66)}}
			if strings.Contains(op.Kind, "-split") {
				// The same 64 bytes (object root, then domain) cut elsewhere than after byte 32: whatever looks at the
				// first bytes of the domain field then sees something else than the domain type.
				var cut int
				fmt.Sscanf(op.Kind[strings.Index(op.Kind, "-split")+6:], "%d", &cut)
				whole := append(append([]byte{}, root[:]...), dom...)
				data[0] = &rules.SignData{Domain: whole[cut:], Data: whole[:cut]}
			}
			if strings.HasSuffix(op.Kind, "-last") {
				names[0], names[1] = names[1], names[0]
				data[0], data[1] = data[1], data[0]
			}
			ress, sigs := w.Rig.Signer.Multisign(ctx, w.Creds, names, nil, data)
			var letters []string
			for _, r := range ress {
				letters = append(letters, resLetter(r))
			}
			tr.Obs = append(tr.Obs, strings.Join(letters, ""))
			sroot := model.SigningRoot(root, dom)
			for i := range sigs {
				// (wherever in the response it appears)
				if len(sigs[i]) > 0 && string(sigs[i]) == string(rig.SymSigBytes(a.PubBytes(), sroot[:])) {
					if isProp {
						tr.Released = append(tr.Released, Released{Key: e.Key, Prop: true, Slot: e.Slot, Root: root, Step: step})
					} else {
						tr.Released = append(tr.Released, Released{Key: e.Key, S: e.S, T: e.T, Root: root, Step: step})
					}
				}
			}
		default:
			return fmt.Errorf("unknown op kind %q", op.Kind)
		}
	}
	tr.Recs = tr.Recs[:0]
	for _, a := range accts {
		var kr KeyRec
		var raw []byte
		kr.AttPresent, kr.AttS, kr.AttT, raw = w.Rig.AttRecord(a.PubBytes())
		kr.AttRaw = hex.EncodeToString(raw)
		kr.PropPresent, kr.PropSlot, raw = w.Rig.PropRecord(a.PubBytes())
		kr.PropRaw = hex.EncodeToString(raw)
		tr.Recs = append(tr.Recs, kr)
	}
	return nil
}

func (w *SigWorker) noteAtt(tr *Trace, step int, last bool, e Ent, a *rig.Acct, res core.Result, sig []byte) {
	if len(sig) > 0 {
		root := AttRoot(e)
		tr.Released = append(tr.Released, Released{Key: e.Key, S: e.S, T: e.T, Root: root, Step: step})
		if last && w.VerifyLast {
			w.verify(tr, a, sig, model.SigningRoot(root, AttDomain(e.Dom)), fmt.Sprintf("att %+v", e))
		}
	}
	if (len(sig) > 0) != (res == core.ResultSucceeded) {
		tr.SigProblems = append(tr.SigProblems, fmt.Sprintf("signature presence %v with result %s for %+v", len(sig) > 0, resLetter(res), e))
	}
}

func (w *SigWorker) verify(tr *Trace, a *rig.Acct, sig []byte, root [32]byte, what string) {
	if a.IsSym() {
		if string(sig) != string(rig.SymSigBytes(a.PubBytes(), root[:])) {
			tr.SigProblems = append(tr.SigProblems, "signature is not the addressed account's signature over the requested signing root for "+what)
		}
		return
	}
	s, err := e2types.BLSSignatureFromBytes(sig)
	if err != nil {
		tr.SigProblems = append(tr.SigProblems, "undecodable signature for "+what)
		return
	}
	if !s.Verify(root[:], a.PublicKey()) {
		tr.SigProblems = append(tr.SigProblems, "signature does not verify for "+what)
	}
}

// CanonRecs renders the records canonically.
func CanonRecs(recs []KeyRec, keys ...int) string {
	var sb strings.Builder
	for _, k := range keys {
		r := recs[k]
		fmt.Fprintf(&sb, "%c[att:%v:%s prop:%v:%s]", 'A'+k, r.AttPresent, r.AttRaw, r.PropPresent, r.PropRaw)
	}
	return sb.String()
}

// CanonReleased renders the released set canonically (order-insensitive) for the given keys.
func CanonReleased(rel []Released, keys ...int) string {
	in := map[int]bool{}
	for _, k := range keys {
		in[k] = true
	}
	var l []string
	for _, r := range rel {
		if !in[r.Key] {
			continue
		}
		if r.Prop {
			l = append(l, fmt.Sprintf("%c:p:%d:%x", 'A'+r.Key, r.Slot, r.Root[:4]))
		} else {
			l = append(l, fmt.Sprintf("%c:a:%d:%d:%x", 'A'+r.Key, r.S, r.T, r.Root[:4]))
		}
	}
	sort.Strings(l)
	return strings.Join(l, ",")
}

// CanonPropMax renders, per key, the highest released proposal slot (all the proposal monitor needs:
// a later release at or below it is a violation, detected on the transition that makes it).
func CanonPropMax(rel []Released, keys ...int) string {
	var sb strings.Builder
	for _, k := range keys {
		has, mx := false, uint64(0)
		var atts []Released
		for _, r := range rel {
			if r.Key != k {
				continue
			}
			if r.Prop {
				if !has || r.Slot > mx {
					has, mx = true, r.Slot
				}
			} else {
				atts = append(atts, r)
			}
		}
		fmt.Fprintf(&sb, "%c:maxprop=%v:%d;%s;", 'A'+k, has, mx, CanonReleased(atts, k))
	}
	return sb.String()
}

// CanonRoutes is the part of a state that no record shows: by which routes (single request, batch, generic batch, second
// instance, ...) signatures were released for each key since the process last started, and by which route last. States
// that agree in their records but were reached by different routes are kept apart, so that whatever an implementation
// remembers per route (a cache that one path fills and another reads) cannot hide behind state matching.
func CanonRoutes(path []SOp, rel []Released, keys ...int) string {
	since := 0
	for i, o := range path {
		if o.Kind == "restart" {
			since = i
		}
	}
	var sb strings.Builder
	for _, k := range keys {
		set := map[string]bool{}
		last := ""
		for _, r := range rel {
			if r.Key != k || r.Step < since || r.Step >= len(path) {
				continue
			}
			kind := path[r.Step].Kind
			if kind == "atts" && len(path[r.Step].Ents) == 1 {
				kind = "atts1"
			}
			set[kind] = true
			last = kind
		}
		var l []string
		for kind := range set {
			l = append(l, kind)
		}
		sort.Strings(l)
		fmt.Fprintf(&sb, "%c{%s;last=%s}", 'A'+k, strings.Join(l, ","), last)
	}
	return sb.String()
}
