// Command genoverlay writes a `go build -overlay` file that (1) adds the virtual package
// github.com/attestantio/dirk/util/verifsync to /repo and (2) replaces every non-test file of
// services/locker/syncmap, services/process/standard and services/fetcher/mem that imports "sync" by a copy whose import is redirected to the shim.
// It is regenerated from the current working tree on every check, so edits to the locker flow through.
package main

import (
	"bytes"
	"encoding/json"
	"fmt"
	"go/ast"
	"go/parser"
	"go/printer"
	"go/token"
	"os"
	"path/filepath"
	"strconv"
	"strings"
)

func main() {
	repo, shimSrc, outDir := os.Args[1], os.Args[2], os.Args[3]
	pkgs := []string{"services/locker/syncmap", "services/process/standard", "services/fetcher/mem"}
	replace := map[string]string{}
	replace[filepath.Join(repo, "util/verifsync/sync.go")] = shimSrc
	if err := os.MkdirAll(outDir, 0o755); err != nil {
		fail(err)
	}
	rewritten := 0
	for _, pkg := range pkgs {
		files, err := filepath.Glob(filepath.Join(repo, pkg, "*.go"))
		if err != nil {
			fail(err)
		}
		for _, f := range files {
			if strings.HasSuffix(f, "_test.go") {
				continue
			}
			fset := token.NewFileSet()
			af, err := parser.ParseFile(fset, f, nil, parser.ParseComments)
			if err != nil {
				fail(err)
			}
			changed := false
			for _, imp := range af.Imports {
				p, _ := strconv.Unquote(imp.Path.Value)
				if p == "sync" {
					if imp.Name != nil && imp.Name.Name != "sync" {
						// Keep the author's alias.
					} else {
						imp.Name = ast.NewIdent("sync")
					}
					imp.Path.Value = strconv.Quote("github.com/attestantio/dirk/util/verifsync")
					changed = true
				}
			}
			if !changed {
				continue
			}
			var buf bytes.Buffer
			if err := printer.Fprint(&buf, fset, af); err != nil {
				fail(err)
			}
			out := filepath.Join(outDir, strings.ReplaceAll(pkg, "/", "_")+"_"+filepath.Base(f))
			if err := os.WriteFile(out, buf.Bytes(), 0o644); err != nil {
				fail(err)
			}
			replace[f] = out
			rewritten++
		}
	}
	if rewritten == 0 {
		fail(fmt.Errorf("no file of %v imports sync; the locker is not under scheduler control", pkgs))
	}
	b, _ := json.MarshalIndent(map[string]any{"Replace": replace}, "", " ")
	ov := filepath.Join(outDir, "overlay.json")
	if err := os.WriteFile(ov, b, 0o644); err != nil {
		fail(err)
	}
	fmt.Println(ov)
}

func fail(err error) {
	fmt.Fprintln(os.Stderr, "genoverlay:", err)
	os.Exit(1)
}
