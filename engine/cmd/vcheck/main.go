// Command vcheck runs one property check.
package main

import (
	"fmt"
	"os"

	"verif/checks"
)

func main() {
	if len(os.Args) < 3 {
		fmt.Fprintln(os.Stderr, "usage: vcheck <ID> <quick|thorough> [--replay file]")
		os.Exit(2)
	}
	id, tier := os.Args[1], os.Args[2]
	if len(os.Args) >= 5 && os.Args[3] == "--replay" {
		os.Exit(checks.Replay(id, os.Args[4]))
	}
	if tier == "race-child" {
		os.Exit(checks.RunRaceChild(id))
	}
	f, ok := checks.Registry[id]
	if !ok {
		fmt.Fprintf(os.Stderr, "unknown check %s\n", id)
		os.Exit(2)
	}
	os.Exit(f(tier))
}
