// Package crash turns a system-call trace of a process into the set of storage-directory images a power loss
// could leave behind (persistence model M-ord), for recovery by the real code.
//
// M-ord: metadata operations (create, rename, unlink, truncate, mkdir) persist in program order; a write to a
// descriptor opened O_SYNC/O_DSYNC is durable when the call returns and may be absent, complete or torn while in
// flight; a write to any other descriptor is volatile until an fsync/fdatasync of that file returns.
package crash

import (
	"bufio"
	"bytes"
	"fmt"
	"os"
	"os/exec"
	"path/filepath"
	"regexp"
	"sort"
	"strconv"
	"strings"
)

// HaveStrace reports whether strace is usable.
func HaveStrace() bool {
	_, err := exec.LookPath("strace")
	return err == nil
}

const traceSet = "openat,open,creat,read,pread64,lseek,write,pwrite64,writev,pwritev,ftruncate,truncate,rename,renameat,renameat2,unlink,unlinkat,fsync,fdatasync,sync_file_range,fallocate,mkdir,mkdirat,mmap,msync,close,link,linkat,dup,dup2,dup3"

// Trace runs the command under strace and writes the trace to out.
func Trace(out string, env []string, exe string, args ...string) error {
	a := append([]string{"-f", "-y", "-xx", "-s", "1048576", "-e", "trace=" + traceSet, "-o", out, exe}, args...)
	cmd := exec.Command("strace", a...)
	cmd.Env = env
	var se bytes.Buffer
	cmd.Stderr = &se
	cmd.Stdout = nil
	if err := cmd.Run(); err != nil {
		return fmt.Errorf("strace: %v: %s", err, se.String())
	}
	return nil
}

// Variant is one way volatile or in-flight writes can be lost.
type Variant struct {
	Kind string
	Desc string
	// lost holds indices (into T.ops) of volatile writes that did not reach the medium.
	lost map[int]bool
	// torn: the in-flight synchronous write at the crash point is cut to this many bytes (-1: absent).
	torn int
	// damage: index+1 of a completed write whose bytes are garbled on the medium (0: none).
	damage int
}

type op struct {
	line   int
	kind   string // mkdir, create, trunc, write, rename, unlink, fsync, marker, other
	path   string
	path2  string
	off    int64
	data   []byte
	length int64
	sync   bool // write through an O_SYNC/O_DSYNC descriptor
	text   string
}

// T is a parsed trace.
type T struct {
	dir string
	ops []op
}

var retRe = regexp.MustCompile(`\)\s+= `)

var hexEsc = regexp.MustCompile(`\\x([0-9a-fA-F]{2})`)

func decodeHex(s string) []byte {
	out := make([]byte, 0, len(s)/4)
	for i := 0; i < len(s); {
		if s[i] == '\\' && i+3 < len(s) && s[i+1] == 'x' {
			v, err := strconv.ParseUint(s[i+2:i+4], 16, 8)
			if err == nil {
				out = append(out, byte(v))
				i += 4
				continue
			}
		}
		out = append(out, s[i])
		i++
	}
	return out
}

func decodeStr(s string) string { return string(decodeHex(s)) }

type fdState struct {
	path   string
	off    int64
	sync   bool
	append bool
}

// splitArgs splits a syscall argument list at top-level commas (strings and <...> annotations are atomic).
func splitArgs(s string) []string {
	var args []string
	depth := 0
	inStr := false
	start := 0
	for i := 0; i < len(s); i++ {
		c := s[i]
		switch {
		case inStr:
			if c == '\\' {
				i++
			} else if c == '"' {
				inStr = false
			}
		case c == '"':
			inStr = true
		case c == '<' || c == '(' || c == '[' || c == '{':
			depth++
		case c == '>' || c == ')' || c == ']' || c == '}':
			depth--
		case c == ',' && depth == 0:
			args = append(args, strings.TrimSpace(s[start:i]))
			start = i + 1
		}
	}
	if start < len(s) {
		args = append(args, strings.TrimSpace(s[start:]))
	}
	return args
}

var fdArg = regexp.MustCompile(`^(-?\d+|AT_FDCWD)(?:<(.*)>)?$`)

func parseFD(a string) (int, string) {
	m := fdArg.FindStringSubmatch(a)
	if m == nil {
		return -1, ""
	}
	n, err := strconv.Atoi(m[1])
	if err != nil {
		n = -100
	}
	return n, decodeStr(m[2])
}

func unquote(a string) string {
	a = strings.TrimSpace(a)
	a = strings.TrimSuffix(a, "...")
	if len(a) >= 2 && a[0] == '"' && a[len(a)-1] == '"' {
		return a[1 : len(a)-1]
	}
	return a
}

// Parse reads a trace and keeps the operations on the storage directory and the marker lines written to fd 1.
func Parse(file, dir string) (*T, error) {
	f, err := os.Open(file)
	if err != nil {
		return nil, err
	}
	defer f.Close()
	t := &T{dir: filepath.Clean(dir)}
	sc := bufio.NewScanner(f)
	sc.Buffer(make([]byte, 1<<20), 1<<28)
	pending := map[string]string{} // pid -> unfinished prefix
	lineRe := regexp.MustCompile(`^(\d+)\s+(.*)$`)
	resumed := regexp.MustCompile(`^<\.\.\. (\w+) resumed>\s?(.*)$`)
	fds := map[int]*fdState{}
	under := func(p string) bool {
		p = filepath.Clean(p)
		return p == t.dir || strings.HasPrefix(p, t.dir+"/")
	}
	ln := 0
	for sc.Scan() {
		ln++
		m := lineRe.FindStringSubmatch(sc.Text())
		if m == nil {
			continue
		}
		pid, rest := m[1], m[2]
		if strings.HasSuffix(rest, "<unfinished ...>") {
			pending[pid] = strings.TrimSuffix(rest, "<unfinished ...>")
			continue
		}
		if r := resumed.FindStringSubmatch(rest); r != nil {
			rest = pending[pid] + r[2]
			delete(pending, pid)
		}
		if strings.HasPrefix(rest, "+++") || strings.HasPrefix(rest, "---") {
			continue
		}
		open := strings.Index(rest, "(")
		locs := retRe.FindAllStringIndex(rest, -1)
		if open < 0 || len(locs) == 0 {
			continue
		}
		eq := locs[len(locs)-1]
		name := rest[:open]
		args := splitArgs(strings.TrimSpace(rest[open+1 : eq[0]]))
		retStr := strings.Fields(rest[eq[1]:])
		if len(retStr) == 0 {
			continue
		}
		retFD, retPath := parseFD(retStr[0])
		ret, rerr := strconv.ParseInt(strings.Split(retStr[0], "<")[0], 0, 64)
		failed := rerr != nil || ret < 0
		if name != "mmap" && failed {
			continue
		}
		add := func(o op) {
			o.line = ln
			o.text = name
			t.ops = append(t.ops, o)
		}
		switch name {
		case "mkdir", "mkdirat":
			p := decodeStr(unquote(args[len(args)-2]))
			if under(p) {
				add(op{kind: "mkdir", path: filepath.Clean(p)})
			}
		case "openat", "open", "creat":
			pi := 0
			if name == "openat" {
				pi = 1
			}
			p := decodeStr(unquote(args[pi]))
			flags := ""
			if len(args) > pi+1 {
				flags = args[pi+1]
			}
			if name == "creat" {
				flags = "O_CREAT|O_WRONLY|O_TRUNC"
			}
			_ = retPath
			st := &fdState{path: filepath.Clean(p), sync: strings.Contains(flags, "O_SYNC") || strings.Contains(flags, "O_DSYNC"), append: strings.Contains(flags, "O_APPEND")}
			fds[retFD] = st
			if !under(p) {
				continue
			}
			if strings.Contains(flags, "O_CREAT") {
				add(op{kind: "create", path: st.path})
			}
			if strings.Contains(flags, "O_TRUNC") {
				add(op{kind: "trunc", path: st.path, length: 0})
			}
		case "close":
			n, _ := parseFD(args[0])
			delete(fds, n)
		case "dup", "dup2", "dup3":
			n, _ := parseFD(args[0])
			if st, ok := fds[n]; ok {
				fds[retFD] = st
			}
		case "read":
			n, _ := parseFD(args[0])
			if st, ok := fds[n]; ok {
				st.off += ret
			}
		case "lseek":
			n, _ := parseFD(args[0])
			if st, ok := fds[n]; ok {
				st.off = ret
			}
		case "write":
			n, p := parseFD(args[0])
			data := decodeHex(unquote(args[1]))
			if int64(len(data)) > ret {
				data = data[:ret]
			}
			if n == 1 {
				for _, l := range strings.Split(strings.TrimSpace(string(data)), "\n") {
					add(op{kind: "marker", data: []byte(l)})
				}
				continue
			}
			st, ok := fds[n]
			if !ok {
				st = &fdState{path: filepath.Clean(p)}
				fds[n] = st
			}
			if !under(st.path) {
				continue
			}
			if int64(len(data)) != ret {
				return nil, fmt.Errorf("line %d: write of %d bytes but only %d captured (raise strace -s)", ln, ret, len(data))
			}
			if st.append {
				add(op{kind: "write", path: st.path, off: -1, data: data, sync: st.sync})
			} else {
				add(op{kind: "write", path: st.path, off: st.off, data: data, sync: st.sync})
				st.off += ret
			}
		case "pwrite64":
			n, p := parseFD(args[0])
			st, ok := fds[n]
			if !ok {
				st = &fdState{path: filepath.Clean(p)}
			}
			if !under(st.path) {
				continue
			}
			data := decodeHex(unquote(args[1]))
			off, _ := strconv.ParseInt(args[3], 0, 64)
			if int64(len(data)) != ret {
				return nil, fmt.Errorf("line %d: pwrite of %d bytes but %d captured", ln, ret, len(data))
			}
			add(op{kind: "write", path: st.path, off: off, data: data, sync: st.sync})
		case "writev", "pwritev", "fallocate", "sync_file_range", "link", "linkat", "truncate":
			for _, a := range args {
				if _, p := parseFD(a); p != "" && under(p) {
					return nil, fmt.Errorf("line %d: %s on the storage directory is not modelled", ln, name)
				}
				if strings.HasPrefix(a, "\"") && under(decodeStr(unquote(a))) {
					return nil, fmt.Errorf("line %d: %s on the storage directory is not modelled", ln, name)
				}
			}
		case "mmap":
			if len(args) >= 5 {
				if _, p := parseFD(args[4]); p != "" && under(p) && strings.Contains(args[2], "PROT_WRITE") && strings.Contains(args[3], "MAP_SHARED") {
					return nil, fmt.Errorf("line %d: writable shared mapping of %s is not modelled", ln, p)
				}
			}
		case "ftruncate":
			n, p := parseFD(args[0])
			st, ok := fds[n]
			if !ok {
				st = &fdState{path: filepath.Clean(p)}
			}
			if under(st.path) {
				l, _ := strconv.ParseInt(args[1], 0, 64)
				add(op{kind: "trunc", path: st.path, length: l})
			}
		case "rename", "renameat", "renameat2":
			var a, b string
			if name == "rename" {
				a, b = decodeStr(unquote(args[0])), decodeStr(unquote(args[1]))
			} else {
				a, b = decodeStr(unquote(args[1])), decodeStr(unquote(args[3]))
			}
			if under(a) || under(b) {
				add(op{kind: "rename", path: filepath.Clean(a), path2: filepath.Clean(b)})
				for _, st := range fds {
					if st.path == filepath.Clean(a) {
						st.path = filepath.Clean(b)
					}
				}
			}
		case "unlink", "unlinkat":
			p := decodeStr(unquote(args[len(args)-1]))
			if name == "unlinkat" {
				p = decodeStr(unquote(args[1]))
			}
			if under(p) {
				add(op{kind: "unlink", path: filepath.Clean(p)})
			}
		case "fsync", "fdatasync":
			n, p := parseFD(args[0])
			st, ok := fds[n]
			if !ok {
				st = &fdState{path: filepath.Clean(p)}
			}
			if under(st.path) {
				add(op{kind: "fsync", path: st.path})
			}
		}
	}
	if err := sc.Err(); err != nil {
		return nil, err
	}
	return t, nil
}

type fileImg struct {
	data []byte
}

// build replays ops[0:cp) and returns the files; volatile writes listed in v.lost are skipped; if v.torn >= 0 the
// operation at cp (an in-flight synchronous write) is applied cut to v.torn bytes.
func (t *T) build(cp int, v Variant) map[string]*fileImg {
	files := map[string]*fileImg{}
	dirs := map[string]bool{}
	apply := func(i int, o op, cut int) {
		switch o.kind {
		case "mkdir":
			dirs[o.path] = true
		case "create":
			if _, ok := files[o.path]; !ok {
				files[o.path] = &fileImg{}
			}
		case "trunc":
			f, ok := files[o.path]
			if !ok {
				f = &fileImg{}
				files[o.path] = f
			}
			if int64(len(f.data)) > o.length {
				f.data = f.data[:o.length]
			} else if o.length < 1<<26 {
				f.data = append(f.data, make([]byte, o.length-int64(len(f.data)))...)
			}
		case "write":
			if v.lost[i] {
				return
			}
			f, ok := files[o.path]
			if !ok {
				f = &fileImg{}
				files[o.path] = f
			}
			data := o.data
			if cut >= 0 && cut < len(data) {
				data = data[:cut]
			}
			if v.damage == i+1 {
				data = append([]byte{}, data...)
				for k := len(data) / 2; k < len(data)/2+4 && k < len(data); k++ {
					data[k] ^= 0xa5
				}
			}
			off := o.off
			if off < 0 {
				off = int64(len(f.data))
			}
			if end := off + int64(len(data)); end > int64(len(f.data)) {
				f.data = append(f.data, make([]byte, end-int64(len(f.data)))...)
			}
			copy(f.data[off:], data)
		case "rename":
			if f, ok := files[o.path]; ok {
				files[o.path2] = f
				delete(files, o.path)
			}
		case "unlink":
			delete(files, o.path)
		}
	}
	for i := 0; i < cp && i < len(t.ops); i++ {
		apply(i, t.ops[i], -1)
	}
	if v.torn > 0 && cp < len(t.ops) {
		apply(cp, t.ops[cp], v.torn)
	}
	return files
}

// volatileAt lists the indices of writes before cp that are not yet durable at cp.
func (t *T) volatileAt(cp int) []int {
	var vol []int
	cur := map[int]string{} // current path of the file each pending write went to
	for i := 0; i < cp && i < len(t.ops); i++ {
		o := t.ops[i]
		switch o.kind {
		case "write":
			if !o.sync {
				vol = append(vol, i)
				cur[i] = o.path
			}
		case "fsync":
			var keep []int
			for _, j := range vol {
				if cur[j] != o.path {
					keep = append(keep, j)
				}
			}
			vol = keep
		case "rename":
			for _, j := range vol {
				if cur[j] == o.path {
					cur[j] = o.path2
				}
			}
		case "unlink":
			var keep []int
			for _, j := range vol {
				if cur[j] != o.path {
					keep = append(keep, j)
				}
			}
			vol = keep
		}
	}
	return vol
}

// CrashPoints returns the indices k such that "ops[0:k) completed, ops[k] in flight" is a distinct crash state.
func (t *T) CrashPoints() []int {
	pts := []int{0}
	for i := range t.ops {
		pts = append(pts, i+1)
	}
	return pts
}

// MarkersBefore returns the marker lines written before the crash point.
func (t *T) MarkersBefore(cp int) []string {
	var l []string
	for i := 0; i < cp && i < len(t.ops); i++ {
		if t.ops[i].kind == "marker" {
			l = append(l, string(t.ops[i].data))
		}
	}
	return l
}

// Variants enumerates the loss patterns allowed at a crash point.
func (t *T) Variants(cp int, deep bool) []Variant {
	vs := []Variant{{Kind: "nothing-lost", Desc: "all completed writes on the medium", torn: -1}}
	vol := t.volatileAt(cp)
	// Writes to the lock file never matter; ignore them in the enumeration bound but still drop them in "all".
	if len(vol) > 0 {
		all := map[int]bool{}
		for _, j := range vol {
			all[j] = true
		}
		vs = append(vs, Variant{Kind: "all-volatile-lost", Desc: fmt.Sprintf("all %d unsynced writes lost", len(vol)), lost: all, torn: -1})
		limit := 10
		if deep {
			limit = 40
		}
		if len(vol) <= limit {
			for _, j := range vol {
				vs = append(vs, Variant{Kind: "one-volatile-lost", Desc: fmt.Sprintf("unsynced write #%d to %s lost", j, filepath.Base(t.ops[j].path)), lost: map[int]bool{j: true}, torn: -1})
			}
		}
		for s := 1; s < len(vol) && s < limit; s++ {
			suf := map[int]bool{}
			for _, j := range vol[s:] {
				suf[j] = true
			}
			vs = append(vs, Variant{Kind: "volatile-suffix-lost", Desc: fmt.Sprintf("the last %d unsynced writes lost", len(vol)-s), lost: suf, torn: -1})
		}
	}
	if cp < len(t.ops) && t.ops[cp].kind == "write" {
		n := len(t.ops[cp].data)
		cuts := map[int]bool{1: true, n / 2: true, n - 1: true}
		for c := 512; c < n; c += 512 {
			cuts[c] = true
		}
		if deep {
			for c := 1; c < n && c < 64; c++ {
				cuts[c] = true
			}
			for c := n - 32; c < n; c++ {
				cuts[c] = true
			}
		}
		var cl []int
		for c := range cuts {
			if c > 0 && c < n {
				cl = append(cl, c)
			}
		}
		sort.Ints(cl)
		for _, c := range cl {
			vs = append(vs, Variant{Kind: "torn-in-flight-write", Desc: fmt.Sprintf("in-flight write of %d bytes to %s cut after %d bytes", n, filepath.Base(t.ops[cp].path), c), torn: c})
		}
	}
	return vs
}

// DamageVariants: for the image at cp with nothing lost, one variant per completed write of at least 16 bytes to a file
// with the given suffix, in which four bytes in the middle of that write are garbled (a damaged block on the medium).
func (t *T) DamageVariants(cp int, suffix string) []Variant {
	var vs []Variant
	for i := 0; i < cp && i < len(t.ops); i++ {
		o := t.ops[i]
		if o.kind == "write" && strings.HasSuffix(o.path, suffix) && len(o.data) >= 16 {
			vs = append(vs, Variant{Kind: "damaged-block", Desc: fmt.Sprintf("the %d bytes written to %s by system call #%d are damaged on the medium", len(o.data), filepath.Base(o.path), i), torn: -1, damage: i + 1})
		}
	}
	return vs
}

// Materialise writes the image for (cp, variant) into dir.
func (t *T) Materialise(cp int, v Variant, dir string) error {
	files := t.build(cp, v)
	if err := os.MkdirAll(dir, 0o700); err != nil {
		return err
	}
	for p, f := range files {
		rel, err := filepath.Rel(t.dir, p)
		if err != nil || strings.HasPrefix(rel, "..") {
			continue
		}
		dst := filepath.Join(dir, rel)
		if err := os.MkdirAll(filepath.Dir(dst), 0o700); err != nil {
			return err
		}
		if err := os.WriteFile(dst, f.data, 0o600); err != nil {
			return err
		}
	}
	return nil
}

// CompareFinal checks that the final image with nothing lost equals the directory the process left behind.
func (t *T) CompareFinal(dir string) string {
	files := t.build(len(t.ops), Variant{torn: -1})
	seen := map[string]bool{}
	var diffs []string
	_ = filepath.Walk(dir, func(p string, info os.FileInfo, err error) error {
		if err != nil || info.IsDir() {
			return nil
		}
		seen[filepath.Clean(p)] = true
		real, rerr := os.ReadFile(p)
		if rerr != nil {
			return nil
		}
		f, ok := files[filepath.Clean(p)]
		if !ok {
			diffs = append(diffs, fmt.Sprintf("%s exists but the model has no such file", filepath.Base(p)))
			return nil
		}
		if !bytes.Equal(real, f.data) {
			diffs = append(diffs, fmt.Sprintf("%s differs (real %d bytes, model %d bytes)", filepath.Base(p), len(real), len(f.data)))
		}
		return nil
	})
	for p := range files {
		if !seen[p] {
			diffs = append(diffs, fmt.Sprintf("the model has %s but the directory does not", filepath.Base(p)))
		}
	}
	sort.Strings(diffs)
	return strings.Join(diffs, "; ")
}

// Describe renders the operation in flight at a crash point.
func (t *T) Describe(cp int) string {
	if cp >= len(t.ops) {
		return "end of trace"
	}
	o := t.ops[cp]
	switch o.kind {
	case "marker":
		return "marker " + string(o.data)
	case "write":
		return fmt.Sprintf("%s of %d bytes to %s (sync=%v) in flight", o.text, len(o.data), filepath.Base(o.path), o.sync)
	default:
		return fmt.Sprintf("%s %s in flight", o.kind, filepath.Base(o.path))
	}
}

// Summary lists how many operations of each kind were modelled.
func (t *T) Summary() map[string]int {
	m := map[string]int{}
	for _, o := range t.ops {
		k := o.kind
		if o.kind == "write" {
			if o.sync {
				k = "write(sync)"
			} else {
				k = "write(volatile)"
			}
		}
		m[k]++
	}
	return m
}
