// Package dfs is a deviation-bounded stateless explorer over environment answers: every wrapped dependency call is a
// choice point whose default (0) is "pass through to the real dependency"; alternatives are that site's fault menu.
package dfs

import (
	"fmt"
	"sort"
	"strings"
	"sync"
)

// Pt is one choice point of an execution.
type Pt struct {
	Site   string
	N      int
	Choice int
}

// Chooser hands out choices during one execution.
type Chooser struct {
	mu     sync.Mutex
	prefix []int
	Trace  []Pt
	err    error
}

// NewChooser makes a chooser that replays the given choices and then takes defaults.
func NewChooser(prefix []int) *Chooser { return &Chooser{prefix: prefix} }

// Choose returns the choice for this point (0 = default).
func (c *Chooser) Choose(site string, n int) int {
	c.mu.Lock()
	defer c.mu.Unlock()
	i := len(c.Trace)
	ch := 0
	if i < len(c.prefix) {
		ch = c.prefix[i]
		if ch >= n {
			c.err = fmt.Errorf("replay diverged: choice %d out of range %d at point %d (%s)", ch, n, i, site)
			ch = 0
		}
	}
	c.Trace = append(c.Trace, Pt{site, n, ch})
	return ch
}

// Deviations returns the points where a non-default answer was given.
func (c *Chooser) Deviations() []Pt {
	var d []Pt
	for _, p := range c.Trace {
		if p.Choice != 0 {
			d = append(d, p)
		}
	}
	return d
}

// Choices returns the full choice list.
func (c *Chooser) Choices() []int {
	l := make([]int, len(c.Trace))
	for i, p := range c.Trace {
		l[i] = p.Choice
	}
	return l
}

// Stats summarises an exploration.
type Stats struct {
	Executions int
	Sites      map[string]bool
	SiteFaults map[string]bool
}

// Explore runs `run` for every choice sequence with at most bound deviations. run must be deterministic given the choices.
func Explore(bound int, run func(c *Chooser) error) (Stats, error) {
	st := Stats{Sites: map[string]bool{}, SiteFaults: map[string]bool{}}
	var rec func(prefix []int) error
	rec = func(prefix []int) error {
		c := &Chooser{prefix: prefix}
		if err := run(c); err != nil {
			return err
		}
		if c.err != nil {
			return c.err
		}
		// A replayed prefix must hit at least as many points as it has choices.
		if len(c.Trace) < len(prefix) {
			return fmt.Errorf("replay diverged: execution has %d points, prefix %d", len(c.Trace), len(prefix))
		}
		st.Executions++
		devs := 0
		for i, p := range c.Trace {
			st.Sites[p.Site] = true
			if p.Choice != 0 {
				st.SiteFaults[fmt.Sprintf("%s#%d", p.Site, p.Choice)] = true
			}
			if i >= len(prefix) && devs+1 <= bound {
				for alt := 1; alt < p.N; alt++ {
					np := append(append([]int{}, c.Choices()[:i]...), alt)
					if err := rec(np); err != nil {
						return err
					}
				}
			}
			if p.Choice != 0 {
				devs++
			}
		}
		return nil
	}
	err := rec(nil)
	return st, err
}

// KPt is a keyed choice point.
type KPt struct {
	Site   string
	N      int
	Choice int
}

// KChooser hands out choices by site name: robust against nondeterministic ordering of the points
// (Go map iteration inside the code under test), provided site names are unique within an execution.
type KChooser struct {
	mu   sync.Mutex
	Dev  map[string]int
	Seen []KPt
}

// Choose returns the deviation registered for the site (0 = default).
func (c *KChooser) Choose(site string, n int) int {
	c.mu.Lock()
	defer c.mu.Unlock()
	ch := c.Dev[site]
	if ch >= n {
		ch = 0
	}
	c.Seen = append(c.Seen, KPt{site, n, ch})
	return ch
}

// Key renders the deviation map canonically.
func (c *KChooser) Key() string { return devKey(c.Dev) }

func devKey(dev map[string]int) string {
	var l []string
	for s, a := range dev {
		l = append(l, fmt.Sprintf("%s#%d", s, a))
	}
	sort.Strings(l)
	return strings.Join(l, ",")
}

// ExploreKeyed runs `run` for every set of at most bound site-keyed deviations that is reachable.
func ExploreKeyed(bound int, run func(c *KChooser) error) (Stats, error) {
	st := Stats{Sites: map[string]bool{}, SiteFaults: map[string]bool{}}
	explored := map[string]bool{"": true}
	var rec func(dev map[string]int) error
	rec = func(dev map[string]int) error {
		c := &KChooser{Dev: dev}
		if err := run(c); err != nil {
			return err
		}
		st.Executions++
		for _, p := range c.Seen {
			st.Sites[siteClass(p.Site)] = true
			if p.Choice != 0 {
				st.SiteFaults[fmt.Sprintf("%s#%d", siteClass(p.Site), p.Choice)] = true
			}
		}
		if len(dev) >= bound {
			return nil
		}
		for _, p := range c.Seen {
			if _, ok := dev[p.Site]; ok {
				continue
			}
			for alt := 1; alt < p.N; alt++ {
				nd := map[string]int{p.Site: alt}
				for k, v := range dev {
					nd[k] = v
				}
				k := devKey(nd)
				if explored[k] {
					continue
				}
				explored[k] = true
				if err := rec(nd); err != nil {
					return err
				}
			}
		}
		return nil
	}
	err := rec(map[string]int{})
	return st, err
}

// siteClass strips the instance-specific part of a site name ("contribute 1->3" -> "contribute").
func siteClass(s string) string {
	if i := strings.Index(s, " "); i > 0 {
		return s[:i]
	}
	return s
}
