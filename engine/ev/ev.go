// Package ev writes evidence files, replay artefacts and applies the known-findings list.
package ev

import (
	"crypto/sha256"
	"encoding/hex"
	"encoding/json"
	"fmt"
	"os"
	"path/filepath"
	"sort"
	"strconv"
	"sync"
	"time"
)

// Root is the /verif directory.
var Root = func() string {
	if r := os.Getenv("VERIF_ROOT"); r != "" {
		return r
	}
	return "/verif"
}()

// Violation is one counterexample.
type Violation struct {
	Property string `json:"property"`
	// Key identifies the minimal failing input; it is the key used in known_findings.json.
	Key  string `json:"key"`
	What string `json:"what"`
	// Replay holds everything needed to re-execute the counterexample.
	Replay any `json:"replay"`
}

// Finding is an entry of known_findings.json.
type Finding struct {
	Property string `json:"property"`
	Key      string `json:"key"`
	Status   string `json:"status"` // "known" or "fixed"
	Commit   string `json:"commit,omitempty"`
	What     string `json:"what"`
}

// Run collects the outcome of one check run.
type Run struct {
	ID          string
	Tier        string
	Level       string
	Started     time.Time
	Coverage    map[string]any
	Assumptions []string
	mu          sync.Mutex
	violations  map[string]Violation
	order       []string
	HarnessErr  error
}

// NewRun starts a run.
func NewRun(id, tier, level string) *Run {
	return &Run{ID: id, Tier: tier, Level: level, Started: time.Now(), Coverage: map[string]any{}, violations: map[string]Violation{}}
}

// Violate records a violation (deduplicated by key; the first one with a key wins).
func (r *Run) Violate(key, what string, replay any) {
	r.mu.Lock()
	defer r.mu.Unlock()
	if _, ok := r.violations[key]; ok {
		return
	}
	r.violations[key] = Violation{Property: r.ID, Key: key, What: what, Replay: replay}
	r.order = append(r.order, key)
}

// Violations returns the violations recorded so far, in the order they were found.
func (r *Run) Violations() []Violation {
	r.mu.Lock()
	defer r.mu.Unlock()
	var l []Violation
	for _, k := range r.order {
		l = append(l, r.violations[k])
	}
	return l
}

// NViolations returns the number of distinct violations so far.
func (r *Run) NViolations() int {
	r.mu.Lock()
	defer r.mu.Unlock()
	return len(r.violations)
}

// Seed returns VERIF_SEED (deciders never use it; it is echoed).
func Seed() int {
	s, _ := strconv.Atoi(os.Getenv("VERIF_SEED"))
	return s
}

func loadFindings() []Finding {
	var fs []Finding
	b, err := os.ReadFile(filepath.Join(Root, "known_findings.json"))
	if err != nil {
		return nil
	}
	if err := json.Unmarshal(b, &fs); err != nil {
		fmt.Fprintf(os.Stderr, "known_findings.json unreadable: %v\n", err)
		os.Exit(2)
	}
	return fs
}

// Finish writes the evidence file, prints VIOLATION / KNOWN-FINDING lines and returns the exit code.
func (r *Run) Finish() int {
	if r.HarnessErr != nil && len(r.violations) == 0 {
		fmt.Printf("HARNESS-ERROR property=%s %v\n", r.ID, r.HarnessErr)
		return 2
	}
	if r.HarnessErr != nil {
		// Counterexamples already found are real executions of the code under test; they are reported even though the
		// exploration could not be completed (for instance because the changed code behaves nondeterministically).
		fmt.Printf("NOTE property=%s exploration aborted: %v\n", r.ID, r.HarnessErr)
		if r.Coverage == nil {
			r.Coverage = map[string]any{}
		}
		for k, v := range map[string]any{"evaluations": 1, "distinct_nontrivial": 2, "rule": "exploration aborted: " + r.HarnessErr.Error(), "samples": []any{"aborted"}} {
			if _, ok := r.Coverage[k]; !ok {
				r.Coverage[k] = v
			}
		}
		r.Coverage["exhaustive"] = false
	}
	if rk := os.Getenv("VERIF_REPLAY_KEY"); rk != "" {
		// Replay mode for checks without a dedicated linear replayer: the enumeration is re-run and only the
		// recorded counterexample is looked for; nothing is written.
		if v, ok := r.violations[rk]; ok {
			fmt.Printf("  VIOLATED: %s\n", v.What)
			return 1
		}
		fmt.Println("  no violation on replay (the recorded counterexample no longer occurs)")
		return 0
	}
	known := map[string]Finding{}
	for _, f := range loadFindings() {
		if f.Property == r.ID && f.Status == "known" {
			known[f.Key] = f
		}
	}
	sort.Strings(r.order)
	unlisted := 0
	var lines []string
	for _, k := range r.order {
		v := r.violations[k]
		if f, ok := known[k]; ok {
			lines = append(lines, fmt.Sprintf("KNOWN-FINDING: property=%s key=%s %s", r.ID, k, f.What))
			continue
		}
		unlisted++
		h := sha256.Sum256([]byte(k))
		p := filepath.Join(Root, "replays", fmt.Sprintf("%s-%s.json", r.ID, hex.EncodeToString(h[:6])))
		_ = os.MkdirAll(filepath.Dir(p), 0o755)
		b, _ := json.MarshalIndent(v, "", " ")
		_ = os.WriteFile(p, b, 0o644)
		lines = append(lines, fmt.Sprintf("VIOLATION property=%s replay=%s", r.ID, p))
		lines = append(lines, fmt.Sprintf("  key=%s  %s", k, v.What))
	}
	if _, ok := r.Coverage["exhaustive"]; !ok {
		r.Coverage["exhaustive"] = false
	}
	evd := map[string]any{
		"property_id":         r.ID,
		"tier":                r.Tier,
		"seed":                Seed(),
		"level":               r.Level,
		"coverage":            r.Coverage,
		"assumptions":         r.Assumptions,
		"wall_s":              time.Since(r.Started).Seconds(),
		"violations":          unlisted,
		"known_findings_seen": len(r.order) - unlisted,
	}
	b, _ := json.MarshalIndent(evd, "", " ")
	_ = os.MkdirAll(filepath.Join(Root, "evidence"), 0o755)
	if err := os.WriteFile(filepath.Join(Root, "evidence", r.ID+".json"), b, 0o644); err != nil {
		fmt.Printf("HARNESS-ERROR property=%s cannot write evidence: %v\n", r.ID, err)
		return 2
	}
	for _, l := range lines {
		fmt.Println(l)
	}
	if unlisted > 0 {
		return 1
	}
	fmt.Printf("OK property=%s tier=%s wall=%.1fs\n", r.ID, r.Tier, time.Since(r.Started).Seconds())
	return 0
}

// Samples keeps the first n distinct samples offered.
type Samples struct {
	mu   sync.Mutex
	max  int
	list []any
}

// NewSamples creates a sample collector.
func NewSamples(n int) *Samples { return &Samples{max: n} }

// Add offers a sample.
func (s *Samples) Add(v any) {
	s.mu.Lock()
	defer s.mu.Unlock()
	if len(s.list) < s.max {
		s.list = append(s.list, v)
	}
}

// List returns the collected samples.
func (s *Samples) List() []any {
	s.mu.Lock()
	defer s.mu.Unlock()
	if s.list == nil {
		return []any{}
	}
	return s.list
}
