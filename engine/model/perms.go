package model

import (
	"regexp"
	"strings"
)

// PermEntry is one permission entry: a path "wallet[/account]" whose parts are literals or regular expressions,
// and an ordered list of operations.
type PermEntry struct {
	Path string   `json:"path"`
	Ops  []string `json:"ops"`
}

// SplitPath splits "wallet/account" at the first slash.
func SplitPath(p string) (string, string) {
	if i := strings.Index(p, "/"); i >= 0 {
		return p[:i], p[i+1:]
	}
	return p, ""
}

// Whole reports whether pattern P matches the whole name, case-insensitively. An empty pattern matches everything.
// ok is false when the pattern is not a valid regular expression.
func Whole(p string, name string) (match bool, ok bool) {
	if p == "" {
		return true, true
	}
	re, err := regexp.Compile("(?i)^(?:" + p + ")$")
	if err != nil {
		return false, false
	}
	return re.MatchString(name), true
}

// Allowed is the reference evaluator written from the property text: scan the client's entries in order; within each
// entry whose wallet and account patterns match the whole actual names, scan its operation list in order; the first
// item that bears on the operation decides; otherwise refuse.
func Allowed(table map[string][]PermEntry, client string, wallet string, account string, op string) bool {
	if client == "" {
		return false
	}
	entries, ok := table[client]
	if !ok {
		return false
	}
	if wallet == "" {
		return false
	}
	for _, e := range entries {
		wp, ap := SplitPath(e.Path)
		wm, ok1 := Whole(wp, wallet)
		am, ok2 := Whole(ap, account)
		if !ok1 || !ok2 || !wm || !am {
			continue
		}
		for _, item := range e.Ops {
			if strings.EqualFold(item, "None") || strings.EqualFold(item, "~"+op) {
				return false
			}
			if strings.EqualFold(item, "All") || strings.EqualFold(item, op) {
				return true
			}
		}
	}
	return false
}
