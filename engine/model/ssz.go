package model

import (
	"crypto/sha256"
	"encoding/binary"
)

func h2(a, b [32]byte) [32]byte {
	var buf [64]byte
	copy(buf[:32], a[:])
	copy(buf[32:], b[:])
	return sha256.Sum256(buf[:])
}

func u64leaf(v uint64) [32]byte {
	var l [32]byte
	binary.LittleEndian.PutUint64(l[:8], v)
	return l
}

func b32(b []byte) [32]byte {
	var l [32]byte
	copy(l[:], b)
	return l
}

func merkle(leaves [][32]byte) [32]byte {
	n := 1
	for n < len(leaves) {
		n *= 2
	}
	layer := make([][32]byte, n)
	copy(layer, leaves)
	for len(layer) > 1 {
		next := make([][32]byte, len(layer)/2)
		for i := range next {
			next[i] = h2(layer[2*i], layer[2*i+1])
		}
		layer = next
	}
	return layer[0]
}

// AttestationDataRoot is hash_tree_root(AttestationData), written from the consensus specification.
func AttestationDataRoot(slot, index uint64, blockRoot []byte, srcEpoch uint64, srcRoot []byte, tgtEpoch uint64, tgtRoot []byte) [32]byte {
	src := merkle([][32]byte{u64leaf(srcEpoch), b32(srcRoot)})
	tgt := merkle([][32]byte{u64leaf(tgtEpoch), b32(tgtRoot)})
	return merkle([][32]byte{u64leaf(slot), u64leaf(index), b32(blockRoot), src, tgt})
}

// HeaderRoot is hash_tree_root(BeaconBlockHeader).
func HeaderRoot(slot, proposer uint64, parent, state, body []byte) [32]byte {
	return merkle([][32]byte{u64leaf(slot), u64leaf(proposer), b32(parent), b32(state), b32(body)})
}

// SigningRoot is hash_tree_root(SigningData{object_root, domain}).
func SigningRoot(objectRoot [32]byte, domain []byte) [32]byte {
	return merkle([][32]byte{objectRoot, b32(domain)})
}
