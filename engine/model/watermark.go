// Package model holds the small reference models (no Dirk imports).
package model

// Att is a released attestation signature.
type Att struct {
	S, T uint64
	Root [32]byte // hash tree root of the attestation data
}

// Prop is a released proposal signature.
type Prop struct {
	Slot uint64
	Root [32]byte // hash tree root of the header
}

// SlashableAtt reports whether two attestations form a double vote or a surround vote (unsigned comparison).
func SlashableAtt(x, h Att) (bool, string) {
	if x.Root == h.Root {
		return false, ""
	}
	if x.T == h.T {
		return true, "double vote"
	}
	if x.S < h.S && h.T < x.T {
		return true, "surround"
	}
	if h.S < x.S && x.T < h.T {
		return true, "surrounded"
	}
	return false, ""
}

// Water is the sequential watermark specification for one key (well-formed domain only).
type Water struct {
	HasAtt     bool
	MaxS, MaxT uint64
	HasProp    bool
	MaxSlot    uint64
}

// WellFormedAtt says whether (s,t) lies in the domain for which the specification defines a verdict.
func WellFormedAtt(s, t uint64) bool {
	return s < 1<<63 && t < 1<<63
}

// ApproveAtt is the specified verdict for a well-formed attestation.
func (w *Water) ApproveAtt(s, t uint64) bool {
	if !(t > s || (s == 0 && t == 0)) {
		return false
	}
	if w.HasAtt && !(t > w.MaxT && s >= w.MaxS) {
		return false
	}
	return true
}

// ApplyAtt records an approved attestation.
func (w *Water) ApplyAtt(s, t uint64) {
	w.HasAtt, w.MaxS, w.MaxT = true, s, t
}

// ApproveProp is the specified verdict for a proposal with slot < 2^63.
func (w *Water) ApproveProp(slot uint64) bool {
	return !w.HasProp || slot > w.MaxSlot
}

// ApplyProp records an approved proposal.
func (w *Water) ApplyProp(slot uint64) {
	w.HasProp, w.MaxSlot = true, slot
}
