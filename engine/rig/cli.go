package rig

import (
	"bytes"
	"fmt"
	"os"
	"os/exec"
	"path/filepath"
	"strings"
	"time"
)

// GVR is the genesis validators root used by CLI-driven checks.
const GVR = "0x04700007fabc8282644aed6d1c7c9e21d38a03a0c4ba193f3afe428824b3a673"

// OtherGVR is a different genesis validators root.
const OtherGVR = "0x14700007fabc8282644aed6d1c7c9e21d38a03a0c4ba193f3afe428824b3a673"

// DirkBin returns the path of the dirk binary built from the current tree by bin/check.
func DirkBin() (string, error) {
	b := os.Getenv("VERIF_DIRK_BIN")
	if b == "" {
		return "", fmt.Errorf("VERIF_DIRK_BIN not set (bin/check builds the dirk binary for CLI-driven checks)")
	}
	if _, err := os.Stat(b); err != nil {
		return "", err
	}
	return b, nil
}

// CLI runs the real dirk binary against a storage directory.
// A directory lock can be held for an instant by another goroutine's freshly forked child (descriptors are only
// closed at exec), so "cannot acquire directory lock" is retried a few times; it never reflects Dirk's behaviour.
func CLI(storageDir string, args ...string) (int, string, string, error) {
	return CLIWithEnv(nil, storageDir, args...)
}

// CLIWithEnv is CLI with additional environment variables for the child.
func CLIWithEnv(extra []string, storageDir string, args ...string) (int, string, string, error) {
	for attempt := 0; ; attempt++ {
		code, so, se, err := cliOnce(extra, storageDir, args...)
		if err == nil && code != 0 && strings.Contains(se, "Cannot acquire directory lock") && attempt < 20 {
			time.Sleep(time.Duration(20*(attempt+1)) * time.Millisecond)
			continue
		}
		return code, so, se, err
	}
}

func cliOnce(extra []string, storageDir string, args ...string) (int, string, string, error) {
	base, err := os.MkdirTemp(filepath.Dir(filepath.Clean(storageDir)), "cli-base-")
	if err != nil {
		return -1, "", "", err
	}
	defer os.RemoveAll(base)
	return cliRun(append([]string{"DIRK_STORAGE_PATH=" + storageDir}, extra...), base, "", args...)
}

// CLIConfigured runs the real dirk binary the way an operator with a configuration directory does: base is the
// configuration directory (--base-dir), storagePath is the configured storage-path (relative paths are relative to
// base; "" leaves it unset, the built-in default then applies), and the command is started from the directory cwd.
func CLIConfigured(extra []string, base, storagePath, cwd string, args ...string) (int, string, string, error) {
	env := append([]string{}, extra...)
	if storagePath != "" {
		env = append(env, "DIRK_STORAGE_PATH="+storagePath)
	}
	for attempt := 0; ; attempt++ {
		code, so, se, err := cliRun(env, base, cwd, args...)
		if err == nil && code != 0 && strings.Contains(se, "Cannot acquire directory lock") && attempt < 20 {
			time.Sleep(time.Duration(20*(attempt+1)) * time.Millisecond)
			continue
		}
		return code, so, se, err
	}
}

func cliRun(env []string, base, cwd string, args ...string) (int, string, string, error) {
	bin, err := DirkBin()
	if err != nil {
		return -1, "", "", err
	}
	cmd := exec.Command(bin, append([]string{"--base-dir", base}, args...)...)
	cmd.Dir = cwd
	var inherited []string
	for _, kv := range os.Environ() {
		if !strings.HasPrefix(kv, "DIRK_STORAGE_PATH=") {
			inherited = append(inherited, kv)
		}
	}
	cmd.Env = append(inherited, "DIRK_SERVER_NAME=verif", "HOME="+base)
	cmd.Env = append(cmd.Env, env...)
	var so, se bytes.Buffer
	cmd.Stdout, cmd.Stderr = &so, &se
	err = cmd.Run()
	code := 0
	if err != nil {
		if ee, ok := err.(*exec.ExitError); ok {
			code = ee.ExitCode()
		} else {
			return -1, so.String(), se.String(), err
		}
	}
	return code, so.String(), se.String(), nil
}
