package rig

import (
	"context"
	"errors"
	"fmt"
	staticpeers "github.com/attestantio/dirk/services/peers/static"
	"sort"
	"sync"
	"time"

	"github.com/attestantio/dirk/core"
	receiverhandler "github.com/attestantio/dirk/services/api/grpc/handlers/receiver"
	"github.com/attestantio/dirk/services/api/grpc/interceptors"
	"github.com/attestantio/dirk/services/checker"
	"github.com/attestantio/dirk/services/peers"
	"github.com/herumi/bls-eth-go-binary/bls"
	pb "github.com/wealdtech/eth2-signer-api/pb/v1"
	"google.golang.org/protobuf/proto"
)

// DistWallet is the distributed wallet present on every cluster node.
const DistWallet = "Wallet 3"

// Msg describes one protocol message in flight.
type Msg struct {
	Seq  int
	Kind string // prepare, execute, contribute, commit, abort
	From uint64
	To   uint64
	// Contribution payload (mutable by interceptors).
	Secret *bls.SecretKey
	VVec   []bls.PublicKey
	// Again (with DeliverThenAgain) changes the copy of the contribution that is delivered a second time.
	Again func(secret *bls.SecretKey, vvec *[]bls.PublicKey)
}

func (m Msg) String() string { return fmt.Sprintf("#%d %s %d->%d", m.Seq, m.Kind, m.From, m.To) }

// Action is what an interceptor decides for a message.
type Action int

const (
	// Deliver passes the (possibly modified) message on.
	Deliver Action = iota
	// Drop does not deliver the message; the sender sees an error.
	Drop
	// DeliverThenError delivers the message but reports an error to the sender.
	DeliverThenError
	// DeliverTwice delivers the message twice (the sender sees the second reply).
	DeliverTwice
	// DeliverThenAgain delivers a contribution and then a second copy changed by Msg.Again (the sender sees the second
	// reply).
	DeliverThenAgain
	// DeliverTwiceFirstReply delivers the message twice; the sender sees the reply to the first copy (what the second
	// copy is answered is lost).
	DeliverTwiceFirstReply
)

// Cluster is a set of real Dirk instances wired through their real receiver handlers.
type Cluster struct {
	Nodes map[uint64]*Node
	IDs   []uint64
	mu    sync.Mutex
	seq   int
	// Misrouted lists contributions that a node addressed to another endpoint than the one configured for the
	// participant the share was computed for. They are recorded and not delivered (the sender sees an error): delivering
	// them where they are addressed can make an instance call itself while it holds its own locks.
	Misrouted []string
	// Intercept (optional) is consulted for every message before delivery.
	Intercept func(m *Msg) Action
	// CommitReply (optional) may tamper with a commit reply.
	CommitReply func(from, to uint64, pubKey, sig []byte) ([]byte, []byte)
	// SuitableOrder (optional) decides what peers.Suitable returns on a node.
	SuitableOrder func(node uint64, n uint32, all map[uint64]*core.Endpoint) []*core.Endpoint
	// ContributeReply (optional) may tamper with the reply to a contribution (secret and vector are mutable).
	ContributeReply func(from, to uint64, secret *bls.SecretKey, vvec *[]bls.PublicKey) Action
	// Virtual (optional) answers contributions addressed to configured peers that are not instantiated.
	Virtual func(from, to uint64, account string, secret bls.SecretKey, vvec []bls.PublicKey) (bls.SecretKey, []bls.PublicKey, error)
	// CommitOrder (optional) serialises the parallel commit requests of a generation in the given recipient order.
	CommitOrder []uint64
	commitTurn  int
	commitCond  *sync.Cond
	// Log of delivered messages.
	Log []string
}

// ResetCommitOrder sets the order in which the next generation's commits are let through.
func (c *Cluster) ResetCommitOrder(order []uint64) {
	c.mu.Lock()
	c.CommitOrder = order
	c.commitTurn = 0
	c.mu.Unlock()
}

func (c *Cluster) commitEnter(to uint64) {
	c.mu.Lock()
	defer c.mu.Unlock()
	if c.commitCond == nil {
		c.commitCond = sync.NewCond(&c.mu)
	}
	if len(c.CommitOrder) == 0 {
		return
	}
	for c.commitTurn < len(c.CommitOrder) && c.CommitOrder[c.commitTurn] != to {
		c.commitCond.Wait()
	}
}

func (c *Cluster) commitLeave(to uint64) {
	c.mu.Lock()
	defer c.mu.Unlock()
	if len(c.CommitOrder) == 0 || c.commitCond == nil {
		return
	}
	if c.commitTurn < len(c.CommitOrder) && c.CommitOrder[c.commitTurn] == to {
		c.commitTurn++
	}
	c.commitCond.Broadcast()
}

// Node is one instance.
type Node struct {
	ID       uint64
	Name     string
	Rig      *SignerRig
	Receiver *receiverhandler.Handler
	cluster  *Cluster
}

func nodeName(id uint64) string { return fmt.Sprintf("signer-%d", id) }

// ClusterOpts configures a cluster.
type ClusterOpts struct {
	IDs         []uint64
	Permissions map[string][]*checker.Permissions
	// ExtraPeers are configured peers (on every node) that are not instantiated.
	ExtraPeers map[uint64]string
	// GenTimeout (optional) is the generation timeout of every node (default: one hour).
	GenTimeout time.Duration
	// OwnPassphrases gives every node a generation passphrase of its own ("gen-<id>"), known to its own unlocker only
	// (as the documentation recommends for deployments).
	OwnPassphrases bool
	// PointStore routes every operation of every node's wallet store through verifhook.Point ("wstore.<op>"), which is a
	// scheduling point under the explorer and nothing otherwise.
	PointStore bool
	// Unknown (optional): Unknown[k] lists peers that instance k's peer table lacks (an instance that has not been told of
	// a peer added since: configurations are rolled out one instance at a time).
	Unknown map[uint64][]uint64
}

// NewCluster builds the instances.
func NewCluster(o ClusterOpts) (*Cluster, error) {
	Init()
	c := &Cluster{Nodes: map[uint64]*Node{}, IDs: append([]uint64{}, o.IDs...)}
	peersMap := map[uint64]string{}
	for _, id := range o.IDs {
		peersMap[id] = fmt.Sprintf("%s:%d", nodeName(id), 8000+id%1000)
	}
	for id, v := range o.ExtraPeers {
		peersMap[id] = v
	}
	perms := o.Permissions
	if perms == nil {
		perms = map[string][]*checker.Permissions{DefaultClient: {{Path: DistWallet, Operations: []string{"All"}}, {Path: "Wallet 1", Operations: []string{"All"}}}}
	}
	for _, id := range o.IDs {
		n := &Node{ID: id, Name: nodeName(id), cluster: c}
		var genPass string
		var acctPasses []string
		if o.OwnPassphrases {
			genPass = fmt.Sprintf("gen-%d", id)
			acctPasses = []string{genPass}
		}
		nodePeers := peersMap
		if len(o.Unknown[id]) > 0 {
			nodePeers = map[uint64]string{}
			for pid, addr := range peersMap {
				nodePeers[pid] = addr
			}
			for _, pid := range o.Unknown[id] {
				delete(nodePeers, pid)
			}
		}
		r, err := NewSignerRig(SignerOpts{GenPass: genPass, AcctPasses: acctPasses, PointStore: o.PointStore,
			Wallets: []string{"Wallet 1"}, DistWallets: []string{DistWallet}, Permissions: perms, Full: true,
			ProcessID: id, PeersMap: nodePeers, Sender: &clusterSender{c: c, from: n}, GenTimeout: o.GenTimeout,
			PeersWrap: func(p peers.Service) peers.Service { return &orderedPeers{Service: p, c: c, node: id} },
		})
		if err != nil {
			return nil, err
		}
		n.Rig = r
		n.Receiver, err = receiverhandler.New(r.Ctx, receiverhandler.WithProcess(r.Process), receiverhandler.WithPeers(r.Peers))
		if err != nil {
			return nil, err
		}
		c.Nodes[id] = n
	}
	// A receiver handler of an unrelated deployment lives in the same process (Dirk's own multi-daemon tests do that):
	// it knows an ordinary client's name as a peer and numbers this cluster's peers differently. It never receives a
	// message, and nothing it is configured with may show in what the instances of this cluster do.
	if len(o.IDs) > 0 {
		foreign := map[uint64]string{9: DefaultClient + ":9009", 8: "zz:9008"}
		for i, id := range o.IDs {
			foreign[o.IDs[(i+1)%len(o.IDs)]+100] = fmt.Sprintf("%s:%d", nodeName(id), 8000+id%1000)
		}
		fp, err := staticpeers.New(context.Background(), staticpeers.WithPeers(foreign))
		if err != nil {
			return nil, err
		}
		if _, err := receiverhandler.New(context.Background(), receiverhandler.WithProcess(c.Nodes[o.IDs[0]].Rig.Process), receiverhandler.WithPeers(fp)); err != nil {
			return nil, err
		}
	}
	return c, nil
}

// Close tears the cluster down.
func (c *Cluster) Close() {
	for _, n := range c.Nodes {
		n.Rig.Close()
	}
}

type orderedPeers struct {
	peers.Service
	c    *Cluster
	node uint64
}

func (o *orderedPeers) Suitable(n uint32) ([]*core.Endpoint, error) {
	if o.c.SuitableOrder != nil {
		if l := o.c.SuitableOrder(o.node, n, o.Service.All()); l != nil {
			return l, nil
		}
	}
	// The real selection decides how many peers take part and whether the request can be served at all; which ones (it
	// ranges over a map) is fixed here for determinism: ascending id. A selection of another size than requested is
	// passed on as it is.
	real, err := o.Service.Suitable(n)
	if err != nil || uint64(len(real)) != uint64(n) {
		sort.Slice(real, func(i, j int) bool { return real[i].ID < real[j].ID })
		return real, err
	}
	all := o.Service.All()
	if uint64(n) > uint64(len(all)) {
		return real, nil
	}
	var ids []uint64
	for id := range all {
		ids = append(ids, id)
	}
	sort.Slice(ids, func(i, j int) bool { return ids[i] < ids[j] })
	res := make([]*core.Endpoint, 0, n)
	for _, id := range ids[:n] {
		res = append(res, all[id])
	}
	return res, nil
}

// clusterSender is the sender.Service of one node: it marshals each message, hands it to the recipient's real
// receiver handler under the sender's authenticated name, and unmarshals the reply, as the wire would.
type clusterSender struct {
	c    *Cluster
	from *Node
}

func (s *clusterSender) ctx() context.Context {
	return context.WithValue(context.Background(), &interceptors.ClientName{}, s.from.Name)
}

func roundTrip[T proto.Message](in T, out T) error {
	b, err := proto.Marshal(in)
	if err != nil {
		return err
	}
	return proto.Unmarshal(b, out)
}

func (s *clusterSender) pre(kind string, to uint64, m *Msg) (Action, *Node, error) {
	s.c.mu.Lock()
	s.c.seq++
	m.Seq, m.Kind, m.From, m.To = s.c.seq, kind, s.from.ID, to
	s.c.Log = append(s.c.Log, m.String())
	s.c.mu.Unlock()
	dst, ok := s.c.Nodes[to]
	if !ok {
		return Drop, nil, fmt.Errorf("no such instance %d", to)
	}
	act := Deliver
	if s.c.Intercept != nil {
		act = s.c.Intercept(m)
	}
	if act == Drop {
		return act, dst, errors.New("message lost")
	}
	return act, dst, nil
}

func (s *clusterSender) Prepare(_ context.Context, peer *core.Endpoint, account string, passphrase []byte, threshold uint32, participants []*core.Endpoint) error {
	m := &Msg{}
	act, dst, err := s.pre("prepare", peer.ID, m)
	if err != nil {
		return err
	}
	req := &pb.PrepareRequest{Account: account, Passphrase: passphrase, Threshold: threshold}
	for _, p := range participants {
		req.Participants = append(req.Participants, &pb.Endpoint{Id: p.ID, Name: p.Name, Port: p.Port})
	}
	wire := &pb.PrepareRequest{}
	if err := roundTrip(req, wire); err != nil {
		return err
	}
	_, err = dst.Receiver.Prepare(s.ctx(), wire)
	if act == DeliverTwice {
		_, err = dst.Receiver.Prepare(s.ctx(), wire)
	}
	if act == DeliverTwiceFirstReply {
		_, _ = dst.Receiver.Prepare(s.ctx(), wire)
	}
	if act == DeliverThenError {
		return errors.New("reply lost")
	}
	return err
}

func (s *clusterSender) Execute(_ context.Context, peer *core.Endpoint, account string) error {
	m := &Msg{}
	act, dst, err := s.pre("execute", peer.ID, m)
	if err != nil {
		return err
	}
	wire := &pb.ExecuteRequest{}
	if err := roundTrip(&pb.ExecuteRequest{Account: account}, wire); err != nil {
		return err
	}
	_, err = dst.Receiver.Execute(s.ctx(), wire)
	if act == DeliverTwice {
		_, err = dst.Receiver.Execute(s.ctx(), wire)
	}
	if act == DeliverTwiceFirstReply {
		_, _ = dst.Receiver.Execute(s.ctx(), wire)
	}
	if act == DeliverThenError {
		return errors.New("reply lost")
	}
	return err
}

func (s *clusterSender) Commit(_ context.Context, peer *core.Endpoint, account string, confirmationData []byte) ([]byte, []byte, error) {
	s.c.commitEnter(peer.ID)
	defer s.c.commitLeave(peer.ID)
	m := &Msg{}
	act, dst, err := s.pre("commit", peer.ID, m)
	if err != nil {
		return nil, nil, err
	}
	wire := &pb.CommitRequest{}
	if err := roundTrip(&pb.CommitRequest{Account: account, ConfirmationData: confirmationData}, wire); err != nil {
		return nil, nil, err
	}
	res, err := dst.Receiver.Commit(s.ctx(), wire)
	if act == DeliverThenError {
		return nil, nil, errors.New("reply lost")
	}
	if err != nil {
		return nil, nil, err
	}
	out := &pb.CommitResponse{}
	if err := roundTrip(res, out); err != nil {
		return nil, nil, err
	}
	pk, sig := out.GetPublicKey(), out.GetConfirmationSignature()
	if s.c.CommitReply != nil {
		pk, sig = s.c.CommitReply(s.from.ID, peer.ID, pk, sig)
	}
	return pk, sig, nil
}

func (s *clusterSender) Abort(_ context.Context, peer *core.Endpoint, account string) error {
	m := &Msg{}
	_, dst, err := s.pre("abort", peer.ID, m)
	if err != nil {
		return err
	}
	wire := &pb.AbortRequest{}
	if err := roundTrip(&pb.AbortRequest{Account: account}, wire); err != nil {
		return err
	}
	_, err = dst.Receiver.Abort(s.ctx(), wire)
	return err
}

func (s *clusterSender) SendContribution(_ context.Context, peer *core.Endpoint, account string, secret bls.SecretKey, vvec []bls.PublicKey) (bls.SecretKey, []bls.PublicKey, error) {
	if _, real := s.c.Nodes[peer.ID]; !real && s.c.Virtual != nil {
		return s.c.Virtual(s.from.ID, peer.ID, account, secret, vvec)
	}
	m := &Msg{Secret: &secret, VVec: append([]bls.PublicKey{}, vvec...)}
	if peer.Name != nodeName(peer.ID) {
		for id, n := range s.c.Nodes {
			if n.Name == peer.Name && id != peer.ID {
				s.c.mu.Lock()
				s.c.Misrouted = append(s.c.Misrouted, fmt.Sprintf("instance %d sent the contribution it computed for participant %d to %s:%d, which is instance %d", s.from.ID, peer.ID, peer.Name, peer.Port, id))
				s.c.mu.Unlock()
				return bls.SecretKey{}, nil, errors.New("contribution addressed to another instance than its owner")
			}
		}
	}
	act, dst, err := s.pre("contribute", peer.ID, m)
	if err != nil {
		return bls.SecretKey{}, nil, err
	}
	req := &pb.ContributeRequest{Account: account, Secret: m.Secret.Serialize()}
	for i := range m.VVec {
		req.VerificationVector = append(req.VerificationVector, m.VVec[i].Serialize())
	}
	wire := &pb.ContributeRequest{}
	if err := roundTrip(req, wire); err != nil {
		return bls.SecretKey{}, nil, err
	}
	res, err := dst.Receiver.Contribute(s.ctx(), wire)
	if act == DeliverTwice {
		res, err = dst.Receiver.Contribute(s.ctx(), wire)
	}
	if act == DeliverTwiceFirstReply {
		_, _ = dst.Receiver.Contribute(s.ctx(), wire)
	}
	if act == DeliverThenAgain && m.Again != nil {
		sec2 := *m.Secret
		vv2 := append([]bls.PublicKey{}, m.VVec...)
		m.Again(&sec2, &vv2)
		req2 := &pb.ContributeRequest{Account: account, Secret: sec2.Serialize()}
		for i := range vv2 {
			req2.VerificationVector = append(req2.VerificationVector, vv2[i].Serialize())
		}
		wire2 := &pb.ContributeRequest{}
		if err := roundTrip(req2, wire2); err != nil {
			return bls.SecretKey{}, nil, err
		}
		res, err = dst.Receiver.Contribute(s.ctx(), wire2)
	}
	if act == DeliverThenError {
		return bls.SecretKey{}, nil, errors.New("reply lost")
	}
	if err != nil {
		return bls.SecretKey{}, nil, err
	}
	out := &pb.ContributeResponse{}
	if err := roundTrip(res, out); err != nil {
		return bls.SecretKey{}, nil, err
	}
	var rs bls.SecretKey
	if err := rs.Deserialize(out.GetSecret()); err != nil {
		return bls.SecretKey{}, nil, errors.New("returned invalid secret key")
	}
	rv := make([]bls.PublicKey, len(out.GetVerificationVector()))
	for i, k := range out.GetVerificationVector() {
		if err := rv[i].Deserialize(k); err != nil {
			return bls.SecretKey{}, nil, errors.New("returned invalid verification vector")
		}
	}
	if s.c.ContributeReply != nil {
		switch s.c.ContributeReply(s.from.ID, peer.ID, &rs, &rv) {
		case Drop, DeliverThenError:
			return bls.SecretKey{}, nil, errors.New("reply lost")
		}
	}
	return rs, rv, nil
}

// Generate asks node `initiator` to generate a distributed account, as a client with the default identity.
func (c *Cluster) Generate(initiator uint64, account string, threshold, participants uint32) ([]byte, []*core.Endpoint, error) {
	return c.GenerateWith(initiator, account, []byte("pass"), threshold, participants)
}

// GenerateWith is Generate with the client's passphrase given (nil: none, every participant protects its share with its
// own generation passphrase).
func (c *Cluster) GenerateWith(initiator uint64, account string, passphrase []byte, threshold, participants uint32) ([]byte, []*core.Endpoint, error) {
	n := c.Nodes[initiator]
	creds := &checker.Credentials{Client: DefaultClient, RequestID: "gen", IP: "10.0.0.1"}
	return n.Rig.Process.OnGenerate(n.Rig.Ctx, creds, account, passphrase, threshold, participants)
}

// Poly is the secret polynomial of a (possibly virtual) participant.
type Poly struct {
	SKs  []bls.SecretKey
	VVec []bls.PublicKey
}

// NewPoly draws a random polynomial with t coefficients.
func NewPoly(t int) *Poly {
	p := &Poly{SKs: make([]bls.SecretKey, t), VVec: make([]bls.PublicKey, t)}
	for i := range p.SKs {
		p.SKs[i].SetByCSPRNG()
		p.VVec[i] = *p.SKs[i].GetPublicKey()
	}
	return p
}

// Share evaluates the polynomial at the identifier of participant id.
func (p *Poly) Share(id uint64) bls.SecretKey {
	var s bls.SecretKey
	var bid bls.ID
	buf := make([]byte, 8)
	for i := 0; i < 8; i++ {
		buf[i] = byte(id >> (8 * i))
	}
	if err := bid.SetLittleEndian(buf); err != nil {
		panic(err)
	}
	if err := s.Set(p.SKs, &bid); err != nil {
		panic(err)
	}
	return s
}

// Deliver hands a protocol message to a node's real receiver handler under the given authenticated name.
func (n *Node) ctxAs(name string) context.Context {
	return context.WithValue(context.Background(), &interceptors.ClientName{}, name)
}

// RecvPrepare delivers a prepare message.
func (n *Node) RecvPrepare(as string, account string, threshold uint32, participants []*core.Endpoint) error {
	req := &pb.PrepareRequest{Account: account, Passphrase: []byte("pass"), Threshold: threshold}
	for _, p := range participants {
		req.Participants = append(req.Participants, &pb.Endpoint{Id: p.ID, Name: p.Name, Port: p.Port})
	}
	wire := &pb.PrepareRequest{}
	if err := roundTrip(req, wire); err != nil {
		return err
	}
	_, err := n.Receiver.Prepare(n.ctxAs(as), wire)
	return err
}

// RecvExecute delivers an execute message.
func (n *Node) RecvExecute(as string, account string) error {
	_, err := n.Receiver.Execute(n.ctxAs(as), &pb.ExecuteRequest{Account: account})
	return err
}

// RecvAbort delivers an abort message.
func (n *Node) RecvAbort(as string, account string) error {
	_, err := n.Receiver.Abort(n.ctxAs(as), &pb.AbortRequest{Account: account})
	return err
}

// RecvCommit delivers a commit message.
func (n *Node) RecvCommit(as string, account string, data []byte) ([]byte, []byte, error) {
	res, err := n.Receiver.Commit(n.ctxAs(as), &pb.CommitRequest{Account: account, ConfirmationData: data})
	if err != nil {
		return nil, nil, err
	}
	return res.GetPublicKey(), res.GetConfirmationSignature(), nil
}

// RecvContribute delivers a contribution and returns the reply.
func (n *Node) RecvContribute(as string, account string, secret bls.SecretKey, vvec []bls.PublicKey) (*bls.SecretKey, []bls.PublicKey, error) {
	req := &pb.ContributeRequest{Account: account, Secret: secret.Serialize()}
	for i := range vvec {
		req.VerificationVector = append(req.VerificationVector, vvec[i].Serialize())
	}
	wire := &pb.ContributeRequest{}
	if err := roundTrip(req, wire); err != nil {
		return nil, nil, err
	}
	res, err := n.Receiver.Contribute(n.ctxAs(as), wire)
	if err != nil {
		return nil, nil, err
	}
	var rs bls.SecretKey
	if err := rs.Deserialize(res.GetSecret()); err != nil {
		return nil, nil, fmt.Errorf("reply secret does not decode: %w", err)
	}
	rv := make([]bls.PublicKey, len(res.GetVerificationVector()))
	for i, k := range res.GetVerificationVector() {
		if err := rv[i].Deserialize(k); err != nil {
			return nil, nil, fmt.Errorf("reply vector does not decode: %w", err)
		}
	}
	return &rs, rv, nil
}

// RecvContributeLate delivers a contribution; the reply is serialised and decoded only when the returned function is
// called (a gRPC server serialises a reply after the handler has returned, while other requests are being handled).
func (n *Node) RecvContributeLate(as string, account string, secret bls.SecretKey, vvec []bls.PublicKey) (func() (*bls.SecretKey, []bls.PublicKey, error), error) {
	req := &pb.ContributeRequest{Account: account, Secret: secret.Serialize()}
	for i := range vvec {
		req.VerificationVector = append(req.VerificationVector, vvec[i].Serialize())
	}
	wire := &pb.ContributeRequest{}
	if err := roundTrip(req, wire); err != nil {
		return nil, err
	}
	res, err := n.Receiver.Contribute(n.ctxAs(as), wire)
	if err != nil {
		return nil, err
	}
	return func() (*bls.SecretKey, []bls.PublicKey, error) {
		out := &pb.ContributeResponse{}
		if err := roundTrip(res, out); err != nil {
			return nil, nil, err
		}
		var rs bls.SecretKey
		if err := rs.Deserialize(out.GetSecret()); err != nil {
			return nil, nil, fmt.Errorf("reply secret does not decode: %w", err)
		}
		rv := make([]bls.PublicKey, len(out.GetVerificationVector()))
		for i, k := range out.GetVerificationVector() {
			if err := rv[i].Deserialize(k); err != nil {
				return nil, nil, fmt.Errorf("reply vector does not decode: %w", err)
			}
		}
		return &rs, rv, nil
	}, nil
}

// PeerName is the authenticated name of the peer with the given id.
func PeerName(id uint64) string { return nodeName(id) }
