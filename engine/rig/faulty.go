package rig

import (
	"context"
	"errors"
	"fmt"
	"github.com/attestantio/dirk/services/ruler"

	"github.com/attestantio/dirk/rules"
	"github.com/attestantio/dirk/services/checker"
	"github.com/attestantio/dirk/services/fetcher"
	"github.com/attestantio/dirk/services/unlocker"
	e2wtypes "github.com/wealdtech/go-eth2-wallet-types/v2"
)

// Env decides environment answers. Choose returns 0 for "pass through".
// who identifies what the call serves: "key:<hex>", "name:<path>", "pos:<i>" or "*" for the whole request; either one
// value for all alternatives or one value per alternative (n-1 values).
type Env interface {
	Choose(site string, n int, who ...string) int
}

// ErrInjected is the error returned by injected faults.
var ErrInjected = errors.New("injected fault")

// FaultyFetcher wraps a fetcher.
type FaultyFetcher struct {
	fetcher.Service
	Env Env
}

func (f *FaultyFetcher) FetchAccount(ctx context.Context, path string) (e2wtypes.Wallet, e2wtypes.Account, error) {
	if f.Env.Choose("fetcher.FetchAccount", 2, "name:"+path) == 1 {
		return nil, nil, ErrInjected
	}
	return f.Service.FetchAccount(ctx, path)
}

func (f *FaultyFetcher) FetchAccountByKey(ctx context.Context, pubKey []byte) (e2wtypes.Wallet, e2wtypes.Account, error) {
	if f.Env.Choose("fetcher.FetchAccountByKey", 2, fmt.Sprintf("key:%x", pubKey)) == 1 {
		return nil, nil, ErrInjected
	}
	return f.Service.FetchAccountByKey(ctx, pubKey)
}

// FaultyChecker wraps a checker.
type FaultyChecker struct {
	checker.Service
	Env Env
}

func (c *FaultyChecker) Check(ctx context.Context, credentials *checker.Credentials, account string, operation string) bool {
	if c.Env.Choose("checker.Check", 2, "name:"+account) == 1 {
		return false
	}
	return c.Service.Check(ctx, credentials, account, operation)
}

// FaultyUnlocker wraps an unlocker.
type FaultyUnlocker struct {
	unlocker.Service
	Env Env
}

func (u *FaultyUnlocker) UnlockAccount(ctx context.Context, wallet e2wtypes.Wallet, account e2wtypes.Account) (bool, error) {
	switch u.Env.Choose("unlocker.UnlockAccount", 3, fmt.Sprintf("key:%x", account.PublicKey().Marshal())) {
	case 1:
		return false, ErrInjected
	case 2:
		return false, nil
	}
	return u.Service.UnlockAccount(ctx, wallet, account)
}

// FaultyRules wraps the rules service.
type FaultyRules struct {
	rules.Service
	Env Env
}

func (r *FaultyRules) res(site string, md *rules.ReqMetadata, real func() rules.Result) rules.Result {
	who := "*"
	if md != nil {
		who = fmt.Sprintf("key:%x", md.PubKey)
	}
	switch r.Env.Choose(site, 4, who) {
	case 1:
		return rules.UNKNOWN
	case 2:
		return rules.FAILED
	case 3:
		return rules.DENIED
	}
	return real()
}

func (r *FaultyRules) OnSign(ctx context.Context, md *rules.ReqMetadata, req *rules.SignData) rules.Result {
	return r.res("rules.OnSign", md, func() rules.Result { return r.Service.OnSign(ctx, md, req) })
}

func (r *FaultyRules) OnSignBeaconAttestation(ctx context.Context, md *rules.ReqMetadata, req *rules.SignBeaconAttestationData) rules.Result {
	return r.res("rules.OnSignBeaconAttestation", md, func() rules.Result { return r.Service.OnSignBeaconAttestation(ctx, md, req) })
}

func (r *FaultyRules) OnSignBeaconProposal(ctx context.Context, md *rules.ReqMetadata, req *rules.SignBeaconProposalData) rules.Result {
	return r.res("rules.OnSignBeaconProposal", md, func() rules.Result { return r.Service.OnSignBeaconProposal(ctx, md, req) })
}

func (r *FaultyRules) OnSignBeaconAttestations(ctx context.Context, md []*rules.ReqMetadata, req []*rules.SignBeaconAttestationData) []rules.Result {
	all := func(v rules.Result) []rules.Result {
		l := make([]rules.Result, len(req))
		for i := range l {
			l[i] = v
		}
		return l
	}
	switch r.Env.Choose("rules.OnSignBeaconAttestations", 9, "*", "*", "*", fmt.Sprintf("pos:%d", len(req)-1), "*", "pos:0", fmt.Sprintf("pos:%d", len(req)-1), "pos:1") {
	case 1:
		return all(rules.UNKNOWN)
	case 2:
		return all(rules.FAILED)
	case 3:
		return all(rules.DENIED)
	case 4: // short list: the real answer minus its last element
		res := r.Service.OnSignBeaconAttestations(ctx, md, req)
		if len(res) > 0 {
			return res[:len(res)-1]
		}
		return res
	case 5:
		return nil
	case 6: // a definite answer for every entry but the first, which is indeterminate
		res := r.Service.OnSignBeaconAttestations(ctx, md, req)
		if len(res) > 0 {
			res[0] = rules.UNKNOWN
		}
		return res
	case 7: // ... but the last (an indeterminate answer right after approvals)
		res := r.Service.OnSignBeaconAttestations(ctx, md, req)
		if len(res) > 0 {
			res[len(res)-1] = rules.UNKNOWN
		}
		return res
	case 8: // ... but the second, which failed
		res := r.Service.OnSignBeaconAttestations(ctx, md, req)
		if len(res) > 1 {
			res[1] = rules.FAILED
		}
		return res
	}
	return r.Service.OnSignBeaconAttestations(ctx, md, req)
}

// FaultyRuler wraps the ruler service: the answer the signer gets may be indeterminate or failed for the whole request or
// indeterminate at one position. The list always has one result per entry (the ruler is Dirk's own code and guarantees
// that; a ruler that returns a list of another length is not a behaviour of any dependency).
type FaultyRuler struct {
	ruler.Service
	Env Env
}

// RunRules implements ruler.Service.
func (r *FaultyRuler) RunRules(ctx context.Context, credentials *checker.Credentials, action string, data []*ruler.RulesData) []rules.Result {
	last := fmt.Sprintf("pos:%d", len(data)-1)
	all := func(v rules.Result) []rules.Result {
		l := make([]rules.Result, len(data))
		for i := range l {
			l[i] = v
		}
		return l
	}
	switch r.Env.Choose("ruler.RunRules", 5, "*", "*", last, "pos:0") {
	case 1:
		return all(rules.UNKNOWN)
	case 2:
		return all(rules.FAILED)
	case 3:
		res := r.Service.RunRules(ctx, credentials, action, data)
		if len(res) > 0 {
			res[len(res)-1] = rules.UNKNOWN
		}
		return res
	case 4:
		res := r.Service.RunRules(ctx, credentials, action, data)
		if len(res) > 0 {
			res[0] = rules.UNKNOWN
		}
		return res
	}
	return r.Service.RunRules(ctx, credentials, action, data)
}
