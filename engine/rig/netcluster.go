package rig

import (
	"context"
	"crypto/ecdsa"
	"crypto/elliptic"
	"crypto/rand"
	"crypto/tls"
	"crypto/x509"
	"crypto/x509/pkix"
	"encoding/pem"
	"fmt"
	"google.golang.org/grpc"
	"google.golang.org/grpc/credentials"
	"math/big"
	"net"
	"time"

	"github.com/attestantio/dirk/core"
	grpcapi "github.com/attestantio/dirk/services/api/grpc"
	"github.com/attestantio/dirk/services/checker"
	sendergrpc "github.com/attestantio/dirk/services/sender/grpc"
)

// NetNode is one instance of a NetCluster.
type NetNode struct {
	ID     uint64
	Name   string // its loopback address, which is also the name in its certificate and in the peers map
	Port   int
	Rig    *SignerRig
	cancel context.CancelFunc
	// Its certificate (public) and key.
	certDER, certPEM, keyPEM []byte
}

// NetCluster is a set of real Dirk instances that talk to each other the way deployed instances do: each runs the real
// gRPC API server (services/api/grpc) on its own loopback address with a certificate from a common authority, and
// sends protocol messages with the real gRPC sender (services/sender/grpc, connection pools and TLS client credentials
// included). Peer names are loopback addresses (127.0.0.11, .12, ...), so nothing has to be resolved.
type NetCluster struct {
	Nodes map[uint64]*NetNode
	IDs   []uint64
	// The cluster's certificate authority (callers of a check's own making are issued certificates by it).
	ca    *x509.Certificate
	caKey *ecdsa.PrivateKey
	caPEM []byte
}

// CallerCert describes a client certificate issued by the cluster's authority.
type CallerCert struct {
	CommonName string
	DNS        []string
	// AppendCertOf (optional): the public certificate of this node is presented behind the caller's own (nobody verifies
	// what follows the leaf).
	AppendCertOf uint64
	// AppendDER (optional): further certificates presented behind the caller's own.
	AppendDER [][]byte
}

// IssueDER returns a certificate of the cluster's authority for the subject (its public part is all a third party ever
// sees of it).
func (c *NetCluster) IssueDER(commonName string) ([]byte, error) {
	key, err := ecdsa.GenerateKey(elliptic.P256(), rand.Reader)
	if err != nil {
		return nil, err
	}
	tmpl := &x509.Certificate{SerialNumber: big.NewInt(time.Now().UnixNano()), Subject: pkix.Name{CommonName: commonName}, NotBefore: time.Now().Add(-time.Hour), NotAfter: time.Now().Add(24 * time.Hour),
		KeyUsage: x509.KeyUsageDigitalSignature, ExtKeyUsage: []x509.ExtKeyUsage{x509.ExtKeyUsageClientAuth}}
	return x509.CreateCertificate(rand.Reader, tmpl, c.ca, &key.PublicKey, c.caKey)
}

// DialAs connects to a node's API server as a caller holding the described certificate.
func (c *NetCluster) DialAs(node uint64, cc CallerCert) (*grpc.ClientConn, error) {
	key, err := ecdsa.GenerateKey(elliptic.P256(), rand.Reader)
	if err != nil {
		return nil, err
	}
	tmpl := &x509.Certificate{
		SerialNumber: big.NewInt(time.Now().UnixNano()),
		Subject:      pkix.Name{CommonName: cc.CommonName},
		DNSNames:     cc.DNS,
		NotBefore:    time.Now().Add(-time.Hour),
		NotAfter:     time.Now().Add(24 * time.Hour),
		KeyUsage:     x509.KeyUsageDigitalSignature,
		ExtKeyUsage:  []x509.ExtKeyUsage{x509.ExtKeyUsageClientAuth},
	}
	der, err := x509.CreateCertificate(rand.Reader, tmpl, c.ca, &key.PublicKey, c.caKey)
	if err != nil {
		return nil, err
	}
	chain := [][]byte{der}
	if cc.AppendCertOf != 0 {
		chain = append(chain, c.Nodes[cc.AppendCertOf].certDER)
	}
	chain = append(chain, cc.AppendDER...)
	pool := x509.NewCertPool()
	pool.AppendCertsFromPEM(c.caPEM)
	crt := tls.Certificate{Certificate: chain, PrivateKey: key}
	n := c.Nodes[node]
	cfg := &tls.Config{RootCAs: pool, ServerName: n.Name, MinVersion: tls.VersionTLS13,
		GetClientCertificate: func(*tls.CertificateRequestInfo) (*tls.Certificate, error) { return &crt, nil }}
	return grpc.NewClient(fmt.Sprintf("passthrough:///%s:%d", n.Name, n.Port), grpc.WithTransportCredentials(credentials.NewTLS(cfg)))
}

// DialAsNode connects to a node's API server with another node's own certificate and key (a genuine peer).
func (c *NetCluster) DialAsNode(node, as uint64) (*grpc.ClientConn, error) {
	crt, err := tls.X509KeyPair(c.Nodes[as].certPEM, c.Nodes[as].keyPEM)
	if err != nil {
		return nil, err
	}
	pool := x509.NewCertPool()
	pool.AppendCertsFromPEM(c.caPEM)
	n := c.Nodes[node]
	cfg := &tls.Config{RootCAs: pool, ServerName: n.Name, MinVersion: tls.VersionTLS13, Certificates: []tls.Certificate{crt}}
	return grpc.NewClient(fmt.Sprintf("passthrough:///%s:%d", n.Name, n.Port), grpc.WithTransportCredentials(credentials.NewTLS(cfg)))
}

func mintFor(subject string, ip net.IP, isCA bool, parent *x509.Certificate, signKey *ecdsa.PrivateKey) (*x509.Certificate, *ecdsa.PrivateKey, []byte, []byte, error) {
	key, err := ecdsa.GenerateKey(elliptic.P256(), rand.Reader)
	if err != nil {
		return nil, nil, nil, nil, err
	}
	tmpl := &x509.Certificate{
		SerialNumber: big.NewInt(time.Now().UnixNano()),
		Subject:      pkix.Name{CommonName: subject},
		NotBefore:    time.Now().Add(-time.Hour),
		NotAfter:     time.Now().Add(24 * time.Hour),
		KeyUsage:     x509.KeyUsageDigitalSignature,
		ExtKeyUsage:  []x509.ExtKeyUsage{x509.ExtKeyUsageClientAuth, x509.ExtKeyUsageServerAuth},
		IsCA:         isCA, BasicConstraintsValid: true,
	}
	if ip != nil {
		tmpl.IPAddresses = []net.IP{ip}
	}
	if isCA {
		tmpl.KeyUsage |= x509.KeyUsageCertSign
	}
	p, sk := tmpl, key
	if parent != nil {
		p, sk = parent, signKey
	}
	der, err := x509.CreateCertificate(rand.Reader, tmpl, p, &key.PublicKey, sk)
	if err != nil {
		return nil, nil, nil, nil, err
	}
	cert, err := x509.ParseCertificate(der)
	if err != nil {
		return nil, nil, nil, nil, err
	}
	kb, _ := x509.MarshalECPrivateKey(key)
	return cert, key, pem.EncodeToMemory(&pem.Block{Type: "CERTIFICATE", Bytes: der}), pem.EncodeToMemory(&pem.Block{Type: "EC PRIVATE KEY", Bytes: kb}), nil
}

// NewNetCluster builds the instances; permissions as in NewCluster (the default client may do everything).
func NewNetCluster(ids []uint64) (*NetCluster, error) {
	return NewNetClusterUnknown(ids, nil)
}

// NewNetClusterUnknown is NewNetCluster in which instance k's peer table lacks the peers unknown[k] (configurations are
// rolled out one instance at a time).
func NewNetClusterUnknown(ids []uint64, unknown map[uint64][]uint64) (*NetCluster, error) {
	Init()
	ca, caKey, caPEM, _, err := mintFor("Harness authority", nil, true, nil, nil)
	if err != nil {
		return nil, err
	}
	c := &NetCluster{Nodes: map[uint64]*NetNode{}, IDs: append([]uint64{}, ids...), ca: ca, caKey: caKey, caPEM: caPEM}
	peersMap := map[uint64]string{}
	for _, id := range ids {
		ip := fmt.Sprintf("127.0.0.%d", 10+id)
		l, err := net.Listen("tcp", ip+":0")
		if err != nil {
			return nil, fmt.Errorf("cannot listen on %s: %w", ip, err)
		}
		port := l.Addr().(*net.TCPAddr).Port
		l.Close()
		c.Nodes[id] = &NetNode{ID: id, Name: ip, Port: port}
		peersMap[id] = fmt.Sprintf("%s:%d", ip, port)
	}
	perms := map[string][]*checker.Permissions{DefaultClient: {{Path: DistWallet, Operations: []string{"All"}}, {Path: "Wallet 1", Operations: []string{"All"}}}}
	for _, id := range ids {
		n := c.Nodes[id]
		ncert, _, crt, key, err := mintFor(n.Name, net.ParseIP(n.Name), false, ca, caKey)
		if err != nil {
			c.Close()
			return nil, err
		}
		n.certDER, n.certPEM, n.keyPEM = ncert.Raw, crt, key
		ctx, cancel := context.WithCancel(context.Background())
		n.cancel = cancel
		snd, err := sendergrpc.New(ctx, sendergrpc.WithName(n.Name), sendergrpc.WithServerCert(crt), sendergrpc.WithServerKey(key), sendergrpc.WithCACert(caPEM))
		if err != nil {
			c.Close()
			return nil, err
		}
		r, err := NewSignerRig(SignerOpts{Wallets: []string{"Wallet 1"}, DistWallets: []string{DistWallet}, Permissions: perms, Full: true,
			ProcessID: id, PeersMap: func() map[uint64]string {
				if len(unknown[id]) == 0 {
					return peersMap
				}
				m := map[uint64]string{}
				for pid, addr := range peersMap {
					m[pid] = addr
				}
				for _, pid := range unknown[id] {
					delete(m, pid)
				}
				return m
			}(), Sender: snd})
		if err != nil {
			c.Close()
			return nil, err
		}
		n.Rig = r
		if _, err := grpcapi.New(ctx,
			grpcapi.WithSigner(r.Signer), grpcapi.WithLister(r.Lister), grpcapi.WithProcess(r.Process),
			grpcapi.WithAccountManager(r.AcctMgr), grpcapi.WithWalletManager(r.WalletMgr), grpcapi.WithPeers(r.Peers),
			grpcapi.WithName(n.Name), grpcapi.WithID(id),
			grpcapi.WithServerCert(crt), grpcapi.WithServerKey(key), grpcapi.WithCACert(caPEM),
			grpcapi.WithListenAddress(fmt.Sprintf("%s:%d", n.Name, n.Port))); err != nil {
			c.Close()
			return nil, err
		}
	}
	return c, nil
}

// Close stops the servers and closes the rigs.
func (c *NetCluster) Close() {
	for _, n := range c.Nodes {
		if n.cancel != nil {
			n.cancel()
		}
		if n.Rig != nil {
			n.Rig.Close()
		}
	}
}

// Generate asks node `initiator` to generate a distributed account, as a client with the default identity.
func (c *NetCluster) Generate(initiator uint64, account string, threshold, participants uint32) ([]byte, error) {
	pk, _, err := c.GenerateParts(initiator, account, threshold, participants)
	return pk, err
}

// GenerateParts is Generate, also returning the participants the instance reports.
func (c *NetCluster) GenerateParts(initiator uint64, account string, threshold, participants uint32) ([]byte, []*core.Endpoint, error) {
	n := c.Nodes[initiator]
	creds := &checker.Credentials{Client: DefaultClient, RequestID: "gen", IP: "10.0.0.1"}
	return n.Rig.Process.OnGenerate(n.Rig.Ctx, creds, account, []byte("pass"), threshold, participants)
}

// View presents the instances as a Cluster (for oracles that inspect the instances; it cannot send or intercept).
func (c *NetCluster) View() *Cluster {
	v := &Cluster{Nodes: map[uint64]*Node{}, IDs: append([]uint64{}, c.IDs...)}
	for id, n := range c.Nodes {
		v.Nodes[id] = &Node{ID: id, Name: n.Name, Rig: n.Rig, cluster: v}
	}
	return v
}
