// Package rig builds real Dirk service stacks for the explorers.
package rig

import (
	"context"
	"crypto/sha256"
	"encoding/binary"
	"encoding/hex"
	"errors"
	"fmt"
	zerologger "github.com/rs/zerolog/log"
	"io"
	"os"
	"strings"
	"sync"
	"sync/atomic"
	"time"

	"github.com/attestantio/dirk/rules"
	standardrules "github.com/attestantio/dirk/rules/standard"
	"github.com/attestantio/dirk/services/accountmanager"
	standardaccountmanager "github.com/attestantio/dirk/services/accountmanager/standard"
	"github.com/attestantio/dirk/services/checker"
	staticchecker "github.com/attestantio/dirk/services/checker/static"
	"github.com/attestantio/dirk/services/fetcher"
	memfetcher "github.com/attestantio/dirk/services/fetcher/mem"
	"github.com/attestantio/dirk/services/lister"
	standardlister "github.com/attestantio/dirk/services/lister/standard"
	"github.com/attestantio/dirk/services/locker"
	syncmaplocker "github.com/attestantio/dirk/services/locker/syncmap"
	"github.com/attestantio/dirk/services/peers"
	staticpeers "github.com/attestantio/dirk/services/peers/static"
	"github.com/attestantio/dirk/services/process"
	standardprocess "github.com/attestantio/dirk/services/process/standard"
	"github.com/attestantio/dirk/services/ruler"
	goruler "github.com/attestantio/dirk/services/ruler/golang"
	"github.com/attestantio/dirk/services/sender"
	mocksender "github.com/attestantio/dirk/services/sender/mock"
	"github.com/attestantio/dirk/services/signer"
	standardsigner "github.com/attestantio/dirk/services/signer/standard"
	"github.com/attestantio/dirk/services/unlocker"
	localunlocker "github.com/attestantio/dirk/services/unlocker/local"
	"github.com/attestantio/dirk/services/walletmanager"
	standardwalletmanager "github.com/attestantio/dirk/services/walletmanager/standard"
	"github.com/attestantio/dirk/util/verifhook"
	"github.com/google/uuid"
	"github.com/rs/zerolog"
	e2types "github.com/wealdtech/go-eth2-types/v2"
	distributed "github.com/wealdtech/go-eth2-wallet-distributed"
	nd "github.com/wealdtech/go-eth2-wallet-nd/v2"
	scratch "github.com/wealdtech/go-eth2-wallet-store-scratch"
	e2wtypes "github.com/wealdtech/go-eth2-wallet-types/v2"
)

var blsOnce sync.Once

// Init initialises BLS and silences logging.
func Init() {
	blsOnce.Do(func() {
		if err := e2types.InitBLS(); err != nil {
			panic(err)
		}
		zerolog.SetGlobalLevel(zerolog.Disabled)
	})
}

// Verbose switches the logging of services built from now on: on = trace level (written to nowhere), off = disabled, which
// is what every check runs with unless it says otherwise. What a request is answered must not depend on what is logged.
func Verbose(on bool) {
	Init()
	if on {
		zerologger.Logger = zerolog.New(io.Discard)
		zerolog.SetGlobalLevel(zerolog.TraceLevel)
		return
	}
	zerolog.SetGlobalLevel(zerolog.Disabled)
}

// Scratch returns a fresh scratch directory (under /dev/shm when available).
func Scratch(prefix string) string {
	base := os.Getenv("VERIF_SCRATCH")
	if base == "" {
		if st, err := os.Stat("/dev/shm"); err == nil && st.IsDir() {
			base = "/dev/shm"
		} else {
			base = os.TempDir()
		}
	}
	d, err := os.MkdirTemp(base, "verif-"+prefix+"-")
	if err != nil {
		panic(err)
	}
	return d
}

// PlainEncryptor is a trivial e2wtypes.Encryptor: the encryptor is not under test and keystore-v4 costs 77 ms per call.
// It reports the name and version of keystore-v4 because the distributed wallet refuses to read back anything else.
type PlainEncryptor struct{}

func (PlainEncryptor) Name() string   { return "keystore" }
func (PlainEncryptor) Version() uint  { return 4 }
func (PlainEncryptor) String() string { return "keystorev4" }
func (PlainEncryptor) Encrypt(data []byte, key string) (map[string]any, error) {
	return map[string]any{"data": hex.EncodeToString(data), "key": hex.EncodeToString([]byte(key))}, nil
}
func (PlainEncryptor) Decrypt(data map[string]any, key string) ([]byte, error) {
	k, _ := data["key"].(string)
	if k != hex.EncodeToString([]byte(key)) {
		return nil, errors.New("incorrect passphrase")
	}
	d, _ := data["data"].(string)
	return hex.DecodeString(d)
}

// Acct is a light-weight real-key account held in the fetcher's dynamic overlay.
type Acct struct {
	id       uuid.UUID
	name     string
	priv     e2types.PrivateKey
	pub      e2types.PublicKey
	pass     string
	unlocked atomic.Bool
	// Hooks (may be nil).
	OnSign       func(a *Acct, data []byte) error
	OnIsUnlocked func(a *Acct) error
}

func (a *Acct) ID() uuid.UUID                { return a.id }
func (a *Acct) Name() string                 { return a.name }
func (a *Acct) PublicKey() e2types.PublicKey { return a.pub }
func (a *Acct) Lock(context.Context) error   { a.unlocked.Store(false); return nil }
func (a *Acct) Unlock(_ context.Context, p []byte) error {
	if string(p) != a.pass {
		return errors.New("incorrect passphrase")
	}
	a.unlocked.Store(true)
	return nil
}
func (a *Acct) IsUnlocked(context.Context) (bool, error) {
	if a.OnIsUnlocked != nil {
		if err := a.OnIsUnlocked(a); err != nil {
			return false, err
		}
	}
	return a.unlocked.Load(), nil
}
func (a *Acct) Sign(_ context.Context, data []byte) (e2types.Signature, error) {
	if !a.unlocked.Load() {
		return nil, errors.New("cannot sign when account is locked")
	}
	if a.OnSign != nil {
		if err := a.OnSign(a, data); err != nil {
			return nil, err
		}
	}
	if a.priv == nil {
		return SymSig(SymSigBytes(a.pub.Marshal(), data)), nil
	}
	return a.priv.Sign(data), nil
}

// SymPub is a symbolic public key: 48 unique bytes that are not a curve point.
type SymPub [48]byte

func (p SymPub) Marshal() []byte             { return append([]byte{}, p[:]...) }
func (p SymPub) Aggregate(e2types.PublicKey) { panic("symbolic key") }
func (p SymPub) Copy() e2types.PublicKey     { return p }

// SymSig is a symbolic signature: a collision-resistant function of (public key, message).
// It lets a check decide "the account addressed by the request signed exactly this message" by
// comparing bytes, without the cost of a pairing (BLS itself is not Dirk's code).
type SymSig []byte

func (s SymSig) Verify(msg []byte, pub e2types.PublicKey) bool {
	return string(SymSigBytes(pub.Marshal(), msg)) == string(s)
}
func (s SymSig) VerifyAggregate([][]byte, []e2types.PublicKey) bool     { return false }
func (s SymSig) VerifyAggregateCommon([]byte, []e2types.PublicKey) bool { return false }
func (s SymSig) Marshal() []byte                                        { return append([]byte{}, s...) }

// SymSigBytes is the 96-byte symbolic signature of msg under pub.
func SymSigBytes(pub []byte, msg []byte) []byte {
	out := make([]byte, 0, 96)
	for i := byte(0); i < 3; i++ {
		h := sha256.New()
		h.Write([]byte{i})
		h.Write(pub)
		h.Write(msg)
		out = h.Sum(out)
	}
	return out
}

// NewSymAcct makes a fresh account with a symbolic key.
func NewSymAcct(name, pass string, unlocked bool) *Acct {
	n := keyCounter.Add(1)
	var buf [17]byte
	binary.LittleEndian.PutUint64(buf[:8], n)
	binary.LittleEndian.PutUint64(buf[8:16], uint64(os.Getpid()))
	var p SymPub
	buf[16] = 0
	h := sha256.Sum256(buf[:])
	copy(p[:32], h[:])
	buf[16] = 1
	h = sha256.Sum256(buf[:])
	copy(p[32:], h[:16])
	a := &Acct{id: uuid.New(), name: name, pub: p, pass: pass}
	a.unlocked.Store(unlocked)
	return a
}

// SymAcctFromSeed makes a symbolic-key account whose key depends only on the seed (stable across processes).
func SymAcctFromSeed(name string, seed string, pass string, unlocked bool) *Acct {
	var p SymPub
	h := sha256.Sum256([]byte("seed0:" + seed))
	copy(p[:32], h[:])
	h = sha256.Sum256([]byte("seed1:" + seed))
	copy(p[32:], h[:16])
	a := &Acct{id: uuid.New(), name: name, pub: p, pass: pass}
	a.unlocked.Store(unlocked)
	return a
}

// IsSym reports whether the account has a symbolic key.
func (a *Acct) IsSym() bool { return a.priv == nil }

// PubBytes returns the marshalled public key.
func (a *Acct) PubBytes() []byte { return a.pub.Marshal() }

// Pub48 returns the public key as an array.
func (a *Acct) Pub48() [48]byte {
	var k [48]byte
	copy(k[:], a.pub.Marshal())
	return k
}

var keyCounter atomic.Uint64

// NewKey derives a deterministic-per-process fresh private key.
func NewKey() e2types.PrivateKey {
	n := keyCounter.Add(1)
	var buf [16]byte
	binary.LittleEndian.PutUint64(buf[:8], n)
	binary.LittleEndian.PutUint64(buf[8:], uint64(os.Getpid()))
	h := sha256.Sum256(buf[:])
	h[0] = 0 // below the group order
	k, err := e2types.BLSPrivateKeyFromBytes(h[:])
	if err != nil {
		panic(err)
	}
	return k
}

// NewAcct makes a fresh account (not yet known to any fetcher).
func NewAcct(name, pass string, unlocked bool) *Acct {
	k := NewKey()
	a := &Acct{id: uuid.New(), name: name, priv: k, pub: k.PublicKey(), pass: pass}
	a.unlocked.Store(unlocked)
	return a
}

// Wrap lets a check wrap the dependencies of the signer.
type Wrap struct {
	Fetcher  func(fetcher.Service) fetcher.Service
	Checker  func(checker.Service) checker.Service
	Unlocker func(unlocker.Service) unlocker.Service
	Rules    func(rules.Service) rules.Service
	Ruler    func(ruler.Service) ruler.Service
	Locker   func(locker.Service) locker.Service
}

// SignerOpts configures a signer rig.
type SignerOpts struct {
	Dir         string // storage directory; created if empty
	Wallets     []string
	Permissions map[string][]*checker.Permissions
	AdminIPs    []string
	AcctPasses  []string
	// GenPass (optional) is the instance's own generation passphrase (default "pass").
	GenPass string
	Wrap    Wrap
	// Full also builds lister, account manager, wallet manager and a single-instance process service.
	Full bool
	// DistWallets are created as distributed wallets.
	DistWallets []string
	// DKG configuration of the process service (Full rigs only); zero values give a single-instance process.
	ProcessID  uint64
	PeersMap   map[uint64]string
	Sender     sender.Service
	PeersWrap  func(peers.Service) peers.Service
	GenTimeout time.Duration
	// PointStore: see ClusterOpts.PointStore.
	PointStore bool
	// Populate is called after the wallets were created and before the account cache is built.
	Populate func(ctx context.Context, store e2wtypes.Store, enc e2wtypes.Encryptor) error
}

// SignerRig is a full real signing stack.
type SignerRig struct {
	Ctx         context.Context
	cancel      context.CancelFunc
	Dir         string
	ownDir      bool
	opts        SignerOpts
	WStore      e2wtypes.Store
	Wallets     map[string]e2wtypes.Wallet
	Fetcher     fetcher.Service
	RealFetch   *memfetcher.Service
	Checker     checker.Service
	Unlocker    unlocker.Service
	Locker      locker.Service
	Rules       *standardrules.Service
	RulesI      rules.Service
	Ruler       ruler.Service
	Signer      signer.Service
	Lister      lister.Service
	AcctMgr     accountmanager.Service
	WalletMgr   walletmanager.Service
	Process     process.Service
	RealProcess *standardprocess.Service
	Peers       peers.Service
	nacct       int
	rulesCancel context.CancelFunc
}

// DefaultClient is the client name with All permissions on every rig wallet by default.
const DefaultClient = "client1"

// NewSignerRig builds the stack.
func NewSignerRig(o SignerOpts) (*SignerRig, error) {
	Init()
	r := &SignerRig{opts: o}
	r.Ctx, r.cancel = context.WithCancel(context.Background())
	if o.Dir == "" {
		r.Dir = Scratch("sig")
		r.ownDir = true
	} else {
		r.Dir = o.Dir
	}
	if len(o.Wallets) == 0 {
		o.Wallets = []string{"Wallet 1"}
	}
	r.WStore = scratch.New()
	if o.PointStore {
		r.WStore = &pointStore{Store: r.WStore}
	}
	enc := PlainEncryptor{}
	r.Wallets = map[string]e2wtypes.Wallet{}
	for _, w := range o.Wallets {
		if _, err := nd.CreateWallet(r.Ctx, w, r.WStore, enc); err != nil {
			return nil, err
		}
	}
	for _, w := range o.DistWallets {
		if _, err := distributed.CreateWallet(r.Ctx, w, r.WStore, enc); err != nil {
			return nil, err
		}
	}
	if o.Populate != nil {
		if err := o.Populate(r.Ctx, r.WStore, enc); err != nil {
			return nil, err
		}
	}
	var err error
	r.RealFetch, err = memfetcher.New(r.Ctx, memfetcher.WithStores([]e2wtypes.Store{r.WStore}), memfetcher.WithEncryptor(enc))
	if err != nil {
		return nil, err
	}
	for _, w := range append(append([]string{}, o.Wallets...), o.DistWallets...) {
		wl, err := r.RealFetch.FetchWallet(r.Ctx, w)
		if err != nil {
			return nil, err
		}
		r.Wallets[w] = wl
	}
	r.Fetcher = r.RealFetch
	if o.Wrap.Fetcher != nil {
		r.Fetcher = o.Wrap.Fetcher(r.Fetcher)
	}
	perms := o.Permissions
	if perms == nil {
		perms = map[string][]*checker.Permissions{}
		for _, w := range o.Wallets {
			perms[DefaultClient] = append(perms[DefaultClient], &checker.Permissions{Path: w, Operations: []string{"All"}})
		}
	}
	r.Checker, err = staticchecker.New(r.Ctx, staticchecker.WithPermissions(perms))
	if err != nil {
		return nil, err
	}
	if o.Wrap.Checker != nil {
		r.Checker = o.Wrap.Checker(r.Checker)
	}
	passes := o.AcctPasses
	if passes == nil {
		passes = []string{"pass"}
	}
	r.Unlocker, err = localunlocker.New(r.Ctx, localunlocker.WithAccountPassphrases(passes), localunlocker.WithWalletPassphrases([]string{"pass"}))
	if err != nil {
		return nil, err
	}
	if o.Wrap.Unlocker != nil {
		r.Unlocker = o.Wrap.Unlocker(r.Unlocker)
	}
	// Services of an unrelated deployment live in the same process (Dirk's own multi-daemon tests do that): a
	// permission table that allows everybody everything and an unlocker that knows other passphrases. They are never
	// asked anything, and nothing they were configured with may show in what this rig's services do.
	if _, err := staticchecker.New(r.Ctx, staticchecker.WithPermissions(map[string][]*checker.Permissions{
		DefaultClient: {{Path: ".*", Operations: []string{"All"}}}, "stranger": {{Path: ".*", Operations: []string{"All"}}}, "c1": {{Path: ".*", Operations: []string{"All"}}}, "c2": {{Path: ".*", Operations: []string{"All"}}}, "c3": {{Path: ".*", Operations: []string{"All"}}},
	})); err != nil {
		return nil, err
	}
	if _, err := localunlocker.New(r.Ctx, localunlocker.WithAccountPassphrases([]string{"pass", "other", "gen-1", "gen-2", "gen-3"}), localunlocker.WithWalletPassphrases([]string{"pass", "other"})); err != nil {
		return nil, err
	}
	if err := r.openRules(); err != nil {
		return nil, err
	}
	return r, nil
}

func (r *SignerRig) openRules() error {
	var err error
	// The rules service gets its own context: cancelling it closes the store (as in the daemon). It is cancelled
	// after every explicit close so that the service's watcher goroutine does not pin the closed database in memory.
	var rctx context.Context
	rctx, r.rulesCancel = context.WithCancel(context.Background())
	rs, err := standardrules.New(rctx, standardrules.WithStoragePath(r.Dir), standardrules.WithAdminIPs(r.opts.AdminIPs))
	for attempt := 0; err != nil && strings.Contains(err.Error(), "Cannot acquire directory lock") && attempt < 20; attempt++ {
		// See rig.CLI: a forked child of another goroutine may hold the lock file's descriptor until it execs.
		time.Sleep(time.Duration(20*(attempt+1)) * time.Millisecond)
		rs, err = standardrules.New(rctx, standardrules.WithStoragePath(r.Dir), standardrules.WithAdminIPs(r.opts.AdminIPs))
	}
	if err != nil {
		r.rulesCancel()
		return err
	}
	r.Rules = rs
	r.RulesI = r.Rules
	if r.opts.Wrap.Rules != nil {
		r.RulesI = r.opts.Wrap.Rules(r.RulesI)
	}
	lk, err := syncmaplocker.New(r.Ctx)
	if err != nil {
		return err
	}
	r.Locker = lk
	if r.opts.Wrap.Locker != nil {
		r.Locker = r.opts.Wrap.Locker(r.Locker)
	}
	r.Ruler, err = goruler.New(r.Ctx, goruler.WithLocker(r.Locker), goruler.WithRules(r.RulesI))
	if err != nil {
		return err
	}
	if r.opts.Wrap.Ruler != nil {
		r.Ruler = r.opts.Wrap.Ruler(r.Ruler)
	}
	r.Signer, err = standardsigner.New(r.Ctx,
		standardsigner.WithUnlocker(r.Unlocker),
		standardsigner.WithChecker(r.Checker),
		standardsigner.WithFetcher(r.Fetcher),
		standardsigner.WithRuler(r.Ruler))
	if err != nil {
		return err
	}
	if !r.opts.Full {
		return nil
	}
	r.Lister, err = standardlister.New(r.Ctx, standardlister.WithFetcher(r.Fetcher), standardlister.WithChecker(r.Checker), standardlister.WithRuler(r.Ruler))
	if err != nil {
		return err
	}
	peersMap := r.opts.PeersMap
	if peersMap == nil {
		peersMap = map[uint64]string{1: "signer-test01:8881"}
	}
	realPeers, err := staticpeers.New(r.Ctx, staticpeers.WithPeers(peersMap))
	if err != nil {
		return err
	}
	r.Peers = realPeers
	if r.opts.PeersWrap != nil {
		r.Peers = r.opts.PeersWrap(r.Peers)
	}
	pid := r.opts.ProcessID
	if pid == 0 {
		pid = 1
	}
	var snd sender.Service = mocksender.New(pid)
	if r.opts.Sender != nil {
		snd = r.opts.Sender
	}
	genPass := "pass"
	if r.opts.GenPass != "" {
		genPass = r.opts.GenPass
	}
	timeout := r.opts.GenTimeout
	if timeout == 0 {
		timeout = time.Hour
	}
	r.RealProcess, err = standardprocess.New(r.Ctx,
		standardprocess.WithChecker(r.Checker),
		standardprocess.WithUnlocker(r.Unlocker),
		standardprocess.WithSender(snd),
		standardprocess.WithFetcher(r.Fetcher),
		standardprocess.WithEncryptor(PlainEncryptor{}),
		standardprocess.WithPeers(r.Peers),
		standardprocess.WithID(pid),
		standardprocess.WithStores([]e2wtypes.Store{r.WStore}),
		standardprocess.WithGenerationPassphrase([]byte(genPass)),
		standardprocess.WithGenerationTimeout(timeout))
	if err != nil {
		return err
	}
	r.Process = r.RealProcess
	r.AcctMgr, err = standardaccountmanager.New(r.Ctx,
		standardaccountmanager.WithUnlocker(r.Unlocker),
		standardaccountmanager.WithChecker(r.Checker),
		standardaccountmanager.WithFetcher(r.Fetcher),
		standardaccountmanager.WithRuler(r.Ruler),
		standardaccountmanager.WithProcess(r.Process))
	if err != nil {
		return err
	}
	r.WalletMgr, err = standardwalletmanager.New(r.Ctx,
		standardwalletmanager.WithUnlocker(r.Unlocker),
		standardwalletmanager.WithChecker(r.Checker),
		standardwalletmanager.WithFetcher(r.Fetcher),
		standardwalletmanager.WithRuler(r.Ruler))
	return err
}

// Restart closes the slashing-protection store and reopens it on the same directory,
// rebuilding locker, ruler and signer (the account cache survives, as its content is static).
func (r *SignerRig) Restart() error {
	if err := r.StopStore(); err != nil {
		return fmt.Errorf("close: %w", err)
	}
	return r.openRules()
}

// StopStore closes the slashing-protection store (e.g. to let the CLI use the directory).
func (r *SignerRig) StopStore() error {
	if r.Rules == nil {
		return nil
	}
	err := r.Rules.Close(r.Ctx)
	r.Rules = nil
	if r.rulesCancel != nil {
		r.rulesCancel()
	}
	return err
}

// StartStore reopens the store after StopStore and rebuilds the services depending on it.
func (r *SignerRig) StartStore() error { return r.openRules() }

// Adopt registers an existing account object with this rig's fetcher.
func (r *SignerRig) Adopt(wallet string, a *Acct) {
	if err := r.RealFetch.AddAccount(r.Ctx, r.Wallets[wallet], a); err != nil {
		panic(err)
	}
}

// AddSymAccount adds a fresh symbolic-key account through the real fetcher's AddAccount.
func (r *SignerRig) AddSymAccount(wallet string, name string, pass string, unlocked bool) *Acct {
	if name == "" {
		r.nacct++
		name = fmt.Sprintf("acct-%d", r.nacct)
	}
	a := NewSymAcct(name, pass, unlocked)
	if err := r.RealFetch.AddAccount(r.Ctx, r.Wallets[wallet], a); err != nil {
		panic(err)
	}
	return a
}

// AddAccount adds a fresh account to the given wallet through the real fetcher's AddAccount.
func (r *SignerRig) AddAccount(wallet string, name string, pass string, unlocked bool) *Acct {
	if name == "" {
		r.nacct++
		name = fmt.Sprintf("acct-%d", r.nacct)
	}
	a := NewAcct(name, pass, unlocked)
	if err := r.RealFetch.AddAccount(r.Ctx, r.Wallets[wallet], a); err != nil {
		panic(err)
	}
	return a
}

// Close tears the rig down.
func (r *SignerRig) Close() {
	_ = r.StopStore()
	r.cancel()
	if r.ownDir {
		_ = os.RemoveAll(r.Dir)
	}
}

// AttRecord reads and decodes the raw attestation record of a public key: (present, source, target, raw).
func (r *SignerRig) AttRecord(pub []byte) (bool, int64, int64, []byte) {
	key := append(append([]byte{}, pub...), 0x02)
	v, ok, err := r.Rules.VerifRawGet(r.Ctx, key)
	if err != nil {
		panic(err)
	}
	if !ok {
		return false, -1, -1, nil
	}
	if len(v) == 17 && v[0] == 1 {
		return true, int64(binary.LittleEndian.Uint64(v[1:9])), int64(binary.LittleEndian.Uint64(v[9:17])), v
	}
	return true, -2, -2, v
}

// PropRecord reads and decodes the raw proposal record of a public key.
func (r *SignerRig) PropRecord(pub []byte) (bool, int64, []byte) {
	key := append(append([]byte{}, pub...), 0x03)
	v, ok, err := r.Rules.VerifRawGet(r.Ctx, key)
	if err != nil {
		panic(err)
	}
	if !ok {
		return false, -1, nil
	}
	if len(v) == 9 && v[0] == 1 {
		return true, int64(binary.LittleEndian.Uint64(v[1:9])), v
	}
	return true, -2, v
}

// pointStore marks every wallet-store operation as an instrumentation point (see ClusterOpts.PointStore).
type pointStore struct {
	e2wtypes.Store
}

func (p *pointStore) point(op string) { _ = verifhook.Point(context.Background(), "wstore."+op) }

func (p *pointStore) StoreWallet(id uuid.UUID, name string, data []byte) error {
	p.point("storewallet")
	return p.Store.StoreWallet(id, name, data)
}

func (p *pointStore) RetrieveWallet(name string) ([]byte, error) {
	p.point("retrievewallet")
	return p.Store.RetrieveWallet(name)
}

func (p *pointStore) RetrieveWalletByID(id uuid.UUID) ([]byte, error) {
	p.point("retrievewalletbyid")
	return p.Store.RetrieveWalletByID(id)
}

func (p *pointStore) StoreAccount(walletID uuid.UUID, accountID uuid.UUID, data []byte) error {
	p.point("storeaccount")
	return p.Store.StoreAccount(walletID, accountID, data)
}

func (p *pointStore) RetrieveAccount(walletID uuid.UUID, accountID uuid.UUID) ([]byte, error) {
	p.point("retrieveaccount")
	return p.Store.RetrieveAccount(walletID, accountID)
}

func (p *pointStore) StoreAccountsIndex(walletID uuid.UUID, data []byte) error {
	p.point("storeindex")
	return p.Store.StoreAccountsIndex(walletID, data)
}

func (p *pointStore) RetrieveAccountsIndex(walletID uuid.UUID) ([]byte, error) {
	p.point("retrieveindex")
	return p.Store.RetrieveAccountsIndex(walletID)
}
