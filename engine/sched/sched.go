//go:build verifsched

// Package sched is a cooperative scheduler and preemption-bounded stateless explorer for the real
// locker/ruler/rules code. Scheduling points are the sync operations of services/locker/syncmap (through the
// overlay-injected shim) and the storage operations (through util/verifhook).
package sched

import (
	"context"
	"fmt"
	"os"
	"regexp"
	"runtime"
	"strings"
	"sync"
	"sync/atomic"
	"time"

	"github.com/attestantio/dirk/util/verifhook"
	"github.com/attestantio/dirk/util/verifsync"
)

// Watchdog bounds one step of one thread; it is hundreds of times larger than any real step.
var Watchdog = 20 * time.Second

type pending struct {
	kind string
	obj  any
}

// A thread is a schedulable entity. In token mode it is a logical thread: one body goroutine plus the helper goroutines
// that act on its behalf while it waits for them (util.Scatter workers), exactly one of which runs at a time. In
// goroutine mode it is a single goroutine: a body goroutine, or any other goroutine that reached a scheduling point
// (adopted).
type thread struct {
	id       int
	gid      uint64
	resume   chan struct{}
	pend     pending
	done     bool
	panicked any
	adopted  bool
	parked   bool   // waiting at a scheduling point (or not started yet)
	external bool   // goroutine mode: blocked in an operation the scheduler does not control
	parkedG  uint64 // token mode: the goroutine of this logical thread that waits at the point
}

// PointRec records one scheduling decision.
type PointRec struct {
	Enabled        []int  // thread ids in canonical order
	Choice         int    // index into Enabled
	RunningEnabled bool   // the thread that ran last is Enabled[0]
	Kind           string // pending operation of the chosen thread
}

// Exec is one complete execution.
type Exec struct {
	Points       []PointRec
	Deadlock     bool
	Blocked      []string // pending operations of the blocked threads at a deadlock
	Uncontrolled bool     // watchdog fired, execution finished free-running
	Stuck        bool     // watchdog fired and the threads did not finish free-running either
	Panics       map[int]string
	Misuse       []string // releases of a mutex nobody held (package sync would have ended the process)
	Preemptions  int
	// Anomaly (token mode only) says that goroutines of one logical thread ran side by side, or a goroutine ran although
	// its thread had not been resumed: the code under test detaches work from the request that started it. The
	// execution is void; the scenario has to be explored in goroutine mode.
	Anomaly string
	Adopted int // goroutine mode: goroutines that became threads of their own
}

// Choices returns the choice list of the execution.
func (x *Exec) Choices() []int {
	c := make([]int, len(x.Points))
	for i, p := range x.Points {
		c[i] = p.Choice
	}
	return c
}

// Schedule renders the sequence of (thread, operation) decisions.
func (x *Exec) Schedule() string {
	var sb strings.Builder
	for _, p := range x.Points {
		fmt.Fprintf(&sb, "%d:%s ", p.Enabled[p.Choice], p.Kind)
	}
	return strings.TrimSpace(sb.String())
}

// Sched runs one execution.
type Sched struct {
	mu      sync.Mutex // guards threads and byGid
	threads []*thread
	byGid   map[uint64]*thread
	cur     *thread
	events  chan *thread
	free    atomic.Bool
	step    int
	perG    bool // goroutine mode
	anomaly atomic.Pointer[string]
}

// Now returns the logical clock (number of scheduling decisions so far).
func (s *Sched) Now() int { return s.step }

// Point is a scheduling point of the harness's own (for example: the moment a client gives up on its request).
func (s *Sched) Point(kind string) { s.point(kind, nil) }

func goid() uint64 {
	var buf [64]byte
	n := runtime.Stack(buf[:], false)
	// "goroutine 123 ["
	var id uint64
	for _, c := range buf[10:n] {
		if c < '0' || c > '9' {
			break
		}
		id = id*10 + uint64(c-'0')
	}
	return id
}

func (s *Sched) flag(msg string) {
	s.anomaly.CompareAndSwap(nil, &msg)
	s.free.Store(true)
	// Let everything run to its end: the execution is void.
	s.mu.Lock()
	for _, u := range s.threads {
		select {
		case u.resume <- struct{}{}:
		default:
		}
	}
	s.mu.Unlock()
	select {
	case s.events <- nil:
	default:
	}
}

func (s *Sched) point(kind string, obj any) {
	if s.free.Load() {
		return
	}
	g := goid()
	s.mu.Lock()
	t := s.byGid[g]
	if s.perG {
		if t == nil {
			t = &thread{id: len(s.threads), gid: g, resume: make(chan struct{}, 1), adopted: true}
			s.threads = append(s.threads, t)
			s.byGid[g] = t
		}
		t.pend = pending{kind, obj}
		t.external = false
		t.parked = true
		s.mu.Unlock()
		s.events <- t
		<-t.resume
		return
	}
	// Token mode: the caller acts for the thread that was resumed last.
	cur := s.cur
	msg := ""
	switch {
	case t == nil:
		s.byGid[g] = cur
		t = cur
	case t != cur:
		msg = fmt.Sprintf("a goroutine of thread %d reached %s while thread %d was the one running", t.id, kind, cur.id)
	}
	if msg == "" && t.done {
		msg = fmt.Sprintf("a goroutine working for thread %d reached %s after the thread's requests had returned", t.id, kind)
	}
	if msg == "" && t.parkedG != 0 && t.parkedG != g {
		msg = fmt.Sprintf("two goroutines of thread %d are active at once (one waits at %s, another reached %s)", t.id, t.pend.kind, kind)
	}
	if msg != "" {
		s.mu.Unlock()
		s.flag(msg)
		return
	}
	t.pend = pending{kind, obj}
	t.parkedG = g
	s.mu.Unlock()
	s.events <- t
	<-t.resume
}

func enabled(p pending) bool {
	switch p.kind {
	case "lock":
		switch m := p.obj.(type) {
		case *verifsync.Mutex:
			return !m.Held()
		case *verifsync.RWMutex:
			return !m.WriteHeld() && m.Readers() == 0
		}
	case "rlock":
		if m, ok := p.obj.(*verifsync.RWMutex); ok {
			return !m.WriteHeld()
		}
	}
	return true
}

// ErrDiverged is returned when a prefix cannot be replayed.
type ErrDiverged struct{ Msg string }

func (e *ErrDiverged) Error() string { return "replay diverged: " + e.Msg }

var dumpBuf = make([]byte, 1<<20)

var goroutineHeader = regexp.MustCompile(`(?m)^goroutine (\d+) \[([^\],]+)`)

// quiescent takes a dump of all goroutines and reports whether none but the caller can run, together with the ids of
// the goroutines that exist. Wake-ups are synchronous in the Go runtime (the sender marks the receiver runnable), so once
// nothing is runnable nothing will become runnable except by a timer or by a decision of the scheduler.
func quiescent() (bool, map[uint64]bool) {
	buf := dumpBuf
	n := runtime.Stack(buf, true)
	if n == len(buf) {
		dumpBuf = make([]byte, 2*len(buf))
		return false, nil
	}
	alive := map[uint64]bool{}
	quiet := true
	first := true
	for _, m := range goroutineHeader.FindAllSubmatch(buf[:n], -1) {
		var id uint64
		for _, c := range m[1] {
			id = id*10 + uint64(c-'0')
		}
		alive[id] = true
		if first {
			first = false // the caller itself
			continue
		}
		switch string(m[2]) {
		case "running", "runnable", "syscall":
			quiet = false
		}
	}
	return quiet, alive
}

// Run executes bodies under the scheduler in token mode.
func Run(prefix []int, expect [][]int, bodies []func(s *Sched)) (*Exec, error) {
	return RunMode(prefix, expect, bodies, false)
}

// RunMode executes bodies under the scheduler, replaying prefix and then taking choice 0 at every later point.
// expect (optional) holds, for each prefix position, the enabled set recorded earlier; a difference is a hard error.
// perG selects goroutine mode, in which every goroutine that reaches a scheduling point is a thread of its own and a
// step ends when no goroutine of the process can run any more.
func RunMode(prefix []int, expect [][]int, bodies []func(s *Sched), perG bool) (*Exec, error) {
	s := &Sched{events: make(chan *thread, 1024), byGid: map[uint64]*thread{}, perG: perG}
	x := &Exec{Panics: map[int]string{}}
	n0 := runtime.NumGoroutine()
	var started sync.WaitGroup
	for i, b := range bodies {
		t := &thread{id: i, resume: make(chan struct{}, 1), pend: pending{kind: "start"}, parked: true}
		s.threads = append(s.threads, t)
		started.Add(1)
		go func(t *thread, b func(s *Sched)) {
			t.gid = goid()
			s.mu.Lock()
			s.byGid[t.gid] = t
			s.mu.Unlock()
			started.Done()
			<-t.resume
			defer func() {
				if r := recover(); r != nil {
					t.panicked = r
				}
				s.mu.Lock()
				t.done = true
				left := !s.perG && t.parkedG != 0 && t.parkedG != t.gid
				s.mu.Unlock()
				if left && !s.free.Load() {
					s.flag(fmt.Sprintf("the requests of thread %d returned while a goroutine working for them still waits at %s", t.id, t.pend.kind))
				}
				s.events <- t
			}()
			b(s)
		}(t, b)
	}
	started.Wait()
	var misuseMu sync.Mutex
	verifsync.SetHooks(&verifsync.Hooks{Point: s.point, Misuse: func(kind string, _ any) {
		misuseMu.Lock()
		x.Misuse = append(x.Misuse, kind)
		misuseMu.Unlock()
	}})
	verifhook.SetHandler(func(_ context.Context, site string, _ ...any) error {
		if strings.HasSuffix(site, ".exit") {
			return nil
		}
		s.point(site, nil)
		return nil
	})
	defer func() {
		verifsync.SetHooks(nil)
		verifhook.SetHandler(nil)
	}()
	finishFree := func() {
		// Finish free-running (the execution is void or uncontrolled).
		s.free.Store(true)
		s.mu.Lock()
		ths := append([]*thread{}, s.threads...)
		s.mu.Unlock()
		for _, u := range ths {
			select {
			case u.resume <- struct{}{}:
			default:
			}
		}
		deadline := time.After(Watchdog)
		for {
			n := 0
			s.mu.Lock()
			for _, u := range ths {
				if !u.done && !u.adopted {
					n++
				}
			}
			s.mu.Unlock()
			if n == 0 {
				break
			}
			select {
			case <-s.events:
			case <-deadline:
				x.Stuck = true
			}
			if x.Stuck {
				break
			}
		}
		for _, u := range ths {
			if u.panicked != nil {
				x.Panics[u.id] = fmt.Sprint(u.panicked)
			}
		}
		// Helper and detached goroutines must have come to rest before the next execution starts (they use the store).
		for begin := time.Now(); time.Since(begin) < Watchdog; {
			runtime.Gosched()
			if q, _ := quiescent(); q {
				break
			}
			time.Sleep(50 * time.Microsecond)
		}
	}

	last := -1
	for {
		s.mu.Lock()
		ths := append([]*thread{}, s.threads...)
		s.mu.Unlock()
		var en []int
		lastEnabled := false
		allDone := true
		for _, t := range ths {
			if t.done {
				continue
			}
			allDone = false
			if t.external || perG && !t.parked {
				continue
			}
			if enabled(t.pend) {
				if t.id == last {
					lastEnabled = true
				} else {
					en = append(en, t.id)
				}
			}
		}
		if lastEnabled {
			en = append([]int{last}, en...)
		}
		if allDone {
			break
		}
		if len(en) == 0 {
			x.Deadlock = true
			for _, t := range ths {
				if !t.done {
					if t.external {
						x.Blocked = append(x.Blocked, fmt.Sprintf("thread %d blocked in an operation outside the scheduler's control", t.id))
					} else {
						x.Blocked = append(x.Blocked, fmt.Sprintf("thread %d blocked at %s", t.id, t.pend.kind))
					}
				}
			}
			// The blocked goroutines are abandoned (they hold nothing the next execution uses).
			break
		}
		i := len(x.Points)
		c := 0
		if i < len(prefix) {
			c = prefix[i]
			if c >= len(en) {
				return x, &ErrDiverged{fmt.Sprintf("choice %d out of range at point %d (enabled %v)", c, i, en)}
			}
			if expect != nil && i < len(expect) && fmt.Sprint(expect[i]) != fmt.Sprint(en) {
				return x, &ErrDiverged{fmt.Sprintf("enabled set %v at point %d, recorded %v", en, i, expect[i])}
			}
		}
		t := ths[en[c]]
		if lastEnabled && c != 0 {
			x.Preemptions++
		}
		x.Points = append(x.Points, PointRec{Enabled: en, Choice: c, RunningEnabled: lastEnabled, Kind: t.pend.kind})
		s.cur = t
		s.step++
		last = t.id
		t.parked = false
		t.parkedG = 0
		t.resume <- struct{}{}
		if !perG {
			// Token mode: exactly one event, from the thread that was resumed.
			select {
			case ev := <-s.events:
				if a := s.anomaly.Load(); a != nil {
					x.Anomaly = *a
				} else if ev != t {
					x.Anomaly = fmt.Sprintf("thread %d reported while thread %d was the one running", ev.id, t.id)
				}
				if x.Anomaly == "" && x.Points[len(x.Points)-1].Kind == "cancel" {
					// An event of the environment can wake goroutines the scheduler believes to be waiting. Let them
					// run until nothing can run: whoever reports now was not resumed by the scheduler.
					for begin := time.Now(); time.Since(begin) < Watchdog; {
						runtime.Gosched()
						if q, _ := quiescent(); q {
							break
						}
						time.Sleep(50 * time.Microsecond)
					}
					if a := s.anomaly.Load(); a != nil {
						x.Anomaly = *a
					} else if len(s.events) > 0 {
						x.Anomaly = "a thread the scheduler had not resumed moved after a cancellation"
					}
				}
				if x.Anomaly != "" {
					finishFree()
					return x, nil
				}
			case <-time.After(Watchdog):
				// The running thread blocks in something outside scheduler control: finish free-running.
				x.Uncontrolled = true
				finishFree()
				return x, nil
			}
			continue
		}
		// Goroutine mode: the step ends when nothing in the process can run.
		begin := time.Now()
		for spins := 0; ; spins++ {
			runtime.Gosched()
			for more := true; more; {
				select {
				case <-s.events:
				default:
					more = false
				}
			}
			quiet, alive := quiescent()
			if quiet && len(s.events) == 0 {
				s.mu.Lock()
				for _, u := range s.threads {
					if u.done || u.parked {
						continue
					}
					if !alive[u.gid] {
						u.done = true // an adopted goroutine that has finished
					} else {
						u.external = true
					}
				}
				s.mu.Unlock()
				break
			}
			if time.Since(begin) > Watchdog {
				x.Uncontrolled = true
				finishFree()
				return x, nil
			}
			if spins > 20 {
				time.Sleep(50 * time.Microsecond)
			}
		}
	}
	if a := s.anomaly.Load(); a != nil {
		x.Anomaly = *a
		finishFree()
		return x, nil
	}
	if !perG && !x.Deadlock {
		// Every goroutine that worked for a thread must be gone once all requests have returned.
		for i := 0; i < 4 && runtime.NumGoroutine() > n0; i++ {
			runtime.Gosched()
		}
		if runtime.NumGoroutine() > n0 {
			var alive map[uint64]bool
			for begin := time.Now(); time.Since(begin) < Watchdog; {
				var q bool
				if q, alive = quiescent(); q {
					break
				}
				runtime.Gosched()
				time.Sleep(50 * time.Microsecond)
			}
			s.mu.Lock()
			for g, u := range s.byGid {
				if alive[g] && x.Anomaly == "" {
					x.Anomaly = fmt.Sprintf("a goroutine that worked for thread %d still exists after all requests have returned", u.id)
				}
			}
			s.mu.Unlock()
			if x.Anomaly != "" {
				finishFree()
				return x, nil
			}
		}
	}
	s.mu.Lock()
	for _, u := range s.threads {
		if u.panicked != nil {
			x.Panics[u.id] = fmt.Sprint(u.panicked)
		}
		if u.adopted {
			x.Adopted++
		}
	}
	s.mu.Unlock()
	return x, nil
}

// Scenario produces, for every execution, fresh thread bodies and a check of the finished execution.
// check returns a non-empty description for a violation.
type Scenario func() (bodies []func(s *Sched), check func(x *Exec) []Finding)

// Finding is a property violation found on one execution.
type Finding struct {
	Key  string
	What string
}

// Stats summarises an exploration.
type Stats struct {
	Executions     int
	MaxPoints      int
	BoundCompleted int // -1 if not even bound 0 was completed
	BudgetHit      bool
	Deadlocks      int
	Uncontrolled   int
	Outcomes       map[string]int
	// GoroutineMode is set when the scenario had to be explored with every goroutine as a thread of its own, because
	// in token mode the anomaly described in Anomaly was seen.
	GoroutineMode bool
	Anomaly       string
	Adopted       int // largest number of adopted goroutines in one execution
	// AllInterleavings is set when the exploration was not limited by the preemption bound: every interleaving of
	// the scenario (at scheduling-point granularity) was executed. MaxPreemptions is the largest number of preemptions
	// in any execution.
	AllInterleavings bool
	MaxPreemptions   int
}

// Violation is a finding with its schedule.
type Violation struct {
	Finding
	Choices     []int
	Schedule    string
	Preemptions int
	PerG        bool // found (and to be replayed) in goroutine mode
}

// Explore enumerates every execution with at most maxBound preemptions (iterating the bound from 0), checking each.
// It stops at the first bound that produces a violation. outcome (optional) classifies executions for vacuity reporting.
func Explore(sc Scenario, maxBound int, deadline time.Time, outcome func(x *Exec) string) (Stats, []Violation, error) {
	return exploreModes(sc, maxBound, deadline, outcome, false)
}

// ExploreAll enumerates every interleaving in one depth-first pass without a preemption bound.
func ExploreAll(sc Scenario, deadline time.Time, outcome func(x *Exec) string) (Stats, []Violation, error) {
	return exploreModes(sc, 1<<30, deadline, outcome, true)
}

func exploreModes(sc Scenario, maxBound int, deadline time.Time, outcome func(x *Exec) string, single bool) (Stats, []Violation, error) {
	if os.Getenv("VERIF_SCHED_MODE") == "goroutine" {
		return explore(sc, maxBound, deadline, outcome, true, "forced", single)
	}
	st, viols, err := explore(sc, maxBound, deadline, outcome, false, "", single)
	if an, ok := err.(*errAnomaly); ok {
		return explore(sc, maxBound, deadline, outcome, true, an.msg, single)
	}
	return st, viols, err
}

type errAnomaly struct{ msg string }

func (e *errAnomaly) Error() string { return "detached goroutine activity: " + e.msg }

func explore(sc Scenario, maxBound int, deadline time.Time, outcome func(x *Exec) string, perG bool, anomaly string, single bool) (Stats, []Violation, error) {
	st := Stats{BoundCompleted: -1, Outcomes: map[string]int{}, GoroutineMode: perG, Anomaly: anomaly}
	var viols []Violation
	seenKey := map[string]bool{}
	// Determinism obligation: the default schedule run twice gives identical point traces.
	var first *Exec
	for k := 0; k < 2; k++ {
		bodies, _ := sc()
		x, err := RunMode(nil, nil, bodies, perG)
		if err != nil {
			return st, nil, err
		}
		if x.Anomaly != "" {
			return st, nil, &errAnomaly{x.Anomaly}
		}
		if k == 0 {
			first = x
		} else if first.Schedule() != x.Schedule() {
			return st, nil, fmt.Errorf("default schedule is not deterministic:\n%s\n%s", first.Schedule(), x.Schedule())
		}
	}
	firstBound := 0
	if single {
		firstBound = maxBound
	}
	for bound := firstBound; bound <= maxBound; bound++ {
		complete := true
		newHere := 0
		var rec func(prefix []int, expect [][]int) error
		rec = func(prefix []int, expect [][]int) error {
			if time.Now().After(deadline) {
				complete = false
				st.BudgetHit = true
				return nil
			}
			bodies, check := sc()
			x, err := RunMode(prefix, expect, bodies, perG)
			if err != nil {
				return err
			}
			if x.Anomaly != "" {
				return &errAnomaly{x.Anomaly}
			}
			if x.Adopted > st.Adopted {
				st.Adopted = x.Adopted
			}
			// Count only executions that are new at this bound (those with exactly `bound` preemptions),
			// but explore children from all of them.
			if x.Preemptions > st.MaxPreemptions {
				st.MaxPreemptions = x.Preemptions
			}
			if x.Preemptions == bound || bound == 0 || single {
				st.Executions++
				newHere++
				if len(x.Points) > st.MaxPoints {
					st.MaxPoints = len(x.Points)
				}
				if x.Deadlock {
					st.Deadlocks++
				}
				if x.Uncontrolled {
					st.Uncontrolled++
				}
				for _, f := range check(x) {
					if !seenKey[f.Key] {
						seenKey[f.Key] = true
						viols = append(viols, Violation{Finding: f, Choices: x.Choices(), Schedule: x.Schedule(), Preemptions: x.Preemptions, PerG: perG})
					}
				}
				if outcome != nil {
					st.Outcomes[outcome(x)]++
				}
			}
			if x.Uncontrolled {
				return nil
			}
			exp := make([][]int, len(x.Points))
			for i, p := range x.Points {
				exp[i] = p.Enabled
			}
			pre := 0
			for i := 0; i < len(x.Points); i++ {
				p := x.Points[i]
				if i >= len(prefix) {
					cost := pre
					if p.RunningEnabled {
						cost++
					}
					if cost <= bound {
						for alt := 1; alt < len(p.Enabled); alt++ {
							np := append(append([]int{}, x.Choices()[:i]...), alt)
							if err := rec(np, exp[:i+1]); err != nil {
								return err
							}
							if time.Now().After(deadline) {
								complete = false
								st.BudgetHit = true
								return nil
							}
						}
					}
				}
				if p.RunningEnabled && p.Choice != 0 {
					pre++
				}
			}
			return nil
		}
		if err := rec(nil, nil); err != nil {
			return st, viols, err
		}
		if !complete {
			break
		}
		st.BoundCompleted = bound
		if single {
			st.BoundCompleted = st.MaxPreemptions
			st.AllInterleavings = true
		}
		if newHere == 0 && bound > 0 {
			// No execution has exactly this many preemptions, hence none has more.
			st.BoundCompleted = st.MaxPreemptions
			st.AllInterleavings = true
			break
		}
		if len(viols) > 0 {
			break
		}
	}
	return st, viols, nil
}

// Replay re-executes a recorded choice list n times and returns the executions.
func Replay(sc Scenario, choices []int, n int, perG bool) ([]*Exec, [][]Finding, error) {
	var xs []*Exec
	var fs [][]Finding
	for k := 0; k < n; k++ {
		bodies, check := sc()
		x, err := RunMode(choices, nil, bodies, perG)
		if err != nil {
			return xs, fs, err
		}
		if x.Anomaly != "" {
			return xs, fs, &errAnomaly{x.Anomaly}
		}
		xs = append(xs, x)
		fs = append(fs, check(x))
	}
	return xs, fs, nil
}
