//go:build verifsched

// Package sched is a cooperative scheduler and preemption-bounded stateless explorer for the real
// locker/ruler/rules code. Scheduling points are the sync operations of services/locker/syncmap (through the
// overlay-injected shim) and the storage operations (through util/verifhook).
package sched

import (
	"context"
	"fmt"
	"strings"
	"sync/atomic"
	"time"

	"github.com/attestantio/dirk/util/verifhook"
	"github.com/attestantio/dirk/util/verifsync"
)

// Watchdog bounds one step of one thread; it is hundreds of times larger than any real step.
var Watchdog = 20 * time.Second

type pending struct {
	kind string
	obj  any
}

type thread struct {
	id       int
	resume   chan struct{}
	pend     pending
	done     bool
	panicked any
}

// PointRec records one scheduling decision.
type PointRec struct {
	Enabled        []int  // thread ids in canonical order
	Choice         int    // index into Enabled
	RunningEnabled bool   // the thread that ran last is Enabled[0]
	Kind           string // pending operation of the chosen thread
}

// Exec is one complete execution.
type Exec struct {
	Points       []PointRec
	Deadlock     bool
	Blocked      []string // pending operations of the blocked threads at a deadlock
	Uncontrolled bool     // watchdog fired, execution finished free-running
	Stuck        bool     // watchdog fired and the threads did not finish free-running either
	Panics       map[int]string
	Preemptions  int
}

// Choices returns the choice list of the execution.
func (x *Exec) Choices() []int {
	c := make([]int, len(x.Points))
	for i, p := range x.Points {
		c[i] = p.Choice
	}
	return c
}

// Schedule renders the sequence of (thread, operation) decisions.
func (x *Exec) Schedule() string {
	var sb strings.Builder
	for _, p := range x.Points {
		fmt.Fprintf(&sb, "%d:%s ", p.Enabled[p.Choice], p.Kind)
	}
	return strings.TrimSpace(sb.String())
}

// Sched runs one execution.
type Sched struct {
	threads []*thread
	cur     *thread
	events  chan struct{}
	free    atomic.Bool
	step    int
}

// Now returns the logical clock (number of scheduling decisions so far). Only the running thread may call it.
func (s *Sched) Now() int { return s.step }

func (s *Sched) point(kind string, obj any) {
	if s.free.Load() {
		return
	}
	t := s.cur
	t.pend = pending{kind, obj}
	s.events <- struct{}{}
	<-t.resume
}

func enabled(p pending) bool {
	switch p.kind {
	case "lock":
		switch m := p.obj.(type) {
		case *verifsync.Mutex:
			return !m.Held()
		case *verifsync.RWMutex:
			return !m.WriteHeld() && m.Readers() == 0
		}
	case "rlock":
		if m, ok := p.obj.(*verifsync.RWMutex); ok {
			return !m.WriteHeld()
		}
	}
	return true
}

// ErrDiverged is returned when a prefix cannot be replayed.
type ErrDiverged struct{ Msg string }

func (e *ErrDiverged) Error() string { return "replay diverged: " + e.Msg }

// Run executes bodies under the scheduler, replaying prefix and then taking choice 0 at every later point.
// expect (optional) holds, for each prefix position, the enabled set recorded earlier; a difference is a hard error.
func Run(prefix []int, expect [][]int, bodies []func(s *Sched)) (*Exec, error) {
	s := &Sched{events: make(chan struct{}, 2*len(bodies)+2)}
	x := &Exec{Panics: map[int]string{}}
	for i, b := range bodies {
		t := &thread{id: i, resume: make(chan struct{}, 1), pend: pending{kind: "start"}}
		s.threads = append(s.threads, t)
		go func(t *thread, b func(s *Sched)) {
			<-t.resume
			defer func() {
				if r := recover(); r != nil {
					t.panicked = r
				}
				t.done = true
				s.events <- struct{}{}
			}()
			b(s)
		}(t, b)
	}
	verifsync.SetHooks(&verifsync.Hooks{Point: s.point})
	verifhook.SetHandler(func(_ context.Context, site string, _ ...any) error {
		if strings.HasSuffix(site, ".exit") {
			return nil
		}
		s.point(site, nil)
		return nil
	})
	defer func() {
		verifsync.SetHooks(nil)
		verifhook.SetHandler(nil)
	}()

	last := -1
	for {
		var en []int
		lastEnabled := false
		allDone := true
		for _, t := range s.threads {
			if t.done {
				continue
			}
			allDone = false
			if enabled(t.pend) {
				if t.id == last {
					lastEnabled = true
				} else {
					en = append(en, t.id)
				}
			}
		}
		if lastEnabled {
			en = append([]int{last}, en...)
		}
		if allDone {
			break
		}
		if len(en) == 0 {
			x.Deadlock = true
			for _, t := range s.threads {
				if !t.done {
					x.Blocked = append(x.Blocked, fmt.Sprintf("thread %d blocked at %s", t.id, t.pend.kind))
				}
			}
			// The blocked goroutines are abandoned (they hold nothing the next execution uses).
			break
		}
		i := len(x.Points)
		c := 0
		if i < len(prefix) {
			c = prefix[i]
			if c >= len(en) {
				return x, &ErrDiverged{fmt.Sprintf("choice %d out of range at point %d (enabled %v)", c, i, en)}
			}
			if expect != nil && i < len(expect) && fmt.Sprint(expect[i]) != fmt.Sprint(en) {
				return x, &ErrDiverged{fmt.Sprintf("enabled set %v at point %d, recorded %v", en, i, expect[i])}
			}
		}
		t := s.threads[en[c]]
		if lastEnabled && c != 0 {
			x.Preemptions++
		}
		x.Points = append(x.Points, PointRec{Enabled: en, Choice: c, RunningEnabled: lastEnabled, Kind: t.pend.kind})
		s.cur = t
		s.step++
		last = t.id
		t.resume <- struct{}{}
		select {
		case <-s.events:
		case <-time.After(Watchdog):
			// The running thread blocks in something outside scheduler control: finish free-running.
			x.Uncontrolled = true
			s.free.Store(true)
			for _, u := range s.threads {
				select {
				case u.resume <- struct{}{}:
				default:
				}
			}
			deadline := time.After(Watchdog)
			for {
				n := 0
				for _, u := range s.threads {
					if !u.done {
						n++
					}
				}
				if n == 0 {
					break
				}
				select {
				case <-s.events:
				case <-deadline:
					x.Stuck = true
				}
				if x.Stuck {
					break
				}
			}
			for _, u := range s.threads {
				if u.panicked != nil {
					x.Panics[u.id] = fmt.Sprint(u.panicked)
				}
			}
			return x, nil
		}
	}
	for _, u := range s.threads {
		if u.panicked != nil {
			x.Panics[u.id] = fmt.Sprint(u.panicked)
		}
	}
	return x, nil
}

// Scenario produces, for every execution, fresh thread bodies and a check of the finished execution.
// check returns a non-empty description for a violation.
type Scenario func() (bodies []func(s *Sched), check func(x *Exec) []Finding)

// Finding is a property violation found on one execution.
type Finding struct {
	Key  string
	What string
}

// Stats summarises an exploration.
type Stats struct {
	Executions     int
	MaxPoints      int
	BoundCompleted int // -1 if not even bound 0 was completed
	BudgetHit      bool
	Deadlocks      int
	Uncontrolled   int
	Outcomes       map[string]int
}

// Violation is a finding with its schedule.
type Violation struct {
	Finding
	Choices     []int
	Schedule    string
	Preemptions int
}

// Explore enumerates every execution with at most maxBound preemptions (iterating the bound from 0), checking each.
// It stops at the first bound that produces a violation. outcome (optional) classifies executions for vacuity reporting.
func Explore(sc Scenario, maxBound int, deadline time.Time, outcome func(x *Exec) string) (Stats, []Violation, error) {
	st := Stats{BoundCompleted: -1, Outcomes: map[string]int{}}
	var viols []Violation
	seenKey := map[string]bool{}
	// Determinism obligation: the default schedule run twice gives identical point traces.
	var first *Exec
	for k := 0; k < 2; k++ {
		bodies, _ := sc()
		x, err := Run(nil, nil, bodies)
		if err != nil {
			return st, nil, err
		}
		if k == 0 {
			first = x
		} else if first.Schedule() != x.Schedule() {
			return st, nil, fmt.Errorf("default schedule is not deterministic:\n%s\n%s", first.Schedule(), x.Schedule())
		}
	}
	for bound := 0; bound <= maxBound; bound++ {
		complete := true
		var rec func(prefix []int, expect [][]int) error
		rec = func(prefix []int, expect [][]int) error {
			if time.Now().After(deadline) {
				complete = false
				st.BudgetHit = true
				return nil
			}
			bodies, check := sc()
			x, err := Run(prefix, expect, bodies)
			if err != nil {
				return err
			}
			// Count only executions that are new at this bound (those with exactly `bound` preemptions),
			// but explore children from all of them.
			if x.Preemptions == bound || bound == 0 {
				st.Executions++
				if len(x.Points) > st.MaxPoints {
					st.MaxPoints = len(x.Points)
				}
				if x.Deadlock {
					st.Deadlocks++
				}
				if x.Uncontrolled {
					st.Uncontrolled++
				}
				for _, f := range check(x) {
					if !seenKey[f.Key] {
						seenKey[f.Key] = true
						viols = append(viols, Violation{Finding: f, Choices: x.Choices(), Schedule: x.Schedule(), Preemptions: x.Preemptions})
					}
				}
				if outcome != nil {
					st.Outcomes[outcome(x)]++
				}
			}
			if x.Uncontrolled {
				return nil
			}
			exp := make([][]int, len(x.Points))
			for i, p := range x.Points {
				exp[i] = p.Enabled
			}
			pre := 0
			for i := 0; i < len(x.Points); i++ {
				p := x.Points[i]
				if i >= len(prefix) {
					cost := pre
					if p.RunningEnabled {
						cost++
					}
					if cost <= bound {
						for alt := 1; alt < len(p.Enabled); alt++ {
							np := append(append([]int{}, x.Choices()[:i]...), alt)
							if err := rec(np, exp[:i+1]); err != nil {
								return err
							}
							if time.Now().After(deadline) {
								complete = false
								st.BudgetHit = true
								return nil
							}
						}
					}
				}
				if p.RunningEnabled && p.Choice != 0 {
					pre++
				}
			}
			return nil
		}
		if err := rec(nil, nil); err != nil {
			return st, viols, err
		}
		if !complete {
			break
		}
		st.BoundCompleted = bound
		if len(viols) > 0 {
			break
		}
	}
	return st, viols, nil
}

// Replay re-executes a recorded choice list n times and returns the executions.
func Replay(sc Scenario, choices []int, n int) ([]*Exec, [][]Finding, error) {
	var xs []*Exec
	var fs [][]Finding
	for k := 0; k < n; k++ {
		bodies, check := sc()
		x, err := Run(choices, nil, bodies)
		if err != nil {
			return xs, fs, err
		}
		xs = append(xs, x)
		fs = append(fs, check(x))
	}
	return xs, fs, nil
}
